#!/bin/bash
# usage: wave_eval.sh <prefix>   e.g. w5 -> /tmp/w5_Cxx/_out/patch.diff ; prints own-check verdict per property
for i in $(seq -w 1 20); do
  f=/tmp/$1_C$i/_out/patch.diff
  [ -f "$f" ] || { echo "C$i (no patch)"; continue; }
  echo "C$i $(/verif/seedtest.sh $f C$i 2>&1 | tail -1 | cut -c1-260)"
done
