#!/usr/bin/env python3
"""mkwave.py <N>: prepares wave N of seeded changes: a scratch worktree /tmp/wN_Cxx of /repo's HEAD per property and a
prompt file /tmp/agentN_Cxx.txt holding only the property text (from properties.jsonl), the earlier changes to avoid
(from seeded/*/meta.json) and a focus. Nothing of /verif's machinery is shown to the agents."""
import json, glob, os, subprocess, sys
N = int(sys.argv[1])
FOCI = [
 "a change in an error or clean-up path: what happens after a failure, on the second failure, when a write to the client fails, or when a callback returns an unusual combination of results",
 "a caching / reuse / pooling optimisation: objects, buffers or decisions re-used across messages, statements, portals or connections",
 "a protocol-conformance 'improvement' modelled on what PostgreSQL or libpq do, applied incompletely (one path updated, its sibling not)",
 "a refactoring that merges two similar code paths (simple vs extended query, text vs binary, TLS vs plaintext, named vs unnamed, first vs later message) and loses a distinction between them",
]
FOCI8 = [
 "a micro-optimisation on a hot path: avoiding an allocation or a copy, a fast path for the common case, skipping work when 'nothing changed', batching writes or flushes",
 "handling of a rarely used protocol feature or message field: the row limit of Execute, empty or unusual portal/statement names, Describe variants, Flush, format-code vectors, parameter type lists, NULL handling, zero-length values",
 "a concurrency or life-cycle change: a lock narrowed or removed, a goroutine added, context propagation or cancellation changed, the order of steps during connection set-up, tear-down or shutdown changed",
 "a new configuration option, default value or convenience API (with its plumbing) that has a side effect on existing behaviour when it is NOT used, or only when it is combined with an existing option",
]
if N >= 8:
    FOCI = FOCI8
FOCI9 = [
 "a modernisation: a hand-written loop or helper replaced by a newer standard-library facility (slices, maps, strings.Cut/CutPrefix, bytes.Buffer.AvailableBuffer, sync.OnceValue/OnceFunc, context.WithoutCancel/AfterFunc, atomic types, min/max, clear, range-over-int) whose semantics differ in an edge case",
 "a security hardening: a new limit, sanitising or normalising of client-supplied text, stricter validation, zeroing of secrets, constant-time comparison, refusing suspicious input - which also rejects, alters or loses something legitimate",
 "an over-correcting bug fix for a different (real or imagined) problem: 'fix' a double or missing ReadyForQuery, a missing flush, a leak, a race, an unchecked error - and thereby change behaviour on a neighbouring path",
 "an API-ergonomics change: an exported helper or option gets new behaviour for nil / zero / empty arguments, returns a shared instead of a fresh object (or the reverse), accepts a wider input, or changes what it does when called twice",
]
if N >= 9:
    FOCI = FOCI9
FOCI11 = [
 "observability or diagnostics added to the code path: logging of values or messages, metrics counters, tracing spans, debug dumps, error context enrichment - whose implementation touches the data or the control flow it observes",
 "resource-usage tuning: buffer sizes, pre-allocation, pooling with sync.Pool, lazy initialisation, freeing or shrinking memory earlier, limiting concurrency - changing when something is created, reset or released",
 "making behaviour configurable: a hard-coded constant or behaviour becomes an option / field with a default; or two options are unified; the default or the interaction of two settings is subtly off",
 "a compatibility shim for a specific client or driver (psql, libpq, pgx, lib/pq, JDBC, an ORM): special-casing something that client sends or expects, in a way that also catches other traffic",
]
if N >= 11:
    FOCI = FOCI11
FOCI13 = [
 "error handling made 'more robust': retrying, ignoring or translating an error (temporary network errors, short writes, io.ErrShortWrite, context deadline), continuing where the code used to stop - or the reverse: giving up where it used to continue",
 "a state-machine simplification: two flags merged into one, a state inferred from another field instead of being stored, an early return added, clean-up moved into a defer, a check hoisted out of a loop",
 "numeric representation: int16/uint16/int32/int sizes and signedness, lengths computed differently (bytes vs runes, cap vs len), conversions, off-by-one at 0 / 1 / the maximum",
 "ordering: something is written, flushed, invoked or recorded earlier or later than before, or moved across a boundary (before/after authentication, before/after ReadyForQuery, inside/outside a lock, before/after a callback returns)",
]
if N >= 13:
    FOCI = FOCI13
FOCI15 = [
 "the environment around the library: the change only matters for what the embedding program does - a handler that calls the DataWriter / CopyReader / Parameter helpers in an unusual but legal order, twice, or after an error; a custom net.Listener / net.Conn (deadlines, partial reads and writes); a logger, hook or callback that is slow, fails, or returns unusual combinations",
 "data-dependent behaviour: the change only matters for particular values - one byte value, a length, a code point, an SQLSTATE, an OID, a name, or a value that happens to equal a sentinel the code uses internally",
 "a documentation-driven change: make the code match a doc comment, a README claim or a sentence of the PostgreSQL protocol documentation - read too literally, or applied at the wrong layer or to one of two sibling paths",
 "clean-up: removal of code, a parameter, a field or a branch that looks dead, redundant or duplicated (a second reset, a defensive copy, a re-check after a call) but was needed on one path",
]
if N >= 15:
    FOCI = FOCI15
FOCI18 = [
 "interaction of two features that are each fine alone (TLS + authentication, COPY + extended protocol, Close + COPY, oversized message + open portal, row limit + error, session middleware + terminate hook, two listeners, custom type + binary format): the change is correct for each feature in isolation and wrong when both are in play",
 "a Go-semantics pitfall introduced by an innocent-looking edit: slice aliasing through append or re-slicing, a struct (with a mutex, a buffer or a slice header) copied by value, a closure capturing a loop or outer variable, a shadowed err or ctx, defer evaluation order, nil interface vs nil pointer, map iteration order relied upon, integer conversion",
 "API evolution: a new exported helper, option or method is added (with its own doc comment) and the old one is re-implemented on top of it, or two near-duplicates are unified, and the old entry point's behaviour shifts in a corner (nil / empty argument, called twice, called in another order, called after an error)",
 "concurrency performance work: a lock split or sharded, a lock-free fast path in front of a locked slow path, an atomic flag replacing a mutex, a background goroutine (flusher, reaper, logger) introduced, work moved out of a critical section",
]
if N >= 18:
    FOCI = FOCI18
FOCI20 = [
 "an error-path or clean-up refactor: errors compared with errors.Is / errors.As instead of == (or the reverse), an error wrapped or re-classified (temporary vs fatal, EOF vs unexpected EOF), an early return added that skips a release / reset / flush, a defer moved, a clean-up made idempotent in a way that skips it the one time it is needed",
 "client compatibility work: the server is made friendlier to one particular client (JDBC, psycopg, libpq pipeline mode, pgbouncer, a PostgreSQL-version-specific behaviour) - tolerating something that client sends, answering in the order it expects, adding a message it likes - and the accommodation is wrong for other traffic the property quantifies over",
 "defensive hardening that overshoots or undershoots: a new validation, limit, timeout, sanitisation or normalisation (of names, lengths, counts, encodings, identifiers, parameters) that is applied at one site and not at its twin, or rejects / alters a legitimate boundary input, or is applied after the value was already used",
 "observability work: logging, metrics, tracing, debug hooks or context values added along the hot path - something is read for the log that is not safe to read there (shared state, a buffer still being filled, bytes consumed from the reader), formatted in a way that mutates it, stored beyond its lifetime, or the log call changes the order of effects",
]
if N >= 20:
    FOCI = FOCI20
FOCI24 = [
 "two cooperating sites that each look fine alone: split the change across two functions or files - one site stops doing something (a reset, a copy, a check, a flush, a bounds test) because 'the other site already does it', while the other site does it only conditionally or slightly differently; or one site widens what it passes on and the other keeps trusting it. Each half must be defensible in review on its own",
 "a fault at a particular point of a multi-step operation: what the code does when the transport read or write, a callback, a codec or a context ends exactly between two steps (after a header but before its body, after the first of several writes, between Bind and Execute, between CopyInResponse and the first CopyData, between the TLS 'S' and the handshake, between authentication and the first ParameterStatus) - the change alters state handling so that this failure leaves something behind, or recovery carries on wrongly on this or the next connection",
 "dependency semantics: the change leans on a behaviour of a dependency that does not hold in a corner - pgx/pgtype (type map, codec plan caching, Encode of nil / typed nil / pointers / Valuers, which types have a binary or text form), crypto/tls (Config cloning, lazy handshake, close_notify, ConnectionState), log/slog (attribute evaluation, LogValuer), bufio / bytes / io (Reader contract: n>0 together with an error, zero-length reads, ReadFull vs Read), net (deadlines, Addr types, ErrClosed), sync / context (AfterFunc, Cause, WithoutCancel)",
 "time and liveness: timeouts, deadlines, idle limits, keep-alives, back-off after Accept errors, context cancellation, grace periods of a graceful shutdown - introduced or changed so that a slow, stalled, very fast or pipelining peer, or a handler that takes long, gets a different outcome with respect to the property",
]
if N >= 24:
    FOCI = FOCI24
FOCI26 = [
 "a size threshold crossed for the first time: a counter that wraps (uint16 / int32), a buffer that grows, shrinks or is re-sliced, a map or slice that is re-created or whose capacity is re-used, a frame that exceeds its pre-allocated size - the change is right until the structure crosses the threshold, and only wrong for what happens to be in flight at that moment",
 "what a handler may legally do: a parser or statement function that uses the library in a legal but unusual way - keeps the DataWriter, the CopyReader, the parameters or the context after it returned; calls Complete or CopyIn twice or after rows; writes rows from another goroutine (sequentially); returns no statements or nil; panics; blocks; opens another connection to the same server from inside the handler; shares one prepared-statement object between connections",
 "the second time: anything that is correct the first time and wrong the second - the second Query on a connection, the second Execute of a portal, the second COPY, the second Close, the second server in the same process (package-level state), the second listener, the same user reconnecting, a Parse of an identical text, the second error",
 "negative space of the protocol: what must NOT be sent or done - no reply to Flush or to stray COPY messages, no ReadyForQuery after extended messages, no callback for skipped or refused messages, no response to a CancelRequest, no bytes after the connection is given up, no ParameterStatus twice - the change adds an emission, a callback or a side effect in one such corner",
]
if N >= 26:
    FOCI = FOCI26
props = [json.loads(l) for l in open('/verif/properties.jsonl')]
earlier = {}
for f in sorted(glob.glob('/verif/seeded/*/meta.json')):
    m = json.load(open(f)); earlier.setdefault(m['property'], []).append(m['change'])
for i, p in enumerate(props):
    pid = p['id']; wt = "/tmp/w%d_%s" % (N, pid)
    if not os.path.isdir(wt):
        subprocess.run(["git", "-C", "/repo", "worktree", "add", "--detach", wt, "HEAD"], check=True, capture_output=True)
    q = p.get('quantifier', '')
    if isinstance(q, dict):
        q = q.get('text', '')
    text = "%s: %s\n\nStatement: %s\n\nQuantifier: %s\n\nAnchors (where the mechanism lives): %s\n" % (
        pid, p.get('title', ''), p.get('statement', ''), q, json.dumps(p.get('anchors', p.get('anchor', ''))))
    avoid = "\n".join("  - " + c for c in earlier.get(pid, []))
    focus = FOCI[(i + N) % len(FOCI)]
    prompt = f"""You are helping test a verification framework by playing the role of a developer who accidentally introduces a subtle regression.

Work ONLY inside the git worktree {wt} (a checkout of the Go library jeroenrinzema/psql-wire, a PostgreSQL server-side wire protocol library). Do not read or touch /verif or /repo or any other directory under /tmp. Every shell command needs this environment first:
  export GOFLAGS=-mod=mod GOPROXY=off GOSUMDB=off GOTOOLCHAIN=local
(the sandbox has no network). The repository's own test suite runs with: cd {wt} && go test -vet=off -count=1 ./...   (it must keep passing: 69 tests).
NEVER use `git stash` (the stash is shared with other worktrees and other people use it concurrently). To test without your change, save it with `git diff > /tmp/{pid}_w{N}.patch`, then `git apply -R /tmp/{pid}_w{N}.patch`, and re-apply with `git apply /tmp/{pid}_w{N}.patch`. Any scratch file you create under /tmp must have a name starting with {pid}_w{N}.

Here is a semantic property of the library that currently HOLDS on this tree:

{text}

Your task: make a realistic change to the library source (not to the tests, not to verif_on.go/verif_off.go) that BREAKS this property while (1) the code still compiles (also with `go build -tags verif ./...`), (2) the existing test suite still passes unchanged, and (3) the break needs something specific to manifest - a particular interleaving, a fault at a particular point, a multi-step sequence of operations, an unusual input, a boundary value, or two cooperating sites that each look fine alone - i.e. NOT something that ordinary use (connect, run a simple query, get rows) would expose at once. Keep the change small (a few lines to a few dozen lines) and make it look like something a maintainer could plausibly merge.

Focus for this round: {focus}.

Colleagues have already tried the following changes for this property; yours must be different in mechanism and in trigger (do not vary one of these):
{avoid}

Then write a demonstration: a Go test file in {wt} (e.g. {wt}/zz_demo_test.go, package wire, or pkg/buffer / errors as appropriate) that FAILS with your change and PASSES without it (verify both). The demo must compile on both trees (with and without your change), so it may only use API that exists without the change (use reflection or raw protocol bytes if you add API). It may use raw TCP connections, the pkg/mock client, pgx, or direct calls; for concurrency properties it may loop to provoke the interleaving. The library logs via slog; use wire.Logger(slog.New(slog.NewTextHandler(io.Discard, nil))) to silence it.

When done, produce these files:
  {wt}/_out/patch.diff      = output of `git diff` for the library change only (no demo file, no _out)
  {wt}/_out/demo_test.go    = copy of your demonstration
  {wt}/_out/notes.md        = which clause of the property it breaks, what is needed for it to manifest, and the exact commands you ran with their results (suite passes with the change; demo fails with the change; demo passes without it)
Leave the worktree with the change applied and the demo file in place. Final answer: a 5-line summary (what you changed, what it needs to manifest).
"""
    open("/tmp/agent%d_%s.txt" % (N, pid), "w").write(prompt)
print("prepared wave", N)
