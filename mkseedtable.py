#!/usr/bin/env python3
"""Rewrites section 10 of DESIGN.md (table of seeded changes) from seeded/*/meta.json."""
import json, glob, re
rows=[]
for f in sorted(glob.glob('/verif/seeded/*/meta.json')):
    m=json.load(open(f))
    first = "missed at first" if 'first_run' in m else "caught at first run"
    rows.append("| %s | %s | %s | %s | %s | %s |" % (m['id'], m['property'], m['change'].replace('|','/'), m['needs_to_manifest'].replace('|','/'), ", ".join(m['caught_by_quick_checks']), first))
n=len(rows); missed=sum(1 for r in rows if 'missed at first' in r)
sec = """## 10. Seeded changes and the checks that catch them

%d changes were produced by fresh sub-agents that were given only the text of one property
and a scratch worktree (nothing from /verif). Each compiles, keeps the repository's 69 tests
green, and comes with a demonstration that fails with the change and passes without it (all
re-confirmed by `/tmp/verify_demo.sh`-style runs in scratch worktrees; commands in each
`meta.json`). `seedtest.sh <patch> <ids...>` applies one change to /repo, runs the quick checks
and restores /repo and the evidence files; `seedmatrix.sh` runs every change against every check
on a scratch copy. %d of the %d changes were missed by the targeted property's own quick check
when first tried; each miss led to a strengthening of the workload or oracle (column
"first run", details in `meta.json`), after which every change is caught by the quick check of
the property it targets. "Caught by" lists the checks confirmed to report it.

| Id | Property | Change | Needs | Caught by (quick) | First run |
|---|---|---|---|---|---|
%s
""" % (n, missed, n, "\n".join(rows))
s=open('/verif/DESIGN.md').read()
i=s.find('## 10. Seeded changes')
if i<0:
    s=s.rstrip()+"\n\n"+sec
else:
    s=s[:i]+sec
open('/verif/DESIGN.md','w').write(s)
print(n, "rows;", missed, "missed at first")
