#!/bin/bash
# Runs every seeded change against every property's quick check on a scratch copy of the
# repository (VERIF_REPO must point to a git checkout that may be modified, e.g. $VP_RUN_REPO).
# Output: one line per (seed, property): CAUGHT / missed / INCONCLUSIVE.
BASE=$(cd "$(dirname "$0")" && pwd)
REPO=${VERIF_REPO:?set VERIF_REPO to a scratch checkout}
mkdir -p "$BASE/.work"
PROPS=${PROPS:-C01 C02 C03 C04 C05 C06 C07 C08 C09 C10 C11 C12 C13 C14 C15 C16 C17 C18 C19 C20}
for d in "$BASE"/seeded/S*/; do
  s=$(basename "$d")
  git -C "$REPO" checkout -q -- . ; git -C "$REPO" apply "$d/patch.diff" || { echo "$s PATCH-FAILED"; continue; }
  line="$s:"
  for p in $PROPS; do
    "$BASE/run.sh" $p quick > "$BASE/.work/seed_${s}_$p.log" 2>&1; rc=$?
    case $rc in 0) ;; 1) line="$line $p";; *) line="$line $p(inconclusive)";; esac
  done
  echo "$line"
  git -C "$REPO" checkout -q -- .
done
