#!/bin/bash
# usage: wtrun.sh [-s seed] [-t tier] <repo dir> <Cxx...> : runs checks of the current /verif working tree against another checkout of
# the repository (e.g. a sub-agent's scratch worktree with its change applied), from a snapshot under /tmp, so that /repo,
# /verif/.work and /verif/evidence are not touched. Prints the summary line and the rules that fired.
SEED=1; TIER=quick
while getopts s:t: o; do case $o in s) SEED=$OPTARG;; t) TIER=$OPTARG;; esac; done; shift $((OPTIND-1))
R=$1; shift
S=/tmp/vsnap.$$
rsync -a --exclude .work --exclude .git --exclude seeded /verif/ $S/ || exit 2
trap 'rm -rf $S' EXIT
for p in "$@"; do
  VERIF_REPO=$R VERIF_SEED=$SEED $S/run.sh $p $TIER 2>&1 | grep -E "tier=|^VIOLATION|rule:|INCONCLUSIVE|KNOWN" | cut -c1-400 | sort | uniq -c | sort -rn | head -8
done
