#!/bin/bash
# Runs every seeded change against the quick check of the property it targets (and, when that one does not report it,
# against the other checks its meta.json lists under caught_by_quick_checks), on a scratch checkout (VERIF_REPO, e.g.
# $VP_RUN_REPO). One line per seed: CAUGHT <by> / MISSED / INCONCLUSIVE. Regression guard for the checks: after the
# workloads changed, every stored change must still be caught.
BASE=$(cd "$(dirname "$0")" && pwd)
REPO=${VERIF_REPO:?set VERIF_REPO to a scratch checkout}
mkdir -p "$BASE/.work"
# SHARD / NSHARDS (optional): this run takes every NSHARDS-th change, starting with the SHARD-th; ONLY (optional): a regular
# expression the directory name has to match
n=0
for d in "$BASE"/seeded/S*/; do
  n=$((n+1)); [ -n "${NSHARDS:-}" ] && [ $((n % NSHARDS)) -ne "${SHARD:-0}" ] && continue
  [ -n "${ONLY:-}" ] && ! echo "$d" | grep -Eq "$ONLY" && continue
  s=$(basename "$d"); own=$(echo "$s" | sed 's/^S[0-9]*-\(C[0-9]*\)-.*/\1/')
  others=$(python3 -c "import json,sys;m=json.load(open(sys.argv[1]));print(' '.join(x for x in m.get('caught_by_quick_checks',[]) if x!=sys.argv[2]))" "$d/meta.json" $own)
  git -C "$REPO" checkout -q -- . ; git -C "$REPO" clean -fdq ; git -C "$REPO" apply "$d/patch.diff" || { echo "$s PATCH-FAILED"; continue; }
  res=MISSED
  for p in $own $others; do
    "$BASE/run.sh" $p quick > "$BASE/.work/own_$s.log" 2>&1; rc=$?
    case $rc in 1) res="CAUGHT $p"; break;; 0) ;; *) res="INCONCLUSIVE $p rc=$rc $(grep -m1 INCONCLUSIVE "$BASE/.work/own_$s.log" | cut -c1-150)";; esac
  done
  echo "$s $res"
  git -C "$REPO" checkout -q -- . ; git -C "$REPO" clean -fdq
done
