#!/bin/bash
# Runs every seeded change against the quick check of the property it targets, on a scratch checkout
# (VERIF_REPO, e.g. $VP_RUN_REPO). One line per seed: CAUGHT / MISSED / INCONCLUSIVE. Regression guard for the checks:
# after the workloads changed, every stored change must still be caught.
BASE=$(cd "$(dirname "$0")" && pwd)
REPO=${VERIF_REPO:?set VERIF_REPO to a scratch checkout}
for d in "$BASE"/seeded/S*/; do
  s=$(basename "$d"); p=$(echo "$s" | sed 's/^S[0-9]*-\(C[0-9]*\)-.*/\1/')
  git -C "$REPO" checkout -q -- . ; git -C "$REPO" apply "$d/patch.diff" || { echo "$s PATCH-FAILED"; continue; }
  "$BASE/run.sh" $p quick > "$BASE/.work/own_$s.log" 2>&1; rc=$?
  case $rc in 1) echo "$s CAUGHT";; 0) echo "$s MISSED";; *) echo "$s INCONCLUSIVE rc=$rc $(grep -m1 INCONCLUSIVE "$BASE/.work/own_$s.log" | cut -c1-150)";; esac
  git -C "$REPO" checkout -q -- .
done
