#!/usr/bin/env python3
"""Regenerates /verif/MANIFEST.json from the table below (kept next to the checks)."""
import json, subprocess

ALL = ["C%02d" % i for i in range(1, 21)]

# id -> (level, technique, level text, level note, design ref)
CHECKS = {
    "C13": ("exploration",
            "runtime monitoring: COPY-in reference model vs per-step replies and the chunks/errors recorded by a scripted COPY handler (exhaustive short sequences + random)",
            "Exhaustive message sequences to length 3 x 7 terminators x 4 handler variants plus random longer ones, simple and Execute mode, lock-step; chunk bytes/order, Flush/Sync invisibility, CopyDone=EOF, abort=non-EOF error, exactly one E and one Z per aborted cycle, silence for stray COPY messages. Held-on-observed.",
            "Trusts transport/parser and the COPY model inside harness/checks/c13.go.",
            "DESIGN.md 4/C13"),
    "C14": ("exploration",
            "runtime monitoring: differential (independent binary COPY encoder) + metamorphic (every split of the same stream must give the same rows) oracle; crash oracle via child process",
            "Generated tables are encoded by the harness, cut into CopyData messages at every single position (small streams), per byte, at row boundaries with empty messages and at random cut sets; the library's row reader must return exactly the rows sent and io.EOF for every split; corruption classes and client aborts must surface as errors with only intact rows returned. Held-on-observed.",
            "Trusts the harness's binary encoder and value canonicalisation.",
            "DESIGN.md 4/C14"),
    "C15": ("exploration",
            "runtime monitoring: Go race detector over concurrent session groups + solo-vs-concurrent transcript/trace equality with yield injection; evidence counts distinct observed interleavings",
            "Groups of 2-24 generated sessions are served solo and then concurrently (3-5 schedules each) by the real server built with -race; per-connection bytes and callback traces must equal the solo run and the race log must contain no report with a library frame. Held-on-observed interleavings only.",
            "The race detector only sees executed accesses; yield injection widens but does not enumerate schedules.",
            "DESIGN.md 4/C15"),
    "C16": ("exploration",
            "runtime monitoring: forced schedules through build-tagged schedule points (exhaustive product grid) + randomized stress under the race detector; happens-before oracles built from harness channels/atomics; crash and deadlock classification",
            "Full product of connection state x number of Close callers x Close start mode x message kind on fresh servers, then stress rounds; a running callback observing 'all Close calls returned', Close returning while a handler is held, a panic, Serve != nil, or a library goroutine blocked after all gates were released are violations. Held-on-observed schedules.",
            "Hooks are six no-op call sites behind the verif tag; settle periods affect detection power only.",
            "DESIGN.md 4/C16"),
    "C20": ("exploration",
            "runtime monitoring: independent scanner (differential) + crash oracle (child process) + allocation counter around each call + Describe count through the wire",
            "Exhaustive marker sequences to length 4, huge-index family and random SQL-like text; ParseParameters is called in an isolated child, compared with a hand-written scanner using big integers, with a TotalAlloc bound, and its length compared with the ParameterDescription the server announces. Held-on-observed.",
            "Trusts the 30-line scanner; mixed-style and >65535 cases judged for totality/boundedness only.",
            "DESIGN.md 4/C20"),
    "C07": ("exploration",
            "runtime monitoring: unique-id (unambiguous) histories replayed through a sequential namespace model per connection; concurrent same-name groups under the Go race detector with yield injection",
            "Exhaustive short histories plus random histories over a 3-name pool; the exec callback's statement id and parameter bytes and the portal Describe's column names identify the definition used, which must be the one the model resolves; concurrent groups are judged per connection and the race log must be empty. Held-on-observed.",
            "Trusts transport/parser/model; per-connection sequentiality (one serving goroutine) is an assumption of the oracle.",
            "DESIGN.md 4/C07"),
    "C08": ("exploration",
            "runtime monitoring: sent-vs-received parameter oracle inside the statement callback + independent value codecs for Scan and result formats",
            "Generated Binds (counts up to 65535, NULL/empty/NUL-containing/typed values, the three format-vector shapes) run against the real server; the statement function's view (count, order, bytes, nil-ness, Format, Scan) and the portal's announced/used result formats are compared with what the client sent. Held-on-observed.",
            "Trusts transport/parser and the harness's own value encoders/decoders.",
            "DESIGN.md 4/C08"),
    "C09": ("exploration",
            "runtime monitoring: differential oracle - every DataRow field decoded by an independent text/binary decoder and compared with the value the handler wrote",
            "Generated tables over 18 (20 in thorough) column types with boundary values and five NULL forms, fetched in text and binary; field count, format codes, NULL marker and decoded values compared. Held-on-observed.",
            "Trusts the harness's decoders (written from the PostgreSQL docs, tolerant of PostgreSQL's input syntax).",
            "DESIGN.md 4/C09"),
    "C17": ("exploration",
            "runtime monitoring: flattening reference model vs strictly parsed ErrorResponse fields (exhaustive decorator sequences + random)",
            "All decorator sequences to depth 4 (5 in thorough) x value variants, returned from parser and statement functions in simple and extended mode; every field compared. Held-on-observed.",
            "Trusts the 40-line flattening model (hs.ErrSpec.Expect) and the strict parser.",
            "DESIGN.md 4/C17"),
    "C01": ("exploration",
            "runtime monitoring: transcript + callback-trace oracle on non-accepted connections (generated credentials, malformed password messages, pipelined/late continuations)",
            "Real server with ClearTextPassword/custom strategies over the instrumented transport; every non-accepting connection must show R(3) [E] + the server's own Close and no callback other than the validator; accepting ones must reach a working session. Held-on-observed.",
            "Trusts transport, independent parser; validator outcome scripted from the password.",
            "DESIGN.md 4/C01"),
    "C06": ("exploration",
            "runtime monitoring: NFA reference model of the extended protocol decided per message in lock-step (promptness = reply complete when the server blocks for input) + pipelined/lock-step metamorphic equality",
            "All message histories up to length 4 over a 13-symbol alphabet (exhaustive) plus random longer histories run against the real server; each reply and callback set must be explained by an admissible model state; the same history pipelined must give identical bytes and trace. Held-on-observed.",
            "Trusts transport, parser and the model in harness/checks/ext.go; open behaviours listed in the evidence assumptions are accepted in every reading.",
            "DESIGN.md 4/C06"),
    "C05": ("exploration",
            "runtime monitoring: reference-model oracle over transcripts + per-operation byte attribution (exhaustive small scripts + seeded random)",
            "Every Query cycle produced by exhaustively enumerated and random handler scripts is executed against the real server over the instrumented transport; a reference model of the cycle and of the result-writer state machine decides transcript, per-call emitted bytes, return classes and Written(). Held-on-observed, not a proof.",
            "Trusts the in-memory transport, the independent backend parser and the 60-line model; scripts bounded as stated in the evidence rule.",
            "DESIGN.md 4/C05"),
}

PENDING_REASON = "check not built yet in this round (planned, see DESIGN.md section 4); not claimed until its monitor runs silent on the tree"

def main():
    hooks = {
        "guard": "verif",
        "enable": "go build -tags verif (harness module /verif/harness with replace => /repo); run.sh does this on every invocation",
        "baseline_off_cmd": "/verif/baseline.sh",
        "source_commits": [],
        "add_only": True,
    }
    try:
        out = subprocess.run(["git", "-C", "/repo", "log", "--format=%h %s"], capture_output=True, text=True).stdout
        hooks["source_commits"] = [l.split()[0] for l in out.splitlines() if l.split(" ", 1)[1].startswith("verif:")]
    except Exception:
        pass
    checks = []
    for pid in ALL:
        if pid not in CHECKS:
            continue
        level, tech, text, note, ref = CHECKS[pid]
        checks.append({
            "property_id": pid,
            "quick_cmd": "./run.sh %s quick" % pid,
            "thorough_cmd": "./run.sh %s thorough" % pid,
            "evidence_file": "/verif/evidence/%s.json" % pid,
            "replay_cmd_template": "./run.sh replay {path}",
            "engine": "vcheck",
            "level_claimed": {"category": level, "text": text, "design_ref": ref},
            "level_note": note,
            "technique": tech,
        })
    na = [{"property_id": p, "reason": PENDING_REASON} for p in ALL if p not in CHECKS]
    m = {
        "version": 1,
        "setup_cmd": "./run.sh build",
        "hooks": hooks,
        "engines": [{"name": "vcheck", "path": "/verif/harness", "serves_properties": sorted(CHECKS),
                     "kind_free_text": "Go harness: real psql-wire server over an instrumented in-memory transport, scripted handlers, independent codec, reference-model oracles, child-process crash oracle, race-log and allocation-profile monitors"}],
        "checks": checks,
        "not_applicable": na,
        "notes": "All checks are runtime monitors over executions of the real library (see DESIGN.md). Exit 0 = held on everything explored, 1 = VIOLATION line, 2 = INCONCLUSIVE (never on the unchanged tree).",
    }
    json.dump(m, open("/verif/MANIFEST.json", "w"), indent=1)
    print("MANIFEST.json: %d checks, %d not_applicable" % (len(checks), len(na)))

if __name__ == "__main__":
    main()
