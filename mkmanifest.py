#!/usr/bin/env python3
"""Regenerates /verif/MANIFEST.json from the table below (kept next to the checks)."""
import json, subprocess

ALL = ["C%02d" % i for i in range(1, 21)]

# id -> (level, technique, level text, level note, design ref)
CHECKS = {
    "C02": ("exploration",
            "runtime monitoring: strict independent backend-grammar parser over every server byte (generated handler programs + hostile client inputs) and a model-based monitor of the public buffer.Writer API over a transiently failing sink",
            "Handler programs drawn from a grammar (columns, rows, abandoned frames, tags, decorated errors, COPY) and structure-aware mutations of client sessions are run against the real server; the whole server-to-client stream of each connection must parse exactly; the k-th transport Write of every canonical session is interrupted half-way by a temporary error (whole messages, then at most the accepted half of the interrupted one); Bind format codes over the whole 16-bit range. Held-on-observed.",
            "Trusts the strict parser written from the protocol documentation; NUL-free handler strings assumed.",
            "DESIGN.md 4/C02"),
    "C03": ("exploration",
            "runtime monitoring: metamorphic oracle (same bytes under 6-12 segmentations; with/without surplus bytes) + independent-cursor differential monitor for the buffer.Reader accessors, checkptr build, child-process crash oracle",
            "Generated client streams (SSL/auth/simple/extended/COPY, truncated) are delivered all-at-once, per byte, cut inside every header and at random cut sets; transcripts and callback traces must be identical (one segmentation pauses at every cut in virtual time, firing pending read deadlines) and the reference run must show the parameters each Bind carried; surplus bytes inside a message's declared length must not change anything or reach a callback; accessor results are compared with an independent cursor. Held-on-observed.",
            "ParameterStatus order normalised; after an accessor error the sequence is not judged further.",
            "DESIGN.md 4/C03"),
    "C04": ("fault_enumeration",
            "runtime monitoring with exhaustive fault injection at the transport (every k-th Read, k-th Write, every inbound byte offset of each canonical session; permanent errors, EOF, short writes, and transient faults: a temporary read error once, reads timing out for good, a write interrupted half-way) + structure-aware input mutation; oracles: child-process crash oracle, close/spin/leak detectors, probe connections, allocation profile sanitizer (MemProfileRate=1), no-fabrication frame model",
            "For each canonical session the fault-free run's reads, writes and bytes are measured and every fault position is then injected (error, EOF, short write); mutated inputs are run in every phase; every type of the default type map is fed hostile binary and text values through both decode entry points; bodies full of aligned message look-alikes. The process must survive, the connection must end, nothing may leak, allocations stay under 8L+4MiB, and callbacks only see data carried by well-framed input. Exhaustive over fault positions of the listed sessions; held-on-observed for mutations.",
            "Faults are injected at the net.Conn boundary (where the library observes them); allocation bound has an additive constant (see assumptions).",
            "DESIGN.md 4/C04"),
    "C10": ("exploration",
            "runtime monitoring: enumerated (limit x size x type x position) grid with a boundary model, a resynchronisation probe and an allocation-profile sanitizer (one child process per limit)",
            "Bodies of L-1, L (processed; callback sees exact content) and L+1.. (skipped; exactly one ERROR/54000; Sync + unique probe Query answered normally) for 12 limits, 13 message types and 7 positions incl. COPY mode, password and startup packet; declared-only 2^31..2^32 lengths and sub-minimum lengths; no library object above 4L+64KiB. Exhaustive grid in thorough, seeded subset in quick.",
            "After an oversized extended message E or E Z is accepted (C06 open reading).",
            "DESIGN.md 4/C10"),
    "C11": ("exploration",
            "runtime monitoring on a raw wire tap under a crypto/tls client: TLS record-layer parser, canary search, TLS-vs-plaintext metamorphic equality, stuffing and raw-injection monitors",
            "Sessions from the C15 generator run inside TLS 1.2/1.3 and in plaintext; reply to SSLRequest must be exactly S/N, every raw server byte after S must be a TLS record, canaries never appear in the raw stream, decrypted transcript/trace equal the plaintext run, plaintext stuffed before the handshake or injected under the session never reaches a callback. Held-on-observed.",
            "crypto/tls trusted for cryptography; self-signed certificate generated in-process.",
            "DESIGN.md 4/C11"),
    "C12": ("exploration",
            "runtime monitoring: startup model with ParameterStatus multiset comparison, context reads inside callbacks, map snapshot comparison, concurrent connects under the Go race detector with yield injection",
            "Generated startup packets (duplicates, empty/unicode/long values, malformed) x server configurations (global maps with colliding keys, version, auth); reply order and multiset, handler-visible client/server parameters, username, remote address, non-mutation of the configured map, 2-64 concurrent users, CancelRequest at three negotiation stages. Held-on-observed.",
            "For duplicated keys any sent value is accepted.",
            "DESIGN.md 4/C12"),
    "C18": ("exploration",
            "runtime monitoring: retention monitor - callbacks keep the library's own strings/slices without copying and re-compare them with the harness's record of what was sent after every later callback and at connection end; checkptr build",
            "Histories of 5-200 later messages around the 4 KiB granule and the limit, oversized skipped messages, COPY streams, unread tails, late execution of old portals, for L in {4096, 8192, 65536}. Held-on-observed.",
            "The harness's reference copies come from what it sent, never from callback arguments.",
            "DESIGN.md 4/C18"),
    "C19": ("exploration",
            "runtime monitoring: middleware/context/terminate monitors with transport write-offset positions; exhaustive (n, failing position, auth, hook, ending) grid x generated histories",
            "Every middleware records order, predecessor values and the server's write offset (must lie after AuthenticationOk and before the first ReadyForQuery); callbacks verify context contents and liveness; captured command contexts must be cancelled afterwards; failing middleware ends the connection unserved; terminate hook exactly once iff Terminate. Exhaustive grid, held-on-observed histories.",
            "Same-goroutine ordering makes write offsets exact.",
            "DESIGN.md 4/C19"),
    "C13": ("exploration",
            "runtime monitoring: COPY-in reference model vs per-step replies and the chunks/errors recorded by a scripted COPY handler (exhaustive short sequences + random)",
            "Exhaustive message sequences to length 3 x 7 terminators x 4 handler variants plus random longer ones, simple and Execute mode, lock-step; chunk bytes/order, Flush/Sync invisibility, CopyDone=EOF, abort=non-EOF error, exactly one E and one Z per aborted cycle, silence for stray COPY messages. Held-on-observed.",
            "Trusts transport/parser and the COPY model inside harness/checks/c13.go.",
            "DESIGN.md 4/C13"),
    "C14": ("exploration",
            "runtime monitoring: differential (independent binary COPY encoder) + metamorphic (every split of the same stream must give the same rows) oracle; crash oracle via child process",
            "Generated tables are encoded by the harness, cut into CopyData messages at every single position (small streams), per byte, at row boundaries with empty messages and at random cut sets; the library's row reader must return exactly the rows sent and io.EOF for every split; corruption classes and client aborts must surface as errors with only intact rows returned. Held-on-observed.",
            "Trusts the harness's binary encoder and value canonicalisation.",
            "DESIGN.md 4/C14"),
    "C15": ("exploration",
            "runtime monitoring: Go race detector over concurrent session groups + solo-vs-concurrent transcript/trace equality with yield injection; evidence counts distinct observed interleavings",
            "Groups of 2-24 generated sessions are served solo and then concurrently (3-5 schedules each) by the real server built with -race; per-connection bytes and callback traces must equal the solo run and the race log must contain no report with a library frame. Held-on-observed interleavings only.",
            "The race detector only sees executed accesses; yield injection widens but does not enumerate schedules.",
            "DESIGN.md 4/C15"),
    "C16": ("exploration",
            "runtime monitoring: forced schedules through build-tagged schedule points (exhaustive product grid) + randomized stress under the race detector; happens-before oracles built from harness channels/atomics; crash and deadlock classification",
            "Full product of connection state x number of Close callers x Close start mode x message kind on fresh servers, then stress rounds, plus directed life-cycle cases (hundreds of idle connections, accept loop ending on its own, client stalled in authentication, one slice over real loopback sockets through ListenAndServe); a running callback observing 'all Close calls returned', Close returning while a handler is held, a panic, Serve != nil, or a library goroutine blocked after all gates were released are violations. Held-on-observed schedules.",
            "Hooks are six no-op call sites behind the verif tag; settle periods affect detection power only.",
            "DESIGN.md 4/C16"),
    "C20": ("exploration",
            "runtime monitoring: independent scanner (differential) + crash oracle (child process) + allocation counter around each call + Describe count through the wire",
            "Exhaustive marker sequences to length 4, huge-index family and random SQL-like text; ParseParameters is called in an isolated child, compared with a hand-written scanner using big integers, with a TotalAlloc bound, and its length compared with the ParameterDescription the server announces. Held-on-observed.",
            "Trusts the 30-line scanner; mixed-style and >65535 cases judged for totality/boundedness only.",
            "DESIGN.md 4/C20"),
    "C07": ("exploration",
            "runtime monitoring: unique-id (unambiguous) histories replayed through a sequential namespace model per connection; concurrent same-name groups under the Go race detector with yield injection",
            "Exhaustive short histories plus random histories over a 3-name pool; the exec callback's statement id and parameter bytes and the portal Describe's column names identify the definition used, which must be the one the model resolves; concurrent groups are judged per connection and the race log must be empty. Held-on-observed.",
            "Trusts transport/parser/model; per-connection sequentiality (one serving goroutine) is an assumption of the oracle.",
            "DESIGN.md 4/C07"),
    "C08": ("exploration",
            "runtime monitoring: sent-vs-received parameter oracle inside the statement callback + independent value codecs for Scan and result formats",
            "Generated Binds (counts up to 65535, NULL/empty/NUL-containing/typed values, the three format-vector shapes) run against the real server; the statement function's view (count, order, bytes, nil-ness, Format, Scan) and the portal's announced/used result formats are compared with what the client sent. Held-on-observed.",
            "Trusts transport/parser and the harness's own value encoders/decoders.",
            "DESIGN.md 4/C08"),
    "C09": ("exploration",
            "runtime monitoring: differential oracle - every DataRow field decoded by an independent text/binary decoder and compared with the value the handler wrote",
            "Generated tables over 18 (20 in thorough) column types with boundary values and five NULL forms, fetched in text and binary; field count, format codes, NULL marker and decoded values compared. Held-on-observed.",
            "Trusts the harness's decoders (written from the PostgreSQL docs, tolerant of PostgreSQL's input syntax).",
            "DESIGN.md 4/C09"),
    "C17": ("exploration",
            "runtime monitoring: flattening reference model vs strictly parsed ErrorResponse fields (exhaustive decorator sequences + random); eight connections reporting at once under the Go race detector",
            "All decorator sequences to depth 4 (5 in thorough) x value variants, returned from parser and statement functions in simple and extended mode; every field compared; groups of eight connections report errors of one severity with their own codes at the same moment (race-detector build). Held-on-observed.",
            "Trusts the 40-line flattening model (hs.ErrSpec.Expect) and the strict parser.",
            "DESIGN.md 4/C17"),
    "C01": ("exploration",
            "runtime monitoring: transcript + callback-trace oracle on non-accepted connections (generated credentials, malformed password messages, pipelined/late continuations)",
            "Real server with ClearTextPassword/custom strategies over the instrumented transport; every non-accepting connection must show R(3) [E] + the server's own Close and no callback other than the validator; accepting ones must reach a working session. Held-on-observed.",
            "Trusts transport, independent parser; validator outcome scripted from the password.",
            "DESIGN.md 4/C01"),
    "C06": ("exploration",
            "runtime monitoring: NFA reference model of the extended protocol decided per message in lock-step (promptness = reply complete when the server blocks for input) + pipelined/lock-step metamorphic equality",
            "All message histories up to length 4 over a 13-symbol alphabet (exhaustive) plus random longer histories run against the real server; each reply and callback set must be explained by an admissible model state; the same history pipelined must give identical bytes and trace. Held-on-observed.",
            "Trusts transport, parser and the model in harness/checks/ext.go; open behaviours listed in the evidence assumptions are accepted in every reading.",
            "DESIGN.md 4/C06"),
    "C05": ("exploration",
            "runtime monitoring: reference-model oracle over transcripts + per-operation byte attribution (exhaustive small scripts + seeded random)",
            "Every Query cycle produced by exhaustively enumerated and random handler scripts is executed against the real server over the instrumented transport; a reference model of the cycle and of the result-writer state machine decides transcript, per-call emitted bytes, return classes and Written(). Held-on-observed, not a proof.",
            "Trusts the in-memory transport, the independent backend parser and the 60-line model; scripts bounded as stated in the evidence rule.",
            "DESIGN.md 4/C05"),
}

PENDING_REASON = "check not built yet in this round (planned, see DESIGN.md section 4); not claimed until its monitor runs silent on the tree"

def main():
    hooks = {
        "guard": "verif",
        "enable": "go build -tags verif (harness module /verif/harness with replace => /repo); run.sh does this on every invocation",
        "baseline_off_cmd": "/verif/baseline.sh",
        "source_commits": [],
        "add_only": True,
    }
    try:
        out = subprocess.run(["git", "-C", "/repo", "log", "--format=%h %s"], capture_output=True, text=True).stdout
        hooks["source_commits"] = [l.split()[0] for l in out.splitlines() if l.split(" ", 1)[1].startswith("verif:")]
    except Exception:
        pass
    checks = []
    for pid in ALL:
        if pid not in CHECKS:
            continue
        level, tech, text, note, ref = CHECKS[pid]
        checks.append({
            "property_id": pid,
            "quick_cmd": "./run.sh %s quick" % pid,
            "thorough_cmd": "./run.sh %s thorough" % pid,
            "evidence_file": "/verif/evidence/%s.json" % pid,
            "replay_cmd_template": "./run.sh replay {path}",
            "engine": "vcheck",
            "level_claimed": {"category": level, "text": text, "design_ref": ref},
            "level_note": note,
            "technique": tech,
        })
    na = [{"property_id": p, "reason": PENDING_REASON} for p in ALL if p not in CHECKS]
    m = {
        "version": 1,
        "setup_cmd": "./run.sh build",
        "hooks": hooks,
        "engines": [{"name": "vcheck", "path": "/verif/harness", "serves_properties": sorted(CHECKS),
                     "kind_free_text": "Go harness: real psql-wire server over an instrumented in-memory transport, scripted handlers, independent codec, reference-model oracles, child-process crash oracle, race-log and allocation-profile monitors"}],
        "checks": checks,
        "not_applicable": na,
        "notes": "All checks are runtime monitors over executions of the real library (see DESIGN.md). Exit 0 = held on everything explored, 1 = VIOLATION line, 2 = INCONCLUSIVE (never on the unchanged tree).",
    }
    json.dump(m, open("/verif/MANIFEST.json", "w"), indent=1)
    print("MANIFEST.json: %d checks, %d not_applicable" % (len(checks), len(na)))

if __name__ == "__main__":
    main()
