#!/bin/bash
# Runs the repository's own suite with the verif guard OFF (no -tags verif) and
# prints pass/fail counts; exit 0 iff no test failed and the count is 69.
export GOFLAGS=-mod=mod GOPROXY=off GOSUMDB=off GOTOOLCHAIN=local
cd /repo || exit 2
out=$(go test -json -vet=off -count=1 -timeout 25m ./... 2>&1)
pass=$(echo "$out" | grep -c '"Action":"pass","Package":"[^"]*","Test"')
fail=$(echo "$out" | grep -c '"Action":"fail","Package":"[^"]*","Test"')
echo "pass=$pass fail=$fail"
[ "$fail" = 0 ] && [ "$pass" -ge 69 ]
