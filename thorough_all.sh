#!/bin/bash
# Runs every property's thorough check in sequence and prints a one-line summary per property.
# Usage: [PROPS="C01 C07"] thorough_all.sh [seed]   (honours VERIF_REPO like run.sh)
BASE=$(cd "$(dirname "$0")" && pwd)
export VERIF_SEED=${1:-1}
mkdir -p "$BASE/.work"
for p in ${PROPS:-C01 C02 C03 C04 C05 C06 C07 C08 C09 C10 C11 C12 C13 C14 C15 C16 C17 C18 C19 C20}; do
  start=$(date +%s)
  "$BASE/run.sh" $p thorough > "$BASE/.work/thorough_$p.log" 2>&1
  rc=$?
  echo "$p exit=$rc $(( $(date +%s) - start ))s $(grep -E "^$p tier" "$BASE/.work/thorough_$p.log")"
  grep -E "^VIOLATION|^INCONCLUSIVE|^KNOWN" "$BASE/.work/thorough_$p.log" | head -5
done
