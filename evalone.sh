#!/bin/bash
# usage: evalone.sh wN Cxx... : for each property verifies the demonstration in /tmp/wN_Cxx (verify_demo.sh) and runs the property's own quick check against the change (seedtest.sh)
pfx=$1; shift
for p in "$@"; do
  echo "== $p"
  PFX=$pfx /verif/verify_demo.sh $p 2>&1 | tail -1 | cut -c1-400
  /verif/seedtest.sh /tmp/${pfx}_$p/_out/patch.diff $p 2>&1 | tail -2 | cut -c1-300
done
