#!/bin/bash
# usage: run.sh <property-id> <quick|thorough> | run.sh build | run.sh replay <file>
# Rebuilds the harness against /repo's current working tree (hooks on: -tags verif)
# and runs one property's check.
set -u
export GOFLAGS=-mod=mod GOPROXY=off GOSUMDB=off GOTOOLCHAIN=local
BASE=$(cd "$(dirname "$0")" && pwd)      # /verif, or a snapshot of it (vp run)
REPO=${VERIF_REPO:-/repo}                # tree under test (vp run --with-repo: VERIF_REPO=$VP_RUN_REPO)
export VERIF_DIR=$BASE
cd "$BASE/harness" || exit 2
mkdir -p "$BASE/.work/bin"
cp "$REPO/go.sum" ./go.sum 2>/dev/null
MODFLAG=""
if [ "$REPO" != /repo ]; then
  sed "s#=> /repo#=> $REPO#" go.mod > "$BASE/.work/go.alt.mod"
  cp "$REPO/go.sum" "$BASE/.work/go.alt.sum"
  MODFLAG="-modfile=$BASE/.work/go.alt.mod"
fi
RACE_PROPS=" C07 C12 C15 C16 C17 "
CHECKPTR_PROPS=" C03 C18 "
build() { # $1 = plain|race
  if [ "$1" = race ]; then
    go build $MODFLAG -race -tags verif -o "$BASE/.work/bin/vcheck-race" ./cmd/vcheck
  elif [ "$1" = checkptr ]; then
    go build $MODFLAG -gcflags=all=-d=checkptr -tags verif -o "$BASE/.work/bin/vcheck-checkptr" ./cmd/vcheck
  else
    go build $MODFLAG -tags verif -o "$BASE/.work/bin/vcheck" ./cmd/vcheck
  fi
}
case "${1:-}" in
  build)
    build plain || { echo "INCONCLUSIVE harness build failed"; exit 2; }
    build race || { echo "INCONCLUSIVE harness race build failed"; exit 2; }
    build checkptr || { echo "INCONCLUSIVE harness checkptr build failed"; exit 2; }
    exit 0 ;;
  replay)
    build plain || exit 2
    exec "$BASE"/.work/bin/vcheck -replay "$2" ;;
esac
PROP="$1"; TIER="${2:-${VERIF_TIER:-quick}}"
if [[ "$RACE_PROPS" == *" $PROP "* ]]; then
  build race || { echo "INCONCLUSIVE property=$PROP harness race build failed against /repo"; exit 2; }
  exec "$BASE"/.work/bin/vcheck-race -prop "$PROP" -tier "$TIER"
elif [[ "$CHECKPTR_PROPS" == *" $PROP "* ]]; then
  build checkptr || { echo "INCONCLUSIVE property=$PROP harness checkptr build failed against /repo"; exit 2; }
  exec "$BASE"/.work/bin/vcheck-checkptr -prop "$PROP" -tier "$TIER"
else
  build plain || { echo "INCONCLUSIVE property=$PROP harness build failed against /repo"; exit 2; }
  exec "$BASE"/.work/bin/vcheck -prop "$PROP" -tier "$TIER"
fi
