#!/bin/bash
# usage: run.sh <property-id> <quick|thorough> | run.sh build | run.sh replay <file>
# Rebuilds the harness against /repo's current working tree (hooks on: -tags verif)
# and runs one property's check.
set -u
export GOFLAGS=-mod=mod GOPROXY=off GOSUMDB=off GOTOOLCHAIN=local
cd /verif/harness || exit 2
mkdir -p /verif/.work/bin
cp /repo/go.sum ./go.sum 2>/dev/null
RACE_PROPS=" C07 C12 C15 C16 "
CHECKPTR_PROPS=" C03 C18 "
build() { # $1 = plain|race
  if [ "$1" = race ]; then
    go build -race -tags verif -o /verif/.work/bin/vcheck-race ./cmd/vcheck
  elif [ "$1" = checkptr ]; then
    go build -gcflags=all=-d=checkptr -tags verif -o /verif/.work/bin/vcheck-checkptr ./cmd/vcheck
  else
    go build -tags verif -o /verif/.work/bin/vcheck ./cmd/vcheck
  fi
}
case "${1:-}" in
  build)
    build plain || { echo "INCONCLUSIVE harness build failed"; exit 2; }
    build race || { echo "INCONCLUSIVE harness race build failed"; exit 2; }
    build checkptr || { echo "INCONCLUSIVE harness checkptr build failed"; exit 2; }
    exit 0 ;;
  replay)
    build plain || exit 2
    exec /verif/.work/bin/vcheck -replay "$2" ;;
esac
PROP="$1"; TIER="${2:-${VERIF_TIER:-quick}}"
if [[ "$RACE_PROPS" == *" $PROP "* ]]; then
  build race || { echo "INCONCLUSIVE property=$PROP harness race build failed against /repo"; exit 2; }
  exec /verif/.work/bin/vcheck-race -prop "$PROP" -tier "$TIER"
elif [[ "$CHECKPTR_PROPS" == *" $PROP "* ]]; then
  build checkptr || { echo "INCONCLUSIVE property=$PROP harness checkptr build failed against /repo"; exit 2; }
  exec /verif/.work/bin/vcheck-checkptr -prop "$PROP" -tier "$TIER"
else
  build plain || { echo "INCONCLUSIVE property=$PROP harness build failed against /repo"; exit 2; }
  exec /verif/.work/bin/vcheck -prop "$PROP" -tier "$TIER"
fi
