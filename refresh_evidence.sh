#!/bin/bash
# Re-runs every quick check on the current (unchanged) /repo tree so that the committed
# evidence files come from /verif run against /repo itself; validates them against the schema.
cd /verif || exit 2
[ -n "$(git -C /repo status --porcelain)" ] && { echo "/repo has uncommitted changes - refusing"; exit 2; }
rc=0
for p in C01 C02 C03 C04 C05 C06 C07 C08 C09 C10 C11 C12 C13 C14 C15 C16 C17 C18 C19 C20; do
  out=$(./run.sh $p ${1:-quick} 2>&1); r=$?
  echo "$p exit=$r $(echo "$out" | grep -E "^$p tier")"
  [ $r -ne 0 ] && { rc=1; echo "$out" | grep -E "^VIOLATION|^INCONCLUSIVE|rule:" | head -5; }
done
python3-vt - <<'PY' || rc=1
import json,jsonschema,glob,sys
es=json.load(open('/root/.vp/EVIDENCE.schema.json'))
bad=0
for f in sorted(glob.glob('/verif/evidence/*.json')):
    try: jsonschema.validate(json.load(open(f)), es)
    except Exception as e: bad+=1; print("INVALID", f, str(e)[:200])
jsonschema.validate(json.load(open('/verif/MANIFEST.json')), json.load(open('/root/.vp/MANIFEST.schema.json')))
print("evidence files valid" if not bad else "%d invalid evidence files"%bad)
sys.exit(1 if bad else 0)
PY
exit $rc
