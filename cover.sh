#!/bin/bash
# usage: cover.sh [tier]  - diagnostic, not a registered check: statement coverage of the library (github.com/jeroenrinzema/psql-wire/...)
# reached by the 20 checks of one tier. Builds a -cover flavour of the harness in a snapshot under /tmp (evidence and .work of
# /verif are not touched), runs every check once and prints the functions not fully covered plus the total.
export GOFLAGS=-mod=mod GOPROXY=off GOSUMDB=off GOTOOLCHAIN=local
TIER=${1:-quick}; S=/tmp/vcover.$$
rsync -a --exclude .work --exclude .git /verif/ $S/ || exit 2
trap 'rm -rf $S' EXIT
cd $S/harness && cp /repo/go.sum . && go build -cover -coverpkg=all -tags verif -o $S/vcheck-cover ./cmd/vcheck || exit 2
mkdir -p $S/cov
for i in $(seq -w 1 20); do GOCOVERDIR=$S/cov VERIF_DIR=$S $S/vcheck-cover -prop C$i -tier $TIER 2>&1 | grep "tier=" | cut -c1-90; done
P=github.com/jeroenrinzema/psql-wire
go tool covdata textfmt -i=$S/cov -pkg=$P,$P/pkg/buffer,$P/errors,$P/pkg/types,$P/codes -o $S/cov.txt
go tool cover -func=$S/cov.txt | awk '$3+0 < 100'
