// Package tr is the instrumented in-memory transport: a net.Listener whose
// connections keep a totally ordered event log of everything the serving
// goroutine does at the boundary (reads, writes, blocking for input, close,
// and user callbacks), with segmentation, fault and yield injection.
package tr

import (
	"errors"
	"fmt"
	"io"
	"net"
	"os"
	"runtime"
	"strings"
	"sync"
	"sync/atomic"
	"syscall"
	"time"
)

// Stamp is a process-wide logical clock (never wall-clock) used to order
// events of different connections.
var Stamp atomic.Uint64

type Event struct {
	Kind  string // "W" write, "R" read, "B" block-for-input, "X" close, "cb" callback
	N     int    // bytes (W/R); for B the inbound bytes consumed so far
	WOff  int    // number of bytes the server had written when the event happened
	Name  string // callback name
	Data  any    // callback payload
	Stamp uint64
}

var ErrInjected = errors.New("tr: injected transport failure")

// tempErr is a transient transport error: a net.Error that reports Timeout() and Temporary(), as an
// expired deadline or an interrupted system call does. The connection itself stays usable.
type tempErr struct{}

func (tempErr) Error() string   { return "tr: injected temporary transport error (i/o timeout)" }
func (tempErr) Timeout() bool   { return true }
func (tempErr) Temporary() bool { return true }
func (tempErr) Unwrap() error   { return os.ErrDeadlineExceeded }

// ErrTemporary is what the transient faults below return.
var ErrTemporary net.Error = tempErr{}

type Addr struct{ C *Conn }

func (a *Addr) Network() string {
	if UnixNet.Load() {
		return "unix" // the connection claims to be one of a unix-domain socket listener
	}
	return "mem"
}

// UnixNet makes the addresses of all connections report the network "unix".
var UnixNet atomic.Bool

func (a *Addr) String() string {
	if AnonAddrs.Load() {
		return "@" // what every peer of a unix-domain socket reports: addresses do not tell connections apart
	}
	return fmt.Sprintf("mem:%d", a.C.ID)
}

// AnonAddrs makes every connection report the same remote address string.
var AnonAddrs atomic.Bool

var connID atomic.Uint64

// Conn is the server side of one in-memory duplex. The harness (client side)
// drives it through Send/CloseWrite/Quiesce/Out.
type Conn struct {
	ID   uint64
	User any // case context for callbacks (looked up through RemoteAddr)

	mu      sync.Mutex
	cond    *sync.Cond
	in      [][]byte
	inEOF   bool
	inErr   error
	out     []byte
	sent    []byte // raw bytes the client pushed (wire tap, client->server)
	blocked bool
	closed  bool
	events  []Event
	NoLog   bool // do not keep R/W events (bulk runs)

	reads, writes int
	consumed      int
	closeCalls    int
	afterEnd      int // transport calls issued after EOF/error was delivered (spin detector)
	ended         bool

	// fault plan (0 = off); once a fault fired every later op fails too.
	FailReadAt  int // k-th Read call fails
	FailWriteAt int // k-th Write call fails
	FailByteAt  int // reads fail once this many inbound bytes were delivered (-1 off)
	ShortWrite  bool
	EOFInstead  bool // read faults deliver io.EOF instead of an error
	failed      bool

	// transient faults (the connection stays usable afterwards):
	TempReadAt    int // the k-th Read call returns (0, ErrTemporary) once
	TempReadFrom  int // every Read call from the k-th on returns (0, ErrTemporary): a deadline that has passed for good
	eofWithData   bool
	srvHalf       bool
	TempWriteAt   int // the k-th Write call takes half of its bytes and returns (n, ErrTemporary) once
	TempWriteMore int // ... and so do the next TempWriteMore Write calls (a peer that stays slow)
	tempFired     int

	// SyncWrites: the transport has no buffer of its own (net.Pipe, a flow-controlled tunnel) and the
	// client writes a message completely before it reads: a server Write does not return while client
	// input is still unread. A server that answers a message before it has consumed it then waits for a
	// client that waits for the server (Deadlocked).
	SyncWrites bool
	syncWait   bool
	srvG       string // goroutine that reads the server side
	wdlFired   bool   // a pending write deadline has passed (virtual time: a client pause)
	// SlowWrite: every server Write takes this long before the bytes are taken (a client that reads
	// slowly): what is handed to Write must stay untouched until Write returns
	SlowWrite time.Duration

	CloseErr error // returned by the server-side Close (the connection is closed all the same)
	rdl, wdl time.Time
	Yield    func() // called (outside the lock) at every Read/Write for schedule diversity
	// OnWrite is called (outside the lock, before the bytes are taken) with the 1-based number of the server
	// Write call and its size: something the embedding program does while that write is under way
	OnWrite  func(k, n int)
	onWriteK int
	// idleExp counts read deadlines that have passed while the server was waiting for input the client had not
	// sent (reset by every byte delivered or written); virtFire asks the waiting Read to let its short deadline
	// pass now (virtual time: the client, waiting for the server to come to rest, sends nothing before it does)
	idleExp  int
	virtFire bool
	addr     *Addr
}

func NewConn(user any) *Conn {
	c := &Conn{ID: connID.Add(1), User: user, FailByteAt: -1}
	c.cond = sync.NewCond(&c.mu)
	c.addr = &Addr{C: c}
	return c
}

func (c *Conn) log(e Event) {
	e.WOff = len(c.out)
	e.Stamp = Stamp.Add(1)
	c.events = append(c.events, e)
}

// CB records a user-callback event on the connection's log.
func (c *Conn) CB(name string, data any) {
	c.mu.Lock()
	c.log(Event{Kind: "cb", Name: name, Data: data})
	c.mu.Unlock()
}

// WOff returns the number of bytes written by the server so far.
func (c *Conn) WOff() int {
	c.mu.Lock()
	defer c.mu.Unlock()
	return len(c.out)
}

// goid returns the number of the calling goroutine (from its stack header).
func goid() string {
	var b [40]byte
	h := string(b[:runtime.Stack(b[:], false)])
	h = strings.TrimPrefix(h, "goroutine ")
	if i := strings.IndexByte(h, ' '); i > 0 {
		return h[:i]
	}
	return ""
}

// Abandoned reports, given a dump of all goroutine stacks, that the goroutine which last read from the
// server side of the connection no longer exists although the connection was never closed: whoever
// served it has returned without closing it.
func (c *Conn) Abandoned(dump string) bool {
	c.mu.Lock()
	defer c.mu.Unlock()
	return !c.closed && c.srvG != "" && !strings.Contains(dump, "goroutine "+c.srvG+" [")
}

func (c *Conn) Read(p []byte) (int, error) {
	if c.Yield != nil {
		c.Yield()
	}
	c.mu.Lock()
	defer c.mu.Unlock()
	if c.reads&15 == 0 {
		c.srvG = goid() // (the serving goroutine may change at a TLS upgrade or a hand-over: refreshed now and then)
	}
	c.reads++
	if c.ended {
		c.afterEnd++
	}
	if c.closed {
		return 0, net.ErrClosed
	}
	if (c.TempReadAt > 0 && c.reads == c.TempReadAt) || (c.TempReadFrom > 0 && c.reads >= c.TempReadFrom) {
		c.tempFired++
		if c.tempFired > 2000 {
			// a server that answers every temporary error with another Read would spin for ever:
			// the run is over (TempFired tells the check), let the goroutine go
			c.failed = true
			c.ended = true
			c.cond.Broadcast()
			return 0, ErrInjected
		}
		return 0, ErrTemporary
	}
	if c.failed || (c.FailReadAt > 0 && c.reads >= c.FailReadAt) || (c.FailByteAt >= 0 && c.consumed >= c.FailByteAt) {
		c.failed = true
		c.ended = true
		if c.EOFInstead {
			return 0, io.EOF
		}
		return 0, ErrInjected
	}
again:
	for len(c.in) == 0 {
		if c.inErr != nil {
			c.ended = true
			return 0, c.inErr
		}
		if c.inEOF {
			c.ended = true
			return 0, io.EOF
		}
		if c.closed {
			return 0, net.ErrClosed
		}
		if expired(c.rdl) || (c.virtFire && !c.rdl.IsZero()) {
			c.blocked = false
			c.virtFire = false
			c.idleExp++
			c.log(Event{Kind: "T", N: c.consumed})
			return 0, os.ErrDeadlineExceeded
		}
		c.virtFire = false
		if !c.blocked {
			c.blocked = true
			c.log(Event{Kind: "B", N: c.consumed})
			c.cond.Broadcast()
		}
		c.cond.Wait()
	}
	c.blocked = false
	seg := c.in[0]
	if len(seg) == 1 && &seg[0] == &tempMark[0] {
		// transient-error marker (see SendCutTemp): this Read fails with a temporary error, the bytes
		// behind the marker are delivered by the Reads that follow
		c.in = c.in[1:]
		c.tempFired++
		c.log(Event{Kind: "T", N: c.consumed})
		return 0, ErrTemporary
	}
	if len(seg) == 0 {
		// pause marker: the client stays silent for longer than any deadline the server may have set.
		// With a read deadline pending that deadline fires (virtual time, no waiting); without one a
		// pause cannot be observed.
		c.in = c.in[1:]
		if !c.wdl.IsZero() {
			c.wdlFired = true // a write deadline left pending has passed as well by the end of the pause
		}
		if !c.rdl.IsZero() {
			c.log(Event{Kind: "T", N: c.consumed})
			return 0, os.ErrDeadlineExceeded
		}
		goto again
	}
	c.idleExp = 0
	n := copy(p, seg)
	if c.FailByteAt >= 0 && c.consumed+n > c.FailByteAt {
		n = c.FailByteAt - c.consumed
	}
	if n == len(seg) {
		c.in = c.in[1:]
	} else {
		c.in[0] = seg[n:]
	}
	c.consumed += n
	if !c.NoLog {
		c.log(Event{Kind: "R", N: n})
	}
	if c.eofWithData && c.inEOF && len(c.in) == 0 {
		// the end of the stream is reported together with its last bytes (as io.Reader allows, and as
		// crypto/tls does for application data directly followed by close_notify)
		c.ended = true
		return n, io.EOF
	}
	return n, nil
}

// SendCutEOF is SendCut followed by CloseWrite in one step: the Read that takes the last queued byte
// reports io.EOF together with it.
func (c *Conn) SendCutEOF(b []byte, cuts []int) {
	c.mu.Lock()
	prev := 0
	for _, k := range append(append([]int(nil), cuts...), len(b)) {
		if k <= prev || k > len(b) {
			continue
		}
		cp := append([]byte(nil), b[prev:k]...)
		c.in = append(c.in, cp)
		c.sent = append(c.sent, cp...)
		prev = k
	}
	c.inEOF, c.eofWithData = true, true
	c.cond.Broadcast()
	c.mu.Unlock()
}

func (c *Conn) Write(p []byte) (int, error) {
	if c.Yield != nil {
		c.Yield()
	}
	if c.SlowWrite > 0 {
		time.Sleep(c.SlowWrite)
	}
	if c.OnWrite != nil {
		c.onWriteK++
		c.OnWrite(c.onWriteK, len(p))
	}
	c.mu.Lock()
	defer c.mu.Unlock()
	c.writes++
	if c.ended {
		c.afterEnd++
	}
	if c.closed {
		return 0, net.ErrClosed
	}
	if expired(c.wdl) || c.wdlFired {
		return 0, os.ErrDeadlineExceeded
	}
	for c.SyncWrites && len(c.in) > 0 && !c.closed && !c.failed {
		if !c.syncWait {
			c.syncWait = true
			c.cond.Broadcast()
		}
		c.cond.Wait()
	}
	c.syncWait = false
	if c.closed {
		return 0, net.ErrClosed
	}
	if c.srvHalf {
		return 0, syscall.EPIPE
	}
	if c.TempWriteAt > 0 && c.writes >= c.TempWriteAt && c.writes <= c.TempWriteAt+c.TempWriteMore && len(p) > 1 {
		n := len(p) / 2
		c.out = append(c.out, p[:n]...)
		c.tempFired++
		c.cond.Broadcast()
		return n, ErrTemporary
	}
	if c.failed || (c.FailWriteAt > 0 && c.writes >= c.FailWriteAt) {
		n := 0
		if !c.failed && c.ShortWrite && len(p) > 1 {
			n = len(p) / 2
			c.out = append(c.out, p[:n]...)
		}
		c.failed = true
		c.ended = true
		c.cond.Broadcast()
		return n, ErrInjected
	}
	c.out = append(c.out, p...)
	c.idleExp = 0
	if !c.NoLog {
		c.log(Event{Kind: "W", N: len(p)})
	}
	c.cond.Broadcast()
	return len(p), nil
}

func (c *Conn) Close() error {
	c.mu.Lock()
	defer c.mu.Unlock()
	c.closeCalls++
	if !c.closed {
		c.closed = true
		c.log(Event{Kind: "X"})
	}
	c.cond.Broadcast()
	return c.CloseErr
}

func (c *Conn) LocalAddr() net.Addr { return &Addr{C: c} }
func (c *Conn) RemoteAddr() net.Addr {
	if LoopbackAddrs.Load() {
		// what a connection accepted from a local TCP peer reports (the port stands for the connection)
		loopback.Store(int(c.ID), c)
		return &net.TCPAddr{IP: net.IPv4(127, 0, 0, 1), Port: int(c.ID)}
	}
	return c.addr
}

// LoopbackAddrs makes connections report a *net.TCPAddr on the loopback interface as their remote address
// (FromAddr still finds the connection).
var LoopbackAddrs atomic.Bool
var loopback sync.Map

// Deadlines behave like those of a TCP connection (the pinned tree sets none; a tree that uses
// them - idle timeouts, interrupting blocked reads on shutdown - must not look wedged here).
func (c *Conn) SetDeadline(t time.Time) error {
	c.SetReadDeadline(t)
	return c.SetWriteDeadline(t)
}

func (c *Conn) SetReadDeadline(t time.Time) error {
	c.mu.Lock()
	c.rdl = t
	c.cond.Broadcast()
	c.mu.Unlock()
	if d := time.Until(t); !t.IsZero() && d > 0 {
		time.AfterFunc(d+time.Millisecond, func() { c.mu.Lock(); c.cond.Broadcast(); c.mu.Unlock() })
	}
	return nil
}

func (c *Conn) SetWriteDeadline(t time.Time) error {
	c.mu.Lock()
	c.wdl = t
	c.wdlFired = false
	c.mu.Unlock()
	return nil
}

func expired(t time.Time) bool { return !t.IsZero() && !time.Now().Before(t) }

// ---- client side -----------------------------------------------------------

// Send queues b as one segment (one server Read returns at most one segment).
func (c *Conn) Send(b []byte) {
	if len(b) == 0 {
		return
	}
	cp := append([]byte(nil), b...)
	c.mu.Lock()
	c.in = append(c.in, cp)
	c.sent = append(c.sent, cp...)
	c.cond.Broadcast()
	c.mu.Unlock()
}

// SendCut queues b cut at the given ascending offsets.
func (c *Conn) SendCut(b []byte, cuts []int) {
	prev := 0
	for _, k := range cuts {
		if k <= prev || k >= len(b) {
			continue
		}
		c.Send(b[prev:k])
		prev = k
	}
	c.Send(b[prev:])
}

// SendCutPaused is SendCut with a pause (longer than any read deadline) between the segments.
func (c *Conn) SendCutPaused(b []byte, cuts []int) {
	prev := 0
	push := func(x []byte) {
		if len(x) == 0 {
			return
		}
		c.Send(x)
		c.mu.Lock()
		c.in = append(c.in, []byte{})
		c.cond.Broadcast()
		c.mu.Unlock()
	}
	for _, k := range cuts {
		if k <= prev || k >= len(b) {
			continue
		}
		push(b[prev:k])
		prev = k
	}
	c.Send(b[prev:])
}

var tempMark = []byte{0xee}

// SendCutTemp queues b cut at the given offsets with a transient-error marker at every cut: the Read
// that reaches a cut returns (0, ErrTemporary) once, the following Reads deliver the rest. A server
// may end the connection there or resume; what it must not do is lose its place in the stream.
func (c *Conn) SendCutTemp(b []byte, cuts []int) {
	prev := 0
	for _, k := range cuts {
		if k <= prev || k >= len(b) {
			continue
		}
		c.Send(b[prev:k])
		c.mu.Lock()
		c.in = append(c.in, tempMark)
		c.cond.Broadcast()
		c.mu.Unlock()
		prev = k
	}
	c.Send(b[prev:])
}

// Pause queues a pause marker on its own (see SendCutPaused): the client stays silent for longer than
// any read deadline the server has pending.
func (c *Conn) Pause() {
	c.mu.Lock()
	c.in = append(c.in, []byte{})
	c.cond.Broadcast()
	c.mu.Unlock()
}

// SendEach queues b one byte per segment.
func (c *Conn) SendEach(b []byte) {
	cp := append([]byte(nil), b...)
	c.mu.Lock()
	for i := range cp {
		c.in = append(c.in, cp[i:i+1])
	}
	c.sent = append(c.sent, cp...)
	c.cond.Broadcast()
	c.mu.Unlock()
}

// CloseWrite half-closes: once the queued input is consumed the server reads EOF.
func (c *Conn) CloseWrite() {
	c.mu.Lock()
	c.inEOF = true
	c.cond.Broadcast()
	c.mu.Unlock()
}

// Abort makes server reads fail with err once queued input is consumed.
func (c *Conn) Abort(err error) {
	c.mu.Lock()
	c.inErr = err
	c.cond.Broadcast()
	c.mu.Unlock()
}

// WatchdogTimeout is the generous wall-clock limit for a single wait. Its
// firing is never by itself a verdict (callers classify it as inconclusive or
// inspect goroutine stacks).
var WatchdogTimeout = 40 * time.Second

// Quiesce waits until the serving goroutine has consumed all input and is
// blocked waiting for more, or has closed the connection. This is a logical
// event, not a timeout. ok=false means the watchdog fired.
func (c *Conn) Quiesce() (closed bool, ok bool) {
	return c.waitFor(func() bool {
		// once the client has half-closed (or aborted) the server cannot block for
		// input any more: the only quiescent state left is "closed"
		if c.closed || c.failed || c.syncWait {
			return true
		}
		if !(c.blocked && len(c.in) == 0 && !c.inEOF && c.inErr == nil) {
			return false
		}
		if c.rdl.IsZero() || time.Until(c.rdl) > 2*time.Second {
			return true
		}
		// the server waits with a short read deadline pending: it is about to do something. Once such a deadline
		// has passed without the server sending anything (it came back to wait with another one: an idle poll),
		// it is at rest; until then the deadline passes now rather than in a moment (virtual time)
		if c.idleExp >= 1 {
			return true
		}
		if !c.virtFire {
			c.virtFire = true
			c.cond.Broadcast()
		}
		return false
	})
}

// WaitClosed waits for the server-side Close.
func (c *Conn) WaitClosed() (ok bool) {
	_, ok = c.waitFor(func() bool { return c.closed })
	return ok
}

// WaitOut waits until at least n bytes were written or the connection closed.
func (c *Conn) WaitOut(n int) (closed, ok bool) {
	return c.waitFor(func() bool { return c.closed || len(c.out) >= n })
}

func (c *Conn) waitFor(pred func() bool) (closed bool, ok bool) {
	c.mu.Lock()
	defer c.mu.Unlock()
	if pred() {
		return c.closed, true
	}
	fired := false
	t := time.AfterFunc(WatchdogTimeout, func() {
		c.mu.Lock()
		fired = true
		c.cond.Broadcast()
		c.mu.Unlock()
	})
	defer t.Stop()
	for !pred() {
		if fired {
			return c.closed, false
		}
		c.cond.Wait()
	}
	return c.closed, true
}

// Out returns a copy of everything the server wrote so far.
func (c *Conn) Out() []byte {
	c.mu.Lock()
	defer c.mu.Unlock()
	return append([]byte(nil), c.out...)
}

// OutFrom returns a copy of the server output starting at offset pos.
func (c *Conn) OutFrom(pos int) []byte {
	c.mu.Lock()
	defer c.mu.Unlock()
	if pos > len(c.out) {
		pos = len(c.out)
	}
	return append([]byte(nil), c.out[pos:]...)
}

func (c *Conn) OutLen() int {
	c.mu.Lock()
	defer c.mu.Unlock()
	return len(c.out)
}

// Sent returns the raw bytes pushed by the client.
func (c *Conn) Sent() []byte {
	c.mu.Lock()
	defer c.mu.Unlock()
	return append([]byte(nil), c.sent...)
}

// NEvents / EventsFrom: the number of events logged so far, and a copy of those from index n on (long
// lock-step histories look at what each step added, not at the whole log).
func (c *Conn) NEvents() int {
	c.mu.Lock()
	defer c.mu.Unlock()
	return len(c.events)
}

func (c *Conn) EventsFrom(n int) []Event {
	c.mu.Lock()
	defer c.mu.Unlock()
	if n > len(c.events) {
		n = len(c.events)
	}
	return append([]Event(nil), c.events[n:]...)
}

func (c *Conn) Events() []Event {
	c.mu.Lock()
	defer c.mu.Unlock()
	return append([]Event(nil), c.events...)
}

type Stats struct {
	Reads, Writes, Consumed, CloseCalls, AfterEnd int
	Closed, Failed, Blocked                       bool
	Pending                                       int
}

// FailWritesFromNow makes every server Write from the next one on fail (the client is gone).
func (c *Conn) FailWritesFromNow() {
	c.mu.Lock()
	c.FailWriteAt = c.writes + 1
	c.mu.Unlock()
}

// InterruptWrites arms the temporary write fault on a live connection: the at-th Write call from now
// on, and the more calls after it, take half of their bytes and report a timeout.
func (c *Conn) InterruptWrites(at, more int) {
	c.mu.Lock()
	defer c.mu.Unlock()
	c.TempWriteAt, c.TempWriteMore = c.writes+at, more
}

func (c *Conn) Stats() Stats {
	c.mu.Lock()
	defer c.mu.Unlock()
	p := 0
	for _, s := range c.in {
		p += len(s)
	}
	return Stats{c.reads, c.writes, c.consumed, c.closeCalls, c.afterEnd, c.closed, c.failed, c.blocked, p}
}

// ---- client net.Conn view (for crypto/tls clients) -------------------------

// ClientConn is the client's net.Conn over the same duplex.
type ClientConn struct {
	Hold     bool // Write keeps the bytes back until FlushHeld
	held     []byte
	C        *Conn
	Pos      int  // offset in the server output already consumed
	NonBlock bool // return a temporary timeout error instead of blocking when no data is available
}

type wouldBlock struct{}

func (wouldBlock) Error() string   { return "tr: no data available (non-blocking read)" }
func (wouldBlock) Timeout() bool   { return true }
func (wouldBlock) Temporary() bool { return true }

// ErrWouldBlock is returned by non-blocking client reads.
var ErrWouldBlock net.Error = wouldBlock{}

func (cc *ClientConn) Read(p []byte) (int, error) {
	c := cc.C
	c.mu.Lock()
	defer c.mu.Unlock()
	for cc.Pos >= len(c.out) {
		if c.closed || c.failed {
			return 0, io.EOF
		}
		if cc.NonBlock {
			return 0, ErrWouldBlock
		}
		c.cond.Wait()
	}
	n := copy(p, c.out[cc.Pos:])
	cc.Pos += n
	return n, nil
}
func (cc *ClientConn) Write(p []byte) (int, error) {
	cc.C.mu.Lock()
	closed := cc.C.closed
	cc.C.mu.Unlock()
	if closed {
		return 0, net.ErrClosed
	}
	if cc.Hold {
		cc.held = append(cc.held, p...)
		return len(p), nil
	}
	cc.C.Send(p)
	return len(p), nil
}
func (cc *ClientConn) Close() error { cc.C.CloseWrite(); return nil }

// FlushHeld sends what Write has held back (Hold) as one segment; with eof the end of the stream comes
// with it.
func (cc *ClientConn) FlushHeld(eof bool) {
	b := cc.held
	cc.held = nil
	if eof {
		cc.C.SendCutEOF(b, nil)
	} else {
		cc.C.Send(b)
	}
}
func (cc *ClientConn) LocalAddr() net.Addr                { return cc.C.addr }
func (cc *ClientConn) RemoteAddr() net.Addr               { return cc.C.addr }
func (cc *ClientConn) SetDeadline(t time.Time) error      { return nil }
func (cc *ClientConn) SetReadDeadline(t time.Time) error  { return nil }
func (cc *ClientConn) SetWriteDeadline(t time.Time) error { return nil }

// ---- listener ---------------------------------------------------------------

type Listener struct {
	ch       chan *Conn
	done     chan struct{}
	once     sync.Once
	ready    chan struct{} // closed when Accept is entered for the first time
	readyOne sync.Once
	Closes   atomic.Int32
	accepted atomic.Int64
	fail     chan error
}

func NewListener() *Listener {
	return &Listener{ch: make(chan *Conn, 1024), done: make(chan struct{}), ready: make(chan struct{}), fail: make(chan error, 4)}
}

// Ready is closed once the server has entered its accept loop.
func (l *Listener) Ready() <-chan struct{} { return l.ready }

func (l *Listener) Accept() (net.Conn, error) {
	l.readyOne.Do(func() { close(l.ready) })
	select {
	case <-l.done:
		return nil, net.ErrClosed
	default:
	}
	select {
	case c := <-l.ch:
		l.accepted.Add(1)
		return &SrvConn{c}, nil
	case err := <-l.fail:
		return nil, err
	case <-l.done:
		return nil, net.ErrClosed
	}
}

// Deadlocked reports that the server is inside a Write that cannot return because client input is
// unread (see SyncWrites). Unstick releases it (the client gives up waiting and starts reading).
func (c *Conn) Deadlocked() bool {
	c.mu.Lock()
	defer c.mu.Unlock()
	return c.syncWait
}

func (c *Conn) Unstick() {
	c.mu.Lock()
	c.SyncWrites = false
	c.cond.Broadcast()
	c.mu.Unlock()
}

// TempFired returns how many transient faults were delivered on the connection.
func (c *Conn) TempFired() int {
	c.mu.Lock()
	defer c.mu.Unlock()
	return c.tempFired
}

// Accepted returns how many connections Accept has handed out so far.
func (l *Listener) Accepted() int64 { return l.accepted.Load() }

// FailAccept makes the pending (or next) Accept call return err, as a listener does whose socket
// fails (EMFILE, ...) - the listener itself stays open.
func (l *Listener) FailAccept(err error) { l.fail <- err }

func (l *Listener) Close() error {
	l.Closes.Add(1)
	l.once.Do(func() { close(l.done) })
	return nil
}

func (l *Listener) Addr() net.Addr { return &net.TCPAddr{IP: net.IPv4(127, 0, 0, 1), Port: 0} }

// Dial creates a connection and hands its server side to Accept.
func (l *Listener) Dial(user any) *Conn {
	c := NewConn(user)
	l.ch <- c
	return c
}

// DialConn hands an already configured connection (fault plan set) to Accept.
func (l *Listener) DialConn(c *Conn) { l.ch <- c }

// SrvConn is what Accept hands to the server: the connection with the half-close a TCP connection offers
// (CloseWrite() error). After it the server's writes fail and the client reads the end of the stream, while
// the server may go on reading - the connection is not closed by it.
type SrvConn struct{ *Conn }

func (s *SrvConn) CloseWrite() error {
	s.mu.Lock()
	defer s.mu.Unlock()
	if s.closed {
		return net.ErrClosed
	}
	s.srvHalf = true
	s.cond.Broadcast()
	return nil
}

// SrvHalfClosed reports that the server shut down its write side without closing the connection.
func (c *Conn) SrvHalfClosed() bool {
	c.mu.Lock()
	defer c.mu.Unlock()
	return c.srvHalf && !c.closed
}

// FromAddr recovers the connection from the address the library exposes to callbacks.
func FromAddr(a net.Addr) *Conn {
	if ad, ok := a.(*Addr); ok {
		return ad.C
	}
	if ta, ok := a.(*net.TCPAddr); ok && ta.IP.IsLoopback() {
		if c, ok := loopback.Load(ta.Port); ok {
			return c.(*Conn)
		}
	}
	return nil
}

// YieldFn returns a schedule-perturbing function driven by a private PRNG state.
func YieldFn(seed uint64) func() {
	var s atomic.Uint64
	s.Store(seed*2862933555777941757 + 3037000493)
	return func() {
		x := s.Add(0x9E3779B97F4A7C15)
		x ^= x >> 31
		switch x % 8 {
		case 0, 1:
			runtime.Gosched()
		case 2:
			runtime.Gosched()
			runtime.Gosched()
		case 3:
			time.Sleep(time.Microsecond)
		}
	}
}
