module verifharness

go 1.23.0

require (
	github.com/jackc/pgx/v5 v5.4.3
	github.com/jeroenrinzema/psql-wire v0.0.0
	github.com/lib/pq v1.10.9
)

require (
	github.com/jackc/pgpassfile v1.0.0 // indirect
	github.com/jackc/pgservicefile v0.0.0-20221227161230-091c0ba34f0a // indirect
	golang.org/x/crypto v0.26.0 // indirect
	golang.org/x/sync v0.8.0 // indirect
	golang.org/x/text v0.17.0 // indirect
)

replace github.com/jeroenrinzema/psql-wire => /repo
