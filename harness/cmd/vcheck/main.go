package main

import (
	_ "verifharness/checks"
	"verifharness/core"
)

func main() { core.Main() }
