package hs

import (
	"crypto/ecdsa"
	"crypto/elliptic"
	"crypto/rand"
	"crypto/tls"
	"crypto/x509"
	"crypto/x509/pkix"
	"math/big"
	"sync"
	"time"
)

var (
	certOnce sync.Once
	cert     tls.Certificate
)

// ServerCert returns a process-wide self-signed P-256 certificate generated in-process (offline).
func ServerCert() tls.Certificate {
	certOnce.Do(func() {
		key, err := ecdsa.GenerateKey(elliptic.P256(), rand.Reader)
		if err != nil {
			panic(err)
		}
		tmpl := &x509.Certificate{
			SerialNumber: big.NewInt(1),
			Subject:      pkix.Name{CommonName: "verif.local"},
			NotBefore:    time.Date(2000, 1, 1, 0, 0, 0, 0, time.UTC),
			NotAfter:     time.Date(2099, 1, 1, 0, 0, 0, 0, time.UTC),
			KeyUsage:     x509.KeyUsageDigitalSignature,
			ExtKeyUsage:  []x509.ExtKeyUsage{x509.ExtKeyUsageServerAuth},
			DNSNames:     []string{"verif.local"},
		}
		der, err := x509.CreateCertificate(rand.Reader, tmpl, tmpl, &key.PublicKey, key)
		if err != nil {
			panic(err)
		}
		cert = tls.Certificate{Certificate: [][]byte{der}, PrivateKey: key}
	})
	return cert
}

func ServerTLS() *tls.Config { return &tls.Config{Certificates: []tls.Certificate{ServerCert()}} }
func ClientTLS() *tls.Config { return &tls.Config{InsecureSkipVerify: true, ServerName: "verif.local"} }

// ClientCert returns a fresh self-signed client certificate for the given common name: a certificate
// that no server could verify against any authority.
func ClientCert(cn string) tls.Certificate {
	key, err := ecdsa.GenerateKey(elliptic.P256(), rand.Reader)
	if err != nil {
		panic(err)
	}
	tmpl := &x509.Certificate{
		SerialNumber: big.NewInt(2),
		Subject:      pkix.Name{CommonName: cn},
		NotBefore:    time.Date(2000, 1, 1, 0, 0, 0, 0, time.UTC),
		NotAfter:     time.Date(2099, 1, 1, 0, 0, 0, 0, time.UTC),
		KeyUsage:     x509.KeyUsageDigitalSignature,
		ExtKeyUsage:  []x509.ExtKeyUsage{x509.ExtKeyUsageClientAuth},
	}
	der, err := x509.CreateCertificate(rand.Reader, tmpl, tmpl, &key.PublicKey, key)
	if err != nil {
		panic(err)
	}
	return tls.Certificate{Certificate: [][]byte{der}, PrivateKey: key}
}
