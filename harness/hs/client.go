package hs

import (
	"fmt"

	"verifharness/core"

	"verifharness/pg"
	"verifharness/tr"
)

// Client is a lock-step protocol client over the in-memory transport. It never
// sleeps: "the server has said everything it is going to say about what was
// sent so far" is the transport's quiescence event.
type Client struct {
	C    *tr.Conn
	pos  int // output offset already returned by Step
	Hung bool
}

func NewClient(c *tr.Conn) *Client { return &Client{C: c} }

// Step sends b and waits for quiescence; returns the new server bytes.
func (cl *Client) Step(b []byte) (out []byte, closed bool) {
	cl.C.Send(b)
	return cl.Wait()
}

// Wait waits for quiescence and returns the new server bytes.
func (cl *Client) Wait() (out []byte, closed bool) {
	closed, ok := cl.C.Quiesce()
	// the watchdog is a wall-clock limit: on a machine with many times more runnable threads than cores a
	// step can take longer than it allows. As long as no library goroutine is blocked or spinning and the
	// connection still has a goroutine serving it, the wait goes on (up to six more watchdog periods)
	for extra := 0; extra < 6 && !ok; extra++ {
		dump, lib := core.ClassifyHang()
		if len(lib) > 0 || cl.C.Abandoned(dump) {
			break
		}
		closed, ok = cl.C.Quiesce()
	}
	if !ok {
		cl.Hung = true
	}
	out = cl.C.OutFrom(cl.pos)
	cl.pos += len(out)
	return out, closed
}

// Startup performs a plain startup for the given user and returns the parsed reply.
func (cl *Client) Startup(user string, extra ...[2]string) ([]pg.BMsg, error) {
	params := [][2]string{{"user", user}}
	params = append(params, extra...)
	out, _ := cl.Step(pg.Startup(params))
	if cl.Hung {
		return nil, fmt.Errorf("%sthe start-up was not answered within the wall-clock watchdog", HungPrefix)
	}
	msgs, rest, err := pg.ParseStream(out)
	if err != nil {
		return msgs, err
	}
	if rest != 0 {
		return msgs, fmt.Errorf("startup reply ends in a partial message (%d bytes)", rest)
	}
	return msgs, nil
}

// StartupOK performs a startup and checks the reply ends with ReadyForQuery.
func (cl *Client) StartupOK(user string) error {
	msgs, err := cl.Startup(user)
	if err != nil {
		return err
	}
	if len(msgs) == 0 || msgs[len(msgs)-1].T != 'Z' {
		return fmt.Errorf("startup did not reach ReadyForQuery: %s", pg.Kinds(msgs))
	}
	return nil
}

// Finish half-closes the client side and waits for the server to close.
func (cl *Client) Finish() (out []byte, ok bool) {
	cl.C.CloseWrite()
	ok = cl.C.WaitClosed()
	out = cl.C.OutFrom(cl.pos)
	cl.pos += len(out)
	return out, ok
}

// HungPrefix marks an error that is a watchdog firing, not an answer of the server (core.Ctx.Violate turns a
// violation whose detail starts with it into an inconclusive note: a watchdog alone is never a verdict).
const HungPrefix = core.HungPrefix
