// Package hs holds the scripted server side of the harness: server
// environments over the in-memory transport and handler programs whose
// behaviour is a pure function of the query text registered for a connection.
package hs

import (
	"context"
	"database/sql"
	"errors"
	"fmt"
	"github.com/jackc/pgx/v5/pgconn"
	"io"
	"log/slog"
	"net"
	"os"
	"reflect"
	"sync"
	"time"

	wire "github.com/jeroenrinzema/psql-wire"
	"github.com/jeroenrinzema/psql-wire/codes"
	psqlerr "github.com/jeroenrinzema/psql-wire/errors"
	"github.com/lib/pq/oid"

	"verifharness/tr"
)

type discard struct{}

func (discard) Enabled(context.Context, slog.Level) bool  { return false }
func (discard) Handle(context.Context, slog.Record) error { return nil }
func (d discard) WithAttrs([]slog.Attr) slog.Handler      { return d }
func (d discard) WithGroup(string) slog.Handler           { return d }

var Quiet = slog.New(discard{})

// everything is a handler that enables every level and resolves every attribute of every record
// (into nowhere): code that only runs, or only evaluates its arguments, when debug logging is on.
type everything struct{}

func (everything) Enabled(context.Context, slog.Level) bool { return true }
func (everything) Handle(_ context.Context, r slog.Record) error {
	n := len(r.Message)
	r.Attrs(func(a slog.Attr) bool {
		n += len(a.Key) + len(a.Value.Resolve().String())
		return true
	})
	_ = n
	return nil
}
func (e everything) WithAttrs([]slog.Attr) slog.Handler { return e }
func (e everything) WithGroup(string) slog.Handler      { return e }

// LogAll makes Start configure servers with a logger that has every level enabled (odd batches).
var LogAll bool

// Env is one server on one in-memory listener.
type Env struct {
	Srv      *wire.Server
	L        *tr.Listener
	ServeErr chan error
}

func Start(parse wire.ParseFn, opts ...wire.OptionFn) *Env {
	logger := Quiet
	if LogAll {
		logger = slog.New(everything{})
	}
	all := append([]wire.OptionFn{wire.Logger(logger), wire.MessageBufferSize(1 << 16)}, opts...)
	srv, err := wire.NewServer(parse, all...)
	if err != nil {
		panic(err)
	}
	if ShortTimeouts {
		// whatever timeouts this tree's server offers as exported duration fields (none on the pinned tree),
		// an embedding program may set them, and set them short
		v := reflect.ValueOf(srv).Elem()
		for i := 0; i < v.NumField(); i++ {
			if f := v.Field(i); f.CanSet() && f.Type() == reflect.TypeOf(time.Duration(0)) {
				f.SetInt(int64(25 * time.Millisecond))
				TimeoutsSet++
			}
		}
	}
	e := &Env{Srv: srv, L: tr.NewListener(), ServeErr: make(chan error, 1)}
	go func() { e.ServeErr <- srv.Serve(e.L) }()
	// wait until Serve has entered its accept loop: the properties quantify over Close calls
	// interleaved with connections, not over a Close racing with the start of Serve itself
	<-e.L.Ready()
	return e
}

func (e *Env) Dial(user any) *tr.Conn { return e.L.Dial(user) }

// Stop closes the server and returns what Serve returned.
func (e *Env) Stop() error {
	e.Srv.Close()
	return <-e.ServeErr
}

// EndableSessions is a session middleware of an embedding program that gives every connection a context of
// its own (a per-session lifetime: a deadline, a log-out); the check ends it through Sess.EndSession.
func EndableSessions() wire.OptionFn {
	return wire.SessionMiddleware(func(ctx context.Context) (context.Context, error) {
		if conn := ConnOf(ctx); conn != nil {
			if s, _ := conn.User.(*Sess); s != nil {
				var cancel context.CancelFunc
				ctx, cancel = context.WithCancel(ctx)
				s.EndSession = cancel
			}
		}
		return ctx, nil
	})
}

// ConnOf recovers the transport connection from a callback context.
func ConnOf(ctx context.Context) *tr.Conn {
	if c, ok := ctx.Value(ConnKey{}).(*tr.Conn); ok {
		return c
	}
	return tr.FromAddr(wire.RemoteAddress(ctx))
}

// ConnKey carries the transport connection in contexts that a scripted middleware has detached
// from the library's own context (a middleware that builds its result on context.Background()).
type ConnKey struct{}

// ---- decorated error specifications ------------------------------------------

type Wrap struct {
	K    byte // c code, s severity, h hint, d detail, o source, n constraint, w fmt-wrap
	S    string
	Line int32
	Fn   string
}

// Causes are standard-library errors a real handler's failure plausibly is or wraps (index 0: none).
var Causes = []error{nil, io.EOF, io.ErrUnexpectedEOF, net.ErrClosed, context.Canceled, context.DeadlineExceeded, os.ErrDeadlineExceeded, sql.ErrNoRows,
	// several failures reported as one (errors.Join, %w twice): still one error
	errors.Join(errors.New("first of two failures"), io.ErrUnexpectedEOF),
	fmt.Errorf("cleanup failed (%w) after the statement had failed (%w)", net.ErrClosed, context.Canceled),
	// what a handler that forwards queries to a PostgreSQL server gets back from its driver
	&pgconn.PgError{Severity: "FATAL", Code: "57P01", Message: "terminating connection due to administrator command", Detail: "upstream detail", Hint: "upstream hint", ConstraintName: "upstream_pkey", File: "postgres.c", Line: 3000, Routine: "ProcessInterrupts"}}

type ErrSpec struct {
	Base  string
	Cause int    // index into Causes: the base error wraps it ("Base: cause"), or is it (empty Base)
	Wraps []Wrap // innermost first
	// Pre, when set, is an already built error value carrying Wraps[:PreN] (a shared
	// sentinel that several reports decorate further); Build continues from it.
	Pre  error `json:"-"`
	PreN int
}

func (e *ErrSpec) Build() error {
	var err error = errors.New(e.Base)
	if cause := Causes[e.Cause%len(Causes)]; cause != nil {
		err = cause
		if e.Base != "" {
			err = fmt.Errorf("%s: %w", e.Base, cause)
		}
	}
	ws := e.Wraps
	if e.Pre != nil {
		err, ws = e.Pre, e.Wraps[e.PreN:]
	}
	for _, w := range ws {
		switch w.K {
		case 'c':
			err = psqlerr.WithCode(err, codes.Code(w.S))
		case 's':
			err = psqlerr.WithSeverity(err, psqlerr.Severity(w.S))
		case 'h':
			err = psqlerr.WithHint(err, w.S)
		case 'd':
			err = psqlerr.WithDetail(err, w.S)
		case 'o':
			err = psqlerr.WithSource(err, w.S, w.Line, w.Fn)
		case 'n':
			err = psqlerr.WithConstraintName(err, w.S)
		case 'w':
			// ordinary wrapping comes in the shapes programs use: fmt.Errorf, a struct wrapper handed on by
			// value (with a slice among its fields, as a step with its arguments has), a pointer wrapper.
			// The text is the same in all three
			sum := 0
			for i := 0; i < len(w.S); i++ {
				sum += int(w.S[i])
			}
			switch sum % 3 {
			case 0:
				err = fmt.Errorf("%s: %w", w.S, err)
			case 1:
				err = stepErr{Step: w.S, Args: []any{sum, w.S}, Err: err}
			default:
				err = &opErr{Op: w.S, Err: err}
			}
		}
	}
	return err
}

type stepErr struct {
	Step string
	Args []any
	Err  error
}

func (e stepErr) Error() string { return e.Step + ": " + e.Err.Error() }
func (e stepErr) Unwrap() error { return e.Err }

type opErr struct {
	Op  string
	Err error
}

func (e *opErr) Error() string { return e.Op + ": " + e.Err.Error() }
func (e *opErr) Unwrap() error { return e.Err }

// Expect computes the fields the property demands for this error (outermost
// value of each decoration, defaults, message = error text).
func (e *ErrSpec) Expect() map[byte]string {
	f := map[byte]string{'S': "ERROR", 'C': "XXUUU", 'M': e.Base}
	has := map[byte]bool{}
	msg := e.BaseText()
	for _, w := range e.Wraps {
		if w.K == 'w' {
			msg = w.S + ": " + msg
		}
	}
	f['M'] = msg
	for i := len(e.Wraps) - 1; i >= 0; i-- {
		w := e.Wraps[i]
		switch w.K {
		case 'c':
			if !has['C'] {
				f['C'], has['C'] = w.S, true
			}
		case 's':
			if !has['S'] {
				has['S'] = true
				if w.S != "" { // an empty outermost severity means the default (ERROR)
					f['S'] = w.S
				}
			}
		case 'h':
			if !has['H'] {
				f['H'], has['H'] = w.S, true
			}
		case 'd':
			if !has['D'] {
				f['D'], has['D'] = w.S, true
			}
		case 'n':
			if !has['n'] {
				f['n'], has['n'] = w.S, true
			}
		case 'o':
			if !has['F'] {
				f['F'], f['L'], f['R'] = w.S, fmt.Sprint(w.Line), w.Fn
				has['F'] = true
			}
		}
	}
	return f
}

// BaseText is the text of the innermost error.
func (e *ErrSpec) BaseText() string {
	if cause := Causes[e.Cause%len(Causes)]; cause != nil {
		if e.Base == "" {
			return cause.Error()
		}
		return e.Base + ": " + cause.Error()
	}
	return e.Base
}

func (e *ErrSpec) String() string {
	s := fmt.Sprintf("err(%q", e.BaseText())
	for _, w := range e.Wraps {
		s += fmt.Sprintf(" %c=%q", w.K, w.S)
		if w.K == 'o' {
			s += fmt.Sprintf(":%d:%s", w.Line, w.Fn)
		}
	}
	return s + ")"
}

// ---- scripted programs ----------------------------------------------------------

type Op struct {
	K    string // row | badrow (unencodable at Vals) | arity | complete | empty | written | copy | err | panic
	Vals []any
	Tag  string
	Err  *ErrSpec
	Copy *CopyPlan
	Fn   func() // K "call": something the handler does besides writing results
}

// CopyPlan scripts a COPY-in handler.
type CopyPlan struct {
	Format     wire.FormatCode
	MaxReads   int    // stop after this many successful chunk reads (<0: until error/EOF)
	OnErr      string // "propagate" | "own" | "complete"
	OnStop     string // what to do when stopping early: "own" error | "complete"
	Binary     bool   // decode rows through the library's binary row reader
	OwnErr     int    // index into OwnErrs for the handler's own error
	NoComplete bool   // at the end of the stream the handler does not complete the result: it goes on (another CopyIn, rows)
	RowCtx     bool   // every Read of the binary row reader gets a context of its own, which the client side may cancel while the Read waits (Sess.CancelRead); a Read that fails with that context's error is simply repeated
}

type Stmt struct {
	ID          string
	Cols        wire.Columns
	ReuseRow    bool         // every row is written from one scratch slice that the handler re-uses (a scan loop)
	ScanRow     bool         // rows are written from one slice of pointers to scalar destinations, filled in before each Row call (rows.Scan(dest...) followed by Row(dest))
	Define      wire.Columns // not declared with the statement: the handler announces them itself through DataWriter.Define
	Params      []oid.Oid
	ParseParams bool // use wire.ParseParameters(query) for the declared parameters
	// Normalize: the handler counts the parameters of what it makes of the text (comments removed, say), not
	// of the raw text: wire.ParseParameters(Normalize(query)) is what it declares
	Normalize func(string) string
	EchoQuery bool // the statement fails with an error that quotes its query text - the string the parser was handed, kept without copying
	Ops       []Op
}

type Prog struct {
	Err   *ErrSpec
	Stmts []*Stmt
}

// Sess is the per-connection case context reachable from callbacks.
type Sess struct {
	Progs   map[string]*Prog
	Default func(query string) *Prog
	OnExec  func(ctx context.Context, st *Stmt, w wire.DataWriter, params []wire.Parameter) // optional extra observer
	Ctxs    []context.Context                                                               // command contexts captured by callbacks
	KeepCtx bool
	// EndSession: set by a session middleware of the check that hands every connection a cancellable context
	// (the embedding program's per-session lifetime); calling it ends that context while the connection lives on
	EndSession context.CancelFunc
	// ReuseStmt: the parser keeps one prepared-statement object for the session and reconfigures it
	// (parameters, columns) for every Parse, as a handler with a per-session template does. What was
	// defined by an earlier Parse stays what it was.
	ReuseStmt bool
	template  *wire.PreparedStatement
	tmplStmt  *Stmt

	rowMu     sync.Mutex
	rowCancel context.CancelFunc
}

// CancelRead cancels the context of the row-reader Read that is in flight (CopyPlan.RowCtx), if any.
func (s *Sess) CancelRead() bool {
	s.rowMu.Lock()
	defer s.rowMu.Unlock()
	if s.rowCancel == nil {
		return false
	}
	s.rowCancel()
	return true
}

func (s *Sess) setRowCancel(f context.CancelFunc) {
	s.rowMu.Lock()
	s.rowCancel = f
	s.rowMu.Unlock()
}

type ParseRec struct{ Query string }

type ExecRec struct {
	Stmt    string
	Params  [][]byte // copies; nil = NULL
	Formats []int16
}

type OpRes struct {
	Stmt    string
	Idx     int
	K       string
	ErrNil  bool
	Err     string
	W0, W1  int // server write offsets before/after the operation
	Written uint64
	Closed  bool // error is ErrClosedWriter
}

type CopyRec struct {
	Stmt   string
	Read   int
	Chunk  []byte // copy of Msg after a successful Read
	ErrNil bool
	EOF    bool
	Err    string
	Row    []any
}

type ExecEnd struct {
	Stmt   string
	ErrNil bool
	Err    string
}

// ShortTimeouts makes Start set every exported time.Duration field of the server (whatever its default) to 25 ms.
var ShortTimeouts bool

// TimeoutsSet counts the fields so set.
var TimeoutsSet int

// Parse is the harness ParseFn.
func Parse(ctx context.Context, query string) (wire.PreparedStatements, error) {
	c := ConnOf(ctx)
	if c == nil {
		return nil, errors.New("harness: no connection in context")
	}
	s, _ := c.User.(*Sess)
	c.CB("parse", ParseRec{Query: string(append([]byte(nil), query...))})
	if s == nil {
		return nil, errors.New("harness: no session")
	}
	if s.KeepCtx {
		s.Ctxs = append(s.Ctxs, ctx)
	}
	p := s.Progs[query]
	if p == nil && s.Default != nil {
		p = s.Default(query)
	}
	if p == nil {
		return nil, psqlerr.WithCode(errors.New("harness: no program for query"), codes.Syntax)
	}
	if p.Err != nil {
		return nil, p.Err.Build()
	}
	out := make(wire.PreparedStatements, 0, len(p.Stmts))
	for _, st := range p.Stmts {
		st := st
		opts := []wire.PreparedOptionFn{}
		if st.Cols != nil {
			opts = append(opts, wire.WithColumns(st.Cols))
		} else if st.Define != nil && !HasDefine {
			opts = append(opts, wire.WithColumns(st.Define)) // this tree's writer has no Define: declare them
		}
		if st.ParseParams && st.Normalize != nil {
			opts = append(opts, wire.WithParameters(wire.ParseParameters(st.Normalize(query))))
		} else if st.ParseParams {
			opts = append(opts, wire.WithParameters(wire.ParseParameters(query)))
		} else if st.Params != nil {
			opts = append(opts, wire.WithParameters(append([]oid.Oid{}, st.Params...))) // the script keeps its own list: what the library does to the one it was given is the library's business
		}
		if s.ReuseStmt && len(p.Stmts) == 1 {
			s.tmplStmt = st
			if s.template == nil {
				s.template = wire.NewStatement(func(ctx context.Context, w wire.DataWriter, params []wire.Parameter) error {
					return runStmt(ctx, s, s.tmplStmt, w, params)
				})
			}
			for _, o := range opts {
				o(s.template)
			}
			return wire.PreparedStatements{s.template}, nil
		}
		out = append(out, wire.NewStatement(func(ctx context.Context, w wire.DataWriter, params []wire.Parameter) error {
			if st.EchoQuery {
				return psqlerr.WithCode(errors.New("cannot execute: "+query), codes.Syntax)
			}
			return runStmt(ctx, s, st, w, params)
		}, opts...))
	}
	return out, nil
}

// HasDefine: the library's data writer offers Define (a method of the concrete type, not of the
// DataWriter interface) for handlers that announce their columns at execution time.
var HasDefine = func() bool {
	_, ok := wire.NewDataWriter(context.Background(), nil, nil, nil, nil).(interface{ Define(wire.Columns) error })
	return ok
}()

func runStmt(ctx context.Context, s *Sess, st *Stmt, w wire.DataWriter, params []wire.Parameter) (ret error) {
	c := ConnOf(ctx)
	rec := ExecRec{Stmt: st.ID}
	for _, p := range params {
		v := p.Value()
		if v == nil {
			rec.Params = append(rec.Params, nil)
		} else {
			rec.Params = append(rec.Params, append([]byte{}, v...))
		}
		rec.Formats = append(rec.Formats, int16(p.Format()))
	}
	c.CB("exec", rec)
	if s.KeepCtx {
		s.Ctxs = append(s.Ctxs, ctx)
	}
	if s.OnExec != nil {
		s.OnExec(ctx, st, w, params)
	}
	defer func() {
		// a scripted panic must propagate; only record normal ends
		if r := recover(); r != nil {
			c.CB("execend", ExecEnd{Stmt: st.ID, ErrNil: false, Err: "panic"})
			panic(r)
		}
		e := ExecEnd{Stmt: st.ID, ErrNil: ret == nil}
		if ret != nil {
			e.Err = ret.Error()
		}
		c.CB("execend", e)
	}()
	if dw, ok := w.(interface{ Define(wire.Columns) error }); ok && st.Define != nil && HasDefine {
		if err := dw.Define(st.Define); err != nil {
			c.CB("define", err.Error())
			return err
		}
		if got := w.Columns(); len(got) != len(st.Define) {
			c.CB("define", fmt.Sprintf("Columns() reports %d columns after Define of %d", len(got), len(st.Define)))
		}
	}
	var scratch, dests, vars []any
	for i, op := range st.Ops {
		r := OpRes{Stmt: st.ID, Idx: i, K: op.K, W0: c.WOff()}
		var err error
		switch op.K {
		case "row", "badrow", "arity":
			if st.ScanRow && op.K == "row" {
				if len(dests) != len(op.Vals) {
					dests, vars = make([]any, len(op.Vals)), make([]any, len(op.Vals))
				}
				for i, v := range op.Vals {
					// vars are the handler's own variables; the slice handed to Row is only touched when a
					// column needs another kind of destination than it has
					if d := scanDest(vars[i], v); d != vars[i] || d == nil {
						vars[i], dests[i] = d, d
						if d == nil {
							dests[i] = v
						}
					}
				}
				err = w.Row(dests)
				break
			}
			if st.ReuseRow && op.K == "row" {
				if len(scratch) != len(op.Vals) {
					scratch = make([]any, len(op.Vals))
				}
				copy(scratch, op.Vals)
				err = w.Row(scratch)
				break
			}
			err = w.Row(op.Vals)
		case "complete":
			err = w.Complete(op.Tag)
		case "empty":
			err = w.Empty()
		case "written":
		case "call":
			op.Fn()
		case "err":
			r.W1 = r.W0
			r.Written = w.Written()
			r.ErrNil = true
			c.CB("op", r)
			return op.Err.Build()
		case "panic":
			c.CB("op", r)
			panic("scripted statement panic")
		case "panicp": // a handler bug that needs client-supplied parameters (only reachable through Execute)
			if len(params) > 0 {
				c.CB("op", r)
				var none []wire.Parameter
				_ = none[len(params)] // index out of range, as a careless handler would
			}
		case "copy":
			err = runCopy(ctx, c, st, w, op.Copy)
			if err != nil {
				r.W1 = c.WOff()
				r.Err = err.Error()
				r.Written = w.Written()
				c.CB("op", r)
				return err
			}
		}
		r.W1 = c.WOff()
		r.Written = w.Written()
		r.ErrNil = err == nil
		if err != nil {
			r.Err = err.Error()
			r.Closed = errors.Is(err, wire.ErrClosedWriter)
		}
		c.CB("op", r)
	}
	return nil
}

var ErrOwn = psqlerr.WithCode(errors.New("harness: handler gave up on copy"), codes.DataException)

// OwnErrs are the errors a scripted COPY handler may fail with ("own" error kinds):
// plain, and wrapping the standard library errors a real handler would plausibly return.
var OwnErrs = []error{
	ErrOwn,
	fmt.Errorf("harness: short copy stream: %w", io.ErrUnexpectedEOF),
	fmt.Errorf("harness: backend connection: %w", net.ErrClosed),
	fmt.Errorf("harness: cancelled: %w", context.Canceled),
	fmt.Errorf("harness: premature end: %w", io.EOF),
	// a failure is a failure whatever severity the handler gives it
	psqlerr.WithSeverity(ErrOwn, psqlerr.LevelWarning),
	psqlerr.WithSeverity(psqlerr.WithCode(errors.New("harness: handler gave up on copy (notice)"), codes.DataException), psqlerr.LevelNotice),
	psqlerr.WithSeverity(fmt.Errorf("harness: logged failure: %w", io.ErrUnexpectedEOF), psqlerr.LevelLog),
	psqlerr.WithSeverity(ErrOwn, psqlerr.LevelFatal),
}

func runCopy(ctx context.Context, c *tr.Conn, st *Stmt, w wire.DataWriter, plan *CopyPlan) error {
	cr, err := w.CopyIn(plan.Format)
	if err != nil {
		c.CB("copyin", CopyRec{Stmt: st.ID, Read: -1, Err: err.Error()})
		return err
	}
	if cols := cr.Columns(); st.Cols != nil && len(cols) != len(st.Cols) {
		// (a handler building its own scanners asks the reader for the columns of the COPY)
		return fmt.Errorf("harness: CopyReader.Columns() has %d columns, the statement declares %d", len(cols), len(st.Cols))
	}
	var br *wire.BinaryCopyReader
	if plan.Binary {
		br, err = wire.NewBinaryColumnReader(ctx, cr)
		if err != nil {
			return err
		}
	}
	n := 0
	for {
		if plan.MaxReads >= 0 && n >= plan.MaxReads {
			if plan.OnStop == "complete" {
				return w.Complete(fmt.Sprintf("COPY %d", n))
			}
			return OwnErrs[plan.OwnErr%len(OwnErrs)]
		}
		rec := CopyRec{Stmt: st.ID, Read: n}
		if br != nil {
			rctx, cancel := ctx, context.CancelFunc(nil)
			sess, _ := c.User.(*Sess)
			if plan.RowCtx && sess != nil {
				rctx, cancel = context.WithCancel(ctx)
				sess.setRowCancel(cancel)
			}
			row, rerr := br.Read(rctx)
			if cancel != nil {
				sess.setRowCancel(nil)
				cancel()
				if rerr != nil && errors.Is(rerr, context.Canceled) && ctx.Err() == nil {
					c.CB("copyctx", n)
					continue // the handler's own deadline for this attempt has passed: it asks again
				}
			}
			err = rerr
			rec.Row = row
		} else {
			err = cr.Read()
			if err == nil {
				rec.Chunk = append([]byte{}, cr.Msg...)
			}
		}
		rec.ErrNil = err == nil
		rec.EOF = err == io.EOF
		if err != nil {
			rec.Err = err.Error()
		}
		c.CB("copyread", rec)
		if err == io.EOF {
			if plan.NoComplete {
				return nil
			}
			return w.Complete(fmt.Sprintf("COPY %d", n))
		}
		if err != nil {
			switch plan.OnErr {
			case "own":
				return OwnErrs[plan.OwnErr%len(OwnErrs)]
			case "complete":
				return w.Complete(fmt.Sprintf("COPY %d", n))
			default:
				return err
			}
		}
		n++
	}
}

// scanDest stores v in the destination variable the slot points to (as a Scan call does), creating the
// destination when there is none of the right type yet; nil for values that are not plain scalars.
func scanDest(slot, v any) any {
	switch x := v.(type) {
	case string:
		if p, ok := slot.(*string); ok && p != nil {
			*p = x
			return slot
		}
		return &x
	case bool:
		if p, ok := slot.(*bool); ok && p != nil {
			*p = x
			return slot
		}
		return &x
	case int:
		if p, ok := slot.(*int); ok && p != nil {
			*p = x
			return slot
		}
		return &x
	case int16:
		if p, ok := slot.(*int16); ok && p != nil {
			*p = x
			return slot
		}
		return &x
	case int32:
		if p, ok := slot.(*int32); ok && p != nil {
			*p = x
			return slot
		}
		return &x
	case int64:
		if p, ok := slot.(*int64); ok && p != nil {
			*p = x
			return slot
		}
		return &x
	case float32:
		if p, ok := slot.(*float32); ok && p != nil {
			*p = x
			return slot
		}
		return &x
	case float64:
		if p, ok := slot.(*float64); ok && p != nil {
			*p = x
			return slot
		}
		return &x
	}
	return nil
}
