// Package core is the check driver: deterministic case derivation, child
// process isolation (crash oracle), race-log and goroutine-dump
// classification, known findings, evidence and verdicts.
package core

import (
	"encoding/json"
	"fmt"
	"hash/fnv"
	"os"
	"sort"
	"strings"
	"sync"
)

// VerifDir is /verif, or a snapshot of it when run.sh is started from one.
var VerifDir = func() string {
	if d := os.Getenv("VERIF_DIR"); d != "" {
		return d
	}
	return "/verif"
}()

// Violation is one oracle failure. Sig identifies the failing rule and a
// normalised witness (used to match known findings); Detail is human readable.
type Violation struct {
	Prop   string `json:"property"`
	Rule   string `json:"rule"`
	Sig    string `json:"signature"`
	Detail string `json:"detail"`
	Batch  int    `json:"batch"`
	Index  int    `json:"index"`
	Case   any    `json:"case,omitempty"`
}

// Ctx accumulates what one child (one batch) observed.
type Ctx struct {
	Prop  string
	Tier  string
	Seed  int64
	Batch int
	Only  int // >=0: run only this case index (replay), verbose
	Verb  bool

	mu         sync.Mutex
	Evals      int64
	Sigs       map[uint64]struct{}
	Counters   map[string]int64
	Samples    []any
	Violations []Violation
	Inconcl    []string
	cur        int
	progress   *os.File
	Exhaustive bool
	ResultPath string // where the child writes its result (set by the driver)
}

func NewCtx(prop, tier string, seed int64, batch int) *Ctx {
	return &Ctx{Prop: prop, Tier: tier, Seed: seed, Batch: batch, Only: -1,
		Sigs: map[uint64]struct{}{}, Counters: map[string]int64{}}
}

func H64(s string) uint64 { h := fnv.New64a(); h.Write([]byte(s)); return h.Sum64() }

// Begin marks the start of case idx. It persists the index with one pwrite so
// that a process-fatal crash can be attributed to (seed, batch, idx). It
// returns false when the case must be skipped (replay of another index).
func (c *Ctx) Begin(idx int) bool {
	if c.Only >= 0 && idx != c.Only {
		return false
	}
	c.cur = idx
	if c.progress != nil {
		var b [24]byte
		copy(b[:], fmt.Sprintf("%-23d\n", idx))
		c.progress.WriteAt(b[:], 0)
	}
	return true
}

// Eval counts one executed case; sig is its structural shape, counted as
// distinct+nontrivial only when nontrivial is true.
func (c *Ctx) Eval(sig string, nontrivial bool) {
	c.mu.Lock()
	c.Evals++
	if nontrivial {
		c.Sigs[H64(sig)] = struct{}{}
	}
	c.mu.Unlock()
}

func (c *Ctx) Count(name string, n int64) {
	c.mu.Lock()
	c.Counters[name] += n
	c.mu.Unlock()
}

// Sample keeps up to a few written-out cases for the evidence file.
func (c *Ctx) Sample(v any) {
	c.mu.Lock()
	if len(c.Samples) < 3 {
		c.Samples = append(c.Samples, v)
	}
	c.mu.Unlock()
}

// HungPrefix: see hs.HungPrefix.
const HungPrefix = "WATCHDOG: "

func (c *Ctx) Violate(rule, sig, detail string, cs any) {
	if strings.Contains(detail, HungPrefix) {
		c.Inconclusive(rule + ": " + sig + ": " + detail)
		return
	}
	c.mu.Lock()
	defer c.mu.Unlock()
	if len(c.Violations) >= 50 {
		return
	}
	c.Violations = append(c.Violations, Violation{Prop: c.Prop, Rule: rule, Sig: c.Prop + "/" + rule + ": " + sig, Detail: detail, Batch: c.Batch, Index: c.cur, Case: cs})
	if c.Verb {
		fmt.Printf("  violation rule=%s sig=%s\n    %s\n", rule, sig, detail)
	}
}

func (c *Ctx) Inconclusive(why string) {
	c.mu.Lock()
	if len(c.Inconcl) < 20 {
		c.Inconcl = append(c.Inconcl, why)
	}
	c.mu.Unlock()
}

// Finish writes the result file now and ends the child process. Used after a wedge
// was recorded: a library goroutine that never returns would otherwise keep the
// child (and Server.Close) waiting for ever.
func (c *Ctx) Finish() {
	if c.ResultPath != "" {
		WriteJSON(c.ResultPath, c.Result())
		os.Exit(0)
	}
}

// MayDie announces that the case about to run may legitimately end this process (a callback of the
// embedding program that panics ends the process on a tree that does not recover it - which is not what the
// case is about). The results so far are written first; if the process then dies, the parent takes them and
// does not report a crash. Such a case is the last one of its batch: a panicking goroutine runs its deferred
// functions first, so the rest of the process goes on for a moment and cannot know whether it is about to
// end - the announcement is therefore not withdrawn (MustLive is for cases that can know).
func (c *Ctx) MayDie(why string) {
	if c.ResultPath != "" {
		WriteJSON(c.ResultPath, c.Result())
		os.WriteFile(c.ResultPath+".maydie", []byte(why), 0o644)
	}
}

func (c *Ctx) MustLive() {
	if c.ResultPath != "" {
		os.Remove(c.ResultPath + ".maydie")
	}
}

func (c *Ctx) NViol() int {
	c.mu.Lock()
	defer c.mu.Unlock()
	return len(c.Violations)
}

// Result is what a child writes for the parent.
type Result struct {
	Evals      int64            `json:"evals"`
	Sigs       []uint64         `json:"sigs"`
	Counters   map[string]int64 `json:"counters"`
	Samples    []any            `json:"samples"`
	Violations []Violation      `json:"violations"`
	Inconcl    []string         `json:"inconclusive"`
	Exhaustive bool             `json:"exhaustive"`
	Done       bool             `json:"done"`
}

func (c *Ctx) Result() Result {
	c.mu.Lock()
	defer c.mu.Unlock()
	r := Result{Evals: c.Evals, Counters: c.Counters, Samples: c.Samples, Violations: c.Violations, Inconcl: c.Inconcl, Exhaustive: c.Exhaustive, Done: true}
	for k := range c.Sigs {
		r.Sigs = append(r.Sigs, k)
	}
	sort.Slice(r.Sigs, func(i, j int) bool { return r.Sigs[i] < r.Sigs[j] })
	return r
}

func (c *Ctx) OpenProgress(path string) {
	f, err := os.OpenFile(path, os.O_CREATE|os.O_RDWR|os.O_TRUNC, 0o644)
	if err == nil {
		c.progress = f
	}
}

// Check is one property's machinery.
type Check interface {
	ID() string
	Race() bool              // needs the -race build
	Batches(tier string) int // number of child batches for the tier
	Run(c *Ctx)              // runs every case of batch c.Batch (or only c.Only)
	Level() string           // evidence level
	Rule() string            // how cases are generated and what makes one non-trivial
	Need() []string          // counters that must be > 0 for a conclusive run
	Assumptions() []string
}

var Registry = map[string]Check{}

func Register(ch Check) { Registry[ch.ID()] = ch }

func WriteJSON(path string, v any) error {
	b, err := json.MarshalIndent(v, "", " ")
	if err != nil {
		return err
	}
	return os.WriteFile(path, b, 0o644)
}

// ---- deterministic PRNG (splitmix64), derived per (seed, prop, batch, index) ----

type Rng struct{ s uint64 }

func NewRng(seed int64, prop string, batch, idx int) *Rng {
	s := uint64(seed)*0x9E3779B97F4A7C15 ^ H64(prop) ^ uint64(batch)*0xBF58476D1CE4E5B9 ^ uint64(idx)*0x94D049BB133111EB
	r := &Rng{s: s}
	r.U64()
	r.U64()
	return r
}

func (r *Rng) U64() uint64 {
	r.s += 0x9E3779B97F4A7C15
	z := r.s
	z = (z ^ (z >> 30)) * 0xBF58476D1CE4E5B9
	z = (z ^ (z >> 27)) * 0x94D049BB133111EB
	return z ^ (z >> 31)
}
func (r *Rng) Intn(n int) int {
	if n <= 0 {
		return 0
	}
	return int(r.U64() % uint64(n))
}
func (r *Rng) Bool() bool        { return r.U64()&1 == 1 }
func (r *Rng) Chance(p int) bool { return r.Intn(100) < p } // p percent
func Pick[T any](r *Rng, xs []T) T {
	return xs[r.Intn(len(xs))]
}
func (r *Rng) Bytes(n int) []byte {
	b := make([]byte, n)
	for i := 0; i < n; i += 8 {
		v := r.U64()
		for j := 0; j < 8 && i+j < n; j++ {
			b[i+j] = byte(v >> (8 * j))
		}
	}
	return b
}

var alphabet = []rune("abcdefghijklmnopqrstuvwxyzABCDEFGHIJKLMNOPQRSTUVWXYZ0123456789 _-%$?'\"\\;,.()*=<>\n\t")
var uni = []rune("äöüßéèñ漢字日本語Ωπ∑😀🚀𝔘\u00a0\u200b")

// Text returns a NUL-free string of n runes; with unicode when uc is set.
func (r *Rng) Text(n int, uc bool) string {
	rs := make([]rune, n)
	for i := range rs {
		if uc && r.Intn(5) == 0 {
			rs[i] = uni[r.Intn(len(uni))]
		} else {
			rs[i] = alphabet[r.Intn(len(alphabet))]
		}
	}
	return string(rs)
}

// BoundaryLen returns a length at or next to a power-of-two / typical buffer boundary.
func (r *Rng) BoundaryLen() int {
	base := Pick(r, []int{16, 32, 64, 128, 256, 512, 1024, 4096})
	return base - 1 + r.Intn(3)
}

// Ident returns a short lowercase identifier.
func (r *Rng) Ident(n int) string {
	b := make([]byte, n)
	for i := range b {
		b[i] = byte('a' + r.Intn(26))
	}
	return string(b)
}
