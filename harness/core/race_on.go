//go:build race

package core

// RaceEnabled reports whether this binary was built with the race detector.
const RaceEnabled = true
