package core

import (
	"fmt"
	"runtime"
	"strings"
)

// Allocation sanitizer: with runtime.MemProfileRate=1 every allocation is
// recorded in the runtime's allocation profile, keyed by (stack, size class).
// LargeLibraryObjects returns the records whose stack contains a library
// frame and whose object size exceeds bound.

func AllocSanitizerOn() { runtime.MemProfileRate = 1 }

type BigAlloc struct {
	Size  int64
	Count int64
	Stack string
	Top   string // innermost library function
}

func LargeLibraryObjects(bound int64) []BigAlloc {
	runtime.GC()
	runtime.GC()
	n, _ := runtime.MemProfile(nil, true)
	recs := make([]runtime.MemProfileRecord, n+256)
	n, ok := runtime.MemProfile(recs, true)
	if !ok {
		return nil
	}
	var out []BigAlloc
	for _, r := range recs[:n] {
		if r.AllocObjects == 0 {
			continue
		}
		size := r.AllocBytes / r.AllocObjects
		if size <= bound {
			continue
		}
		frames := runtime.CallersFrames(r.Stack())
		var sb strings.Builder
		top := ""
		harnessFirst := false
		for {
			f, more := frames.Next()
			// attribute the object to the innermost harness-or-library frame:
			// allocations made by harness callbacks running under library
			// frames are the harness's own
			if top == "" && !harnessFirst {
				if strings.Contains(f.Function, "verifharness/") {
					harnessFirst = true
				} else if strings.Contains(f.Function, libPath) {
					top = f.Function
				}
			}
			fmt.Fprintf(&sb, "%s:%d\n", f.Function, f.Line)
			if !more {
				break
			}
		}
		if top == "" {
			continue
		}
		out = append(out, BigAlloc{Size: size, Count: r.AllocObjects, Stack: sb.String(), Top: top})
	}
	return out
}
