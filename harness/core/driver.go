package core

import (
	"bufio"
	"encoding/json"
	"flag"
	"fmt"
	"os"
	"os/exec"
	"path/filepath"
	"regexp"
	"runtime"
	"sort"
	"strconv"
	"strings"
	"sync"
	"syscall"
	"time"
)

const libPath = "github.com/jeroenrinzema/psql-wire"

func envInt(name string, def int64) int64 {
	if v := os.Getenv(name); v != "" {
		if n, err := strconv.ParseInt(v, 10, 64); err == nil {
			return n
		}
	}
	return def
}

// Main is the vcheck entry point (parent, child and replay modes).
// BeforeRun is called in the process that runs a batch (child or replay) before the check starts.
var BeforeRun func(c *Ctx)

func Main() {
	prop := flag.String("prop", "", "property id")
	tier := flag.String("tier", "", "quick|thorough")
	child := flag.Bool("child", false, "child mode")
	batch := flag.Int("batch", 0, "batch index (child)")
	only := flag.Int("only", -1, "run only this case index (child/replay)")
	work := flag.String("work", "", "work dir (child)")
	replay := flag.String("replay", "", "replay file")
	verb := flag.Bool("v", false, "verbose")
	flag.Parse()

	seed := envInt("VERIF_SEED", 1)
	if *tier == "" {
		*tier = os.Getenv("VERIF_TIER")
	}
	if *tier == "" {
		*tier = "quick"
	}

	if *replay != "" {
		os.Exit(runReplay(*replay))
	}
	ch, ok := Registry[*prop]
	if !ok {
		fmt.Fprintf(os.Stderr, "unknown property %q\n", *prop)
		os.Exit(2)
	}
	if *child {
		c := NewCtx(*prop, *tier, seed, *batch)
		c.Only = *only
		c.Verb = *verb
		if *work != "" {
			c.OpenProgress(filepath.Join(*work, fmt.Sprintf("b%d.progress", *batch)))
			c.ResultPath = filepath.Join(*work, fmt.Sprintf("b%d.json", *batch))
			os.Remove(c.ResultPath + ".maydie")
		}
		if RaceEnabled {
			c.Count("race_detector_active_batches", 1)
		}
		if BeforeRun != nil {
			BeforeRun(c)
		}
		ch.Run(c)
		res := c.Result()
		if *work != "" {
			if err := WriteJSON(filepath.Join(*work, fmt.Sprintf("b%d.json", *batch)), res); err != nil {
				fmt.Fprintln(os.Stderr, "cannot write result:", err)
				os.Exit(3)
			}
		} else {
			b, _ := json.MarshalIndent(res, "", " ")
			fmt.Println(string(b))
		}
		os.Exit(0)
	}
	os.Exit(runParent(ch, *tier, seed))
}

type replayFile struct {
	Violation
	Tier string `json:"tier"`
	Seed int64  `json:"seed"`
}

func runReplay(path string) int {
	b, err := os.ReadFile(path)
	if err != nil {
		fmt.Fprintln(os.Stderr, err)
		return 2
	}
	var rf replayFile
	if err := json.Unmarshal(b, &rf); err != nil {
		fmt.Fprintln(os.Stderr, err)
		return 2
	}
	ch, ok := Registry[rf.Prop]
	if !ok {
		fmt.Fprintln(os.Stderr, "unknown property in replay file")
		return 2
	}
	c := NewCtx(rf.Prop, rf.Tier, rf.Seed, rf.Batch)
	c.Only = rf.Index
	c.Verb = true
	fmt.Printf("replaying property=%s tier=%s seed=%d batch=%d index=%d (rule %s)\n", rf.Prop, rf.Tier, rf.Seed, rf.Batch, rf.Index, rf.Rule)
	if BeforeRun != nil {
		BeforeRun(c)
	}
	ch.Run(c)
	if c.NViol() > 0 {
		fmt.Printf("VIOLATION property=%s replay=%s\n", rf.Prop, path)
		return 1
	}
	fmt.Println("no violation on replay")
	return 0
}

type knownFinding struct {
	Property  string `json:"property"`
	Status    string `json:"status"` // open | fixed
	Signature string `json:"signature"`
	What      string `json:"what"`
	Commit    string `json:"commit,omitempty"`
}

func loadKnown() []knownFinding {
	f, err := os.Open(filepath.Join(VerifDir, "known_findings.jsonl"))
	if err != nil {
		return nil
	}
	defer f.Close()
	var out []knownFinding
	sc := bufio.NewScanner(f)
	sc.Buffer(make([]byte, 1<<20), 1<<20)
	for sc.Scan() {
		line := strings.TrimSpace(sc.Text())
		if line == "" || strings.HasPrefix(line, "#") {
			continue
		}
		var k knownFinding
		if json.Unmarshal([]byte(line), &k) == nil {
			out = append(out, k)
		}
	}
	return out
}

func runParent(ch Check, tier string, seed int64) int {
	start := time.Now()
	id := ch.ID()
	work := filepath.Join(VerifDir, ".work", id)
	os.RemoveAll(work)
	os.MkdirAll(work, 0o755)
	self, _ := os.Executable()
	nb := ch.Batches(tier)
	par := runtime.NumCPU()
	if v := envInt("VERIF_PAR", 0); v > 0 {
		par = int(v)
	}
	if par > nb {
		par = nb
	}
	batchTimeout := 8 * time.Minute
	if tier == "thorough" {
		batchTimeout = 90 * time.Minute
	}

	type childOut struct {
		res     Result
		ok      bool
		crash   *Violation
		inconcl string
	}
	outs := make([]childOut, nb)
	sem := make(chan struct{}, par)
	var wg sync.WaitGroup
	for i := 0; i < nb; i++ {
		wg.Add(1)
		sem <- struct{}{}
		go func(i int) {
			defer wg.Done()
			defer func() { <-sem }()
			outF, _ := os.Create(filepath.Join(work, fmt.Sprintf("b%d.out", i)))
			errF, _ := os.Create(filepath.Join(work, fmt.Sprintf("b%d.err", i)))
			cmd := exec.Command(self, "-child", "-prop", id, "-tier", tier, "-batch", strconv.Itoa(i), "-work", work)
			cmd.Stdout = outF
			cmd.Stderr = errF
			cmd.Env = append(os.Environ(),
				fmt.Sprintf("VERIF_SEED=%d", seed),
				"GOTRACEBACK=all",
				fmt.Sprintf("GORACE=halt_on_error=0 log_path=%s/race.b%d", work, i))
			err := cmd.Start()
			if err != nil {
				outs[i].inconcl = "cannot start child: " + err.Error()
				return
			}
			done := make(chan error, 1)
			go func() { done <- cmd.Wait() }()
			timedOut := false
			select {
			case err = <-done:
			case <-time.After(batchTimeout):
				timedOut = true
				cmd.Process.Signal(syscall.SIGQUIT)
				select {
				case err = <-done:
				case <-time.After(20 * time.Second):
					cmd.Process.Kill()
					err = <-done
				}
			}
			outF.Close()
			errF.Close()
			var res Result
			b, rerr := os.ReadFile(filepath.Join(work, fmt.Sprintf("b%d.json", i)))
			_, mayDie := os.Stat(filepath.Join(work, fmt.Sprintf("b%d.json.maydie", i)))
			if rerr == nil && json.Unmarshal(b, &res) == nil && res.Done && (err == nil || mayDie == nil && !timedOut) {
				if err != nil {
					res.Counters["processes_ended_by_a_case_that_may_end_them"]++
				}
				outs[i].res = res
				outs[i].ok = true
				return
			}
			if timedOut {
				outs[i].inconcl = fmt.Sprintf("batch %d: wall-clock watchdog fired (see %s/b%d.err)", i, work, i)
				return
			}
			// child died: crash oracle
			idx := -1
			if pb, e := os.ReadFile(filepath.Join(work, fmt.Sprintf("b%d.progress", i))); e == nil {
				idx, _ = strconv.Atoi(strings.TrimSpace(string(pb)))
			}
			eb, _ := os.ReadFile(filepath.Join(work, fmt.Sprintf("b%d.err", i)))
			msg, libFn, isLib := ClassifyCrash(string(eb))
			if isLib {
				outs[i].crash = &Violation{Prop: id, Rule: "crash", Sig: id + "/crash: " + libFn + ": " + normMsg(msg),
					Detail: fmt.Sprintf("process died while executing case (batch %d, index %d): %s; first library frame: %s", i, idx, msg, libFn), Batch: i, Index: idx}
			} else {
				outs[i].inconcl = fmt.Sprintf("batch %d: child exited abnormally without a library frame in the failing goroutine (%v; %s) - harness defect, see %s/b%d.err", i, err, msg, work, i)
			}
		}(i)
	}
	wg.Wait()

	// merge
	total := Result{Counters: map[string]int64{}}
	sigs := map[uint64]struct{}{}
	var viols []Violation
	var inconcl []string
	allOK := true
	for i := range outs {
		o := outs[i]
		if o.crash != nil {
			viols = append(viols, *o.crash)
		}
		if o.inconcl != "" {
			inconcl = append(inconcl, o.inconcl)
		}
		if !o.ok {
			allOK = false
			continue
		}
		total.Evals += o.res.Evals
		for _, s := range o.res.Sigs {
			sigs[s] = struct{}{}
		}
		for k, v := range o.res.Counters {
			total.Counters[k] += v
		}
		if len(total.Samples) < 4 && len(o.res.Samples) > 0 {
			total.Samples = append(total.Samples, o.res.Samples[0])
		}
		viols = append(viols, o.res.Violations...)
		inconcl = append(inconcl, o.res.Inconcl...)
	}

	// race logs
	raceFiles, _ := filepath.Glob(filepath.Join(work, "race.b*"))
	raceBlocks, raceLib := 0, 0
	seenRace := map[string]bool{}
	for _, rf := range raceFiles {
		b, _ := os.ReadFile(rf)
		for _, blk := range SplitRaceBlocks(string(b)) {
			raceBlocks++
			sig, isLib := ClassifyRace(blk)
			if !isLib {
				inconcl = append(inconcl, "race report without library frames (monitor defect): "+rf)
				continue
			}
			raceLib++
			if seenRace[sig] {
				continue
			}
			seenRace[sig] = true
			bn := 0
			fmt.Sscanf(filepath.Base(rf), "race.b%d", &bn)
			viols = append(viols, Violation{Prop: id, Rule: "race", Sig: id + "/race: " + sig, Detail: "race detector report:\n" + trimTo(blk, 4000), Batch: bn, Index: -1})
		}
	}
	if ch.Race() {
		total.Counters["race_log_files_parsed"] = int64(len(raceFiles))
		total.Counters["race_reports"] = int64(raceBlocks)
	}

	for _, need := range ch.Need() {
		if total.Counters[need] == 0 {
			inconcl = append(inconcl, fmt.Sprintf("monitor %q observed no events", need))
		}
	}

	// known findings
	known := loadKnown()
	replayDir := filepath.Join(VerifDir, "replays", id)
	os.MkdirAll(replayDir, 0o755)
	newViol := 0
	printedKnown := map[string]bool{}
	printedSig := map[string]bool{}
	var lines []string
	for _, v := range viols {
		matched := false
		for _, k := range known {
			if k.Property == id && k.Status == "open" && strings.HasPrefix(v.Sig, k.Signature) {
				matched = true
				if !printedKnown[k.Signature] {
					printedKnown[k.Signature] = true
					lines = append(lines, fmt.Sprintf("KNOWN-FINDING: property=%s %s", id, k.What))
				}
				break
			}
		}
		if matched {
			continue
		}
		newViol++
		if printedSig[v.Sig] {
			continue
		}
		printedSig[v.Sig] = true
		path := filepath.Join(replayDir, fmt.Sprintf("%016x.json", H64(fmt.Sprintf("%s|%d|%s|%d|%d", v.Sig, seed, tier, v.Batch, v.Index))))
		WriteJSON(path, replayFile{Violation: v, Tier: tier, Seed: seed})
		lines = append(lines, fmt.Sprintf("VIOLATION property=%s replay=%s", id, path))
		lines = append(lines, "  rule: "+v.Sig)
		lines = append(lines, "  "+trimTo(v.Detail, 1500))
	}

	if total.Samples == nil {
		total.Samples = []any{}
	}
	wall := time.Since(start).Seconds()
	cov := map[string]any{
		"evaluations":         total.Evals,
		"distinct_nontrivial": len(sigs),
		"rule":                ch.Rule(),
		"samples":             total.Samples,
		"counters":            total.Counters,
		"batches":             nb,
		"exhaustive":          allOK && total.Counters["exhaustive_parts"] > 0,
	}
	ev := map[string]any{
		"property_id": id, "tier": tier, "seed": seed, "level": ch.Level(),
		"coverage": cov, "assumptions": ch.Assumptions(), "wall_s": wall, "violations": newViol,
		"known_findings_matched": len(printedKnown), "inconclusive": inconcl,
	}
	os.MkdirAll(filepath.Join(VerifDir, "evidence"), 0o755)
	WriteJSON(filepath.Join(VerifDir, "evidence", id+".json"), ev)

	for _, l := range lines {
		fmt.Println(l)
	}
	keys := make([]string, 0, len(total.Counters))
	for k := range total.Counters {
		keys = append(keys, k)
	}
	sort.Strings(keys)
	fmt.Printf("%s tier=%s seed=%d: %d cases, %d distinct non-trivial, %d violation(s), %d known, %.1fs\n", id, tier, seed, total.Evals, len(sigs), newViol, len(printedKnown), wall)
	for _, k := range keys {
		fmt.Printf("  %-40s %d\n", k, total.Counters[k])
	}
	if newViol > 0 {
		return 1
	}
	if len(inconcl) > 0 {
		for _, s := range inconcl {
			fmt.Printf("INCONCLUSIVE property=%s %s\n", id, trimTo(s, 600))
		}
		return 2
	}
	return 0
}

func trimTo(s string, n int) string {
	if len(s) > n {
		return s[:n] + "...[truncated]"
	}
	return s
}

var digitsRe = regexp.MustCompile(`[0-9]+`)
var hexRe = regexp.MustCompile(`0x[0-9a-fA-F]+`)

// NormDigits replaces numbers by N (signature normalisation).
func NormDigits(s string) string { return normMsg(s) }

func normMsg(s string) string {
	s = hexRe.ReplaceAllString(s, "0xN")
	s = digitsRe.ReplaceAllString(s, "N")
	if len(s) > 120 {
		s = s[:120]
	}
	return s
}

// ClassifyCrash inspects a Go crash dump: returns the panic message, the first
// library function in the failing goroutine's stack, and whether there is one.
func ClassifyCrash(stderr string) (msg, libFn string, isLib bool) {
	lines := strings.Split(stderr, "\n")
	start := -1
	for i, l := range lines {
		if strings.HasPrefix(l, "panic: ") || strings.HasPrefix(l, "fatal error: ") {
			start = i
			msg = l
			break
		}
	}
	if start < 0 {
		return "no panic message found", "", false
	}
	// first goroutine block after the message
	i := start + 1
	for i < len(lines) && !strings.HasPrefix(lines[i], "goroutine ") {
		if strings.HasPrefix(lines[i], "\tpanic: ") || strings.HasPrefix(lines[i], "panic: ") {
			msg += " / " + strings.TrimSpace(lines[i])
		}
		i++
	}
	for i++; i < len(lines) && strings.TrimSpace(lines[i]) != ""; i++ {
		l := lines[i]
		if strings.HasPrefix(l, "\t") {
			continue
		}
		if strings.Contains(l, libPath) {
			fn := l
			if k := strings.LastIndex(fn, "("); k > 0 {
				fn = fn[:k]
			}
			return msg, fn, true
		}
	}
	return msg, "", false
}

func SplitRaceBlocks(s string) []string {
	var out []string
	parts := strings.Split(s, "WARNING: DATA RACE")
	for _, p := range parts[1:] {
		if k := strings.Index(p, "=================="); k >= 0 {
			p = p[:k]
		}
		out = append(out, p)
	}
	return out
}

// ClassifyRace returns a signature made of the top-most library functions of
// the two accesses, and whether any library frame is involved at all.
func ClassifyRace(blk string) (sig string, isLib bool) {
	var tops []string
	sections := regexp.MustCompile(`(?m)^(Write at|Read at|Previous write at|Previous read at|Goroutine )`).Split(blk, -1)
	for _, sec := range sections[1:] {
		for _, l := range strings.Split(sec, "\n") {
			t := strings.TrimSpace(l)
			if strings.HasPrefix(t, libPath) || strings.HasPrefix(t, "github.com/jackc/pgx") {
				if k := strings.LastIndex(t, "("); k > 0 {
					t = t[:k]
				}
				tops = append(tops, t)
				isLib = true
				break
			}
		}
		if len(tops) == 2 {
			break
		}
	}
	sort.Strings(tops)
	return strings.Join(tops, " | "), isLib
}

var goroutineHdr = regexp.MustCompile(`^goroutine \d+ \[([^\],]+).*\]:$`)

func normGoroutine(h string) string {
	if m := goroutineHdr.FindStringSubmatch(h); m != nil {
		return "goroutine [" + m[1] + "]"
	}
	return h
}

// ClassifyHang inspects all goroutine stacks of this process: a goroutine with
// library frames whose innermost non-runtime frame is library code (not the
// transport's Read and not harness callback code) is blocked or spinning
// inside the library.
// ClassifyHang reports the goroutines that sit inside the library and make no progress: two stack dumps
// are taken a while apart, and only a goroutine that is found in both at the same library function counts
// (on a loaded machine a watchdog can fire while a goroutine is merely slow; such a goroutine has moved on
// by the second dump).
func ClassifyHang() (dump string, libBlocked []string) {
	d1, b1 := classifyOnce()
	time.Sleep(1500 * time.Millisecond)
	_, b2 := classifyOnce()
	still := map[string]bool{}
	for _, x := range b2 {
		still[x] = true
	}
	var stuck []string
	for _, x := range b1 {
		if still[x] {
			stuck = append(stuck, x)
		}
	}
	// goroutines that are running, or waiting to run, inside a library function are either spinning there or
	// slow (a machine with many times more runnable threads than cores): a spin never ends, so they are given
	// up to 90 more seconds to leave that function before they count
	runnableOnly := func(xs []string) bool {
		for _, x := range xs {
			if !strings.Contains(x, "\x00goroutine [runnable]") && !strings.Contains(x, "\x00goroutine [running]") {
				return false
			}
		}
		return len(xs) > 0
	}
	for waited := 0; waited < 90 && runnableOnly(stuck); waited += 3 {
		time.Sleep(3 * time.Second)
		_, bn := classifyOnce()
		now := map[string]bool{}
		for _, x := range bn {
			now[x] = true
		}
		var keep []string
		for _, x := range stuck {
			if now[x] {
				keep = append(keep, x)
			}
		}
		stuck = keep
	}
	for _, x := range stuck {
		libBlocked = append(libBlocked, x[strings.Index(x, "\x00")+1:])
	}
	return d1, libBlocked
}

// classifyOnce: entries are "goroutine id\x00state in function".
func classifyOnce() (dump string, libBlocked []string) {
	buf := make([]byte, 1<<22)
	n := runtime.Stack(buf, true)
	dump = string(buf[:n])
	for _, blk := range strings.Split(dump, "\n\n") {
		if !strings.Contains(blk, libPath) {
			continue
		}
		lines := strings.Split(blk, "\n")
		if len(lines) < 2 {
			continue
		}
		for _, l := range lines[1:] {
			if strings.HasPrefix(l, "\t") || strings.HasPrefix(l, "created by") {
				continue
			}
			if strings.HasPrefix(l, "runtime.") || strings.HasPrefix(l, "sync.") || strings.HasPrefix(l, "internal/") || strings.HasPrefix(l, "sync/atomic.") || strings.HasPrefix(l, "time.") ||
				strings.HasPrefix(l, "io.") || strings.HasPrefix(l, "bufio.") || strings.HasPrefix(l, "bytes.") || strings.HasPrefix(l, "encoding/binary.") {
				// (standard-library helpers the library calls in a loop: a goroutine spinning through them is
				// spinning in the library frame below)
				continue
			}
			if strings.Contains(l, libPath) && !strings.Contains(l, "(*Server).Serve.func1") {
				// (Serve.func1 is the listener-closing helper: it waits for Close by design)
				fn := l
				if k := strings.LastIndex(fn, "("); k > 0 {
					fn = fn[:k]
				}
				id := lines[0]
				if k := strings.Index(id, " ["); k > 0 {
					id = id[:k]
				}
				libBlocked = append(libBlocked, id+"\x00"+normGoroutine(lines[0])+" in "+fn)
			}
			break
		}
	}
	return dump, libBlocked
}
