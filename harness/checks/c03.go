package checks

import (
	"bytes"
	"context"
	"encoding/binary"
	"fmt"
	"sort"
	"strings"

	wire "github.com/jeroenrinzema/psql-wire"
	"github.com/jeroenrinzema/psql-wire/pkg/buffer"
	"github.com/lib/pq/oid"

	"verifharness/core"
	"verifharness/hs"
	"verifharness/pg"
	"verifharness/tr"
)

// C03 - Request parsing depends only on the byte stream, message by message.

type c03 struct{ base }

func init() {
	core.Register(c03{base{id: "C03", level: "exploration", quickB: 16, thoroughB: 32,
		rule:        "four monitors (the fourth, framing probes: messages of every type with arbitrary non-fatal bodies - oversized with lengths around multiples of L, unknown types, Sync/Flush/Close/Query with surplus, stray COPY messages, failing extended messages, valid Parse/Bind/Describe/Execute/Close bodies cut short at any offset inside a correct frame - interleaved with numbered probes Sync + Query; every probe must reach the parser exactly once and in order). (1) segmentation metamorphism: generated client byte streams (optional SSLRequest/N, startup, optional password, simple/extended/COPY traffic, surplus-carrying and truncated messages, optionally cut short at a random offset) are delivered under 6 (quick) / 12 (thorough) segmentations - all at once, one byte per read, cuts inside every message header, PRNG cut sets, PRNG cut sets with a client pause at every cut (virtual time: a pending read deadline fires) - and the normalised transcript + callback trace must be identical. (2) surplus isolation: Query/Parse/Bind/Describe/Execute/Close/Sync/Flush/CopyDone messages get surplus bytes appended inside their declared length (sentinel text, bytes that parse as a binary COPY row or as another protocol message); the transcript and every callback argument must equal the run without surplus and never contain the sentinel. (3) accessor cursor: buffer.Reader positioned on a generated body followed by a sentinel 'next message'; random sequences of GetString/GetBytes(n>=0)/GetUint16/GetUint32/GetPrepareType are compared with an independent cursor over the body (values, errors, no read beyond the message, no panic; checkptr build, child process). Non-trivial = stream with >= 3 messages and a cut inside a header, surplus case, or accessor sequence hitting the end of the body; distinct = stream shape / surplus placement / accessor sequence shape.",
		need:        []string{"short_bodies_framed", "streams", "segmentations_compared", "cuts_inside_headers", "surplus_cases", "accessor_sequences", "accessor_calls_compared", "accessor_short_data_errors", "truncated_streams", "framing_probes_seen", "granule_positions", "loopback_segmentations_compared"},
		assumptions: append([]string{"ParameterStatus runs are compared as multisets (the library iterates a Go map); after an accessor returned an error the rest of that sequence is not judged"}, commonAssumptions...)}})
}

// normalise a finished connection: parsed messages with S-runs sorted, raw tail kept.
func c03norm(out []byte) string {
	msgs, rest, err := pg.ParseStream(out)
	var parts []string
	var srun []string
	flush := func() {
		sort.Strings(srun)
		parts = append(parts, srun...)
		srun = nil
	}
	for _, m := range msgs {
		if m.T == 'S' {
			srun = append(srun, fmt.Sprintf("S(%s=%s)", m.Key, m.Val))
			continue
		}
		flush()
		parts = append(parts, fmt.Sprintf("%c%x", m.T, m.Body))
	}
	flush()
	s := strings.Join(parts, " ")
	if err != nil {
		s += " !ERR " + err.Error()
	}
	if rest != 0 {
		s += fmt.Sprintf(" !REST %d", rest)
	}
	return s
}

func c03trace(evs []trEvent) string {
	var t []string
	for _, e := range evs {
		if e.Kind != "cb" {
			continue
		}
		switch e.Name {
		case "parse":
			t = append(t, "parse:"+e.Data.(hs.ParseRec).Query)
		case "exec":
			x := e.Data.(hs.ExecRec)
			t = append(t, fmt.Sprintf("exec:%s:%q", x.Stmt, x.Params))
		case "op":
			o := e.Data.(hs.OpRes)
			t = append(t, fmt.Sprintf("op:%s#%d:%v", o.Stmt, o.Idx, o.ErrNil))
		case "copyread":
			x := e.Data.(hs.CopyRec)
			t = append(t, fmt.Sprintf("copyread:%d:%v:%v:%x:%d", x.Read, x.ErrNil, x.EOF, x.Chunk, len(x.Row)))
		case "validate":
			t = append(t, fmt.Sprintf("validate:%v", e.Data))
		}
	}
	return strings.Join(t, "|")
}

// runStream delivers the stream with the given cut set and returns normalised output and trace.
func c03run(env *hs.Env, progs map[string]*hs.Prog, stream []byte, cuts []int, each bool) (string, string, bool) {
	return c03runP(env, progs, stream, cuts, each, false)
}

// c03runP: with paused set the client pauses at every cut for longer than any read deadline.
func c03runP(env *hs.Env, progs map[string]*hs.Prog, stream []byte, cuts []int, each, paused bool) (string, string, bool) {
	sess := &hs.Sess{Progs: progs}
	conn := env.Dial(sess)
	switch {
	case each:
		conn.SendEach(stream)
	case paused:
		conn.SendCutPaused(stream, cuts)
	case c03eof:
		conn.SendCutEOF(stream, cuts)
	default:
		conn.SendCut(stream, cuts)
	}
	conn.CloseWrite()
	ok := conn.WaitClosed()
	return c03norm(conn.Out()), c03trace(conn.Events()), ok
}

// c03eof: the end of the stream is reported by the very Read that delivers its last bytes.
var c03eof bool

func c03validator(ctx context.Context, database, username, password string) (context.Context, bool, error) {
	hs.ConnOf(ctx).CB("validate", password)
	return ctx, password == "pw", nil
}

// c03envBig: a server whose message limit is 1 MiB (bodies above 64 KiB are ordinary messages there)
var c03envBig *hs.Env

func (ch c03) Run(c *core.Ctx) {
	c03envBig = hs.Start(hs.Parse, wire.MessageBufferSize(1<<20))
	defer c03envBig.Stop()
	envPlain := hs.Start(hs.Parse)
	envAuth := hs.Start(hs.Parse, wire.SessionAuthStrategy(wire.ClearTextPassword(c03validator)))
	defer envPlain.Stop()
	defer envAuth.Stop()
	nstreams, nsurplus, nacc, segs := 130, 130, 3500, 6
	if c.Tier == "thorough" {
		nstreams, nsurplus, nacc, segs = 1600, 1600, 160000, 12
	}
	for i := 0; i < nstreams; i++ {
		if !c.Begin(i) || c.NViol() >= 10 {
			continue
		}
		ch.segmentation(c, envPlain, envAuth, core.NewRng(c.Seed, "C03s", c.Batch, i), segs, i)
	}
	// the same comparison over real loopback sockets, where the kernel knows more about the peer than the bytes
	for i := 0; i < 3; i++ {
		if c.Begin(95000+i) && c.NViol() < 10 {
			ch.realTCP(c, core.NewRng(c.Seed, "C03tcp", c.Batch, i))
		}
	}
	// a server with certificates on which a few clients got their 'S' and then gave up (hung up, or sent
	// something that is no handshake); afterwards two connections are open at the same time: each one's
	// transcript is a function of its own bytes
	if c.Batch%4 == 1 && c.Begin(90000) {
		envT := hs.Start(hs.Parse, wire.MessageBufferSize(1<<16), wire.TLSConfig(hs.ServerTLS()))
		for k := 0; k < 4; k++ {
			conn := envT.Dial(nil)
			conn.Send(pg.SSLRequest())
			conn.Quiesce()
			if k%2 == 1 {
				conn.Send([]byte("this is no ClientHello\n"))
				conn.Quiesce()
			}
			conn.CloseWrite()
			conn.WaitClosed()
		}
		echo := func(tag string) *hs.Sess {
			return &hs.Sess{Default: func(q string) *hs.Prog {
				return &hs.Prog{Stmts: []*hs.Stmt{{ID: tag, Cols: textCols(1), Ops: []hs.Op{{K: "row", Vals: []any{tag + " answers " + q}}, {K: "complete", Tag: "SELECT 1"}}}}}
			}}
		}
		var cls []*hs.Client
		for k := 0; k < 3; k++ {
			cl := hs.NewClient(envT.Dial(echo(fmt.Sprintf("conn%d", k))))
			if err := cl.StartupOK(fmt.Sprintf("u%d", k)); err != nil {
				c.Violate("neighbours", "a connection opened after failed TLS handshakes of other clients is not served", err.Error(), nil)
			}
			cls = append(cls, cl)
		}
		for round := 0; round < 3 && c.NViol() == 0; round++ {
			for k, cl := range cls {
				q := fmt.Sprintf("round %d of connection %d", round, k)
				out, _ := cl.Step(pg.Query(q))
				msgs := mustMsgs(out)
				if want := fmt.Sprintf("conn%d answers %s", k, q); pg.Types(msgs) != "TDCZ" || string(msgs[1].Fields[0]) != want {
					c.Violate("neighbours", "connections open at the same time (after failed TLS handshakes of other clients) get each other's traffic or none", fmt.Sprintf("connection %d sent %q and got %s", k, q, trim(replyKinds(out), 200)), nil)
					break
				}
			}
		}
		for _, cl := range cls {
			cl.C.CloseWrite()
			cl.C.WaitClosed()
		}
		envT.Stop()
		c.Count("neighbour_rounds_after_failed_handshakes", 1)
		c.Eval("neighbours after failed handshakes", true)
	}
	for i := 0; i < nsurplus; i++ {
		if !c.Begin(100000+i) || c.NViol() >= 10 {
			continue
		}
		ch.surplus(c, envPlain, core.NewRng(c.Seed, "C03u", c.Batch, i), i)
	}
	for i := 0; i < nacc; i++ {
		if !c.Begin(200000+i) || c.NViol() >= 10 {
			continue
		}
		ch.accessors(c, core.NewRng(c.Seed, "C03a", c.Batch, i), i)
	}
	for i := 0; i < nstreams; i++ {
		if !c.Begin(300000+i) || c.NViol() >= 10 {
			continue
		}
		ch.framing(c, envPlain, core.NewRng(c.Seed, "C03f", c.Batch, i), i)
	}
	// granule sweep: a filler message of every length in a window around the 4 KiB and 8 KiB
	// allocation granules, then a message with an unread tail, then ordinary messages - the
	// position of a message inside the reader's allocation must not matter
	nb := ch.Batches(c.Tier)
	var fillers []int
	for f := 3900; f <= 4200; f++ {
		fillers = append(fillers, f)
	}
	for f := 8000; f <= 8300; f += 1 {
		fillers = append(fillers, f)
	}
	for k, f := range fillers {
		if k%nb != c.Batch || !c.Begin(400000+k) || c.NViol() >= 10 {
			continue
		}
		ch.granule(c, envPlain, f, k)
	}
}

func (ch c03) granule(c *core.Ctx, env *hs.Env, filler int, k int) {
	probe := &hs.Prog{Stmts: []*hs.Stmt{{ID: "probe", Cols: textCols(1), Params: []oid.Oid{}, Ops: []hs.Op{{K: "row", Vals: []any{"p"}}, {K: "complete", Tag: "SELECT 1"}}}}}
	sess := &hs.Sess{Default: func(string) *hs.Prog { return probe }}
	cl := hs.NewClient(env.Dial(sess))
	if err := cl.StartupOK("u"); err != nil {
		return
	}
	cs := map[string]any{"filler_bytes": filler}
	tails := [][]byte{
		pg.Parse("s", "with unread oids", []uint32{23, 25}),                  // 8 unread bytes
		pg.Raw('S', []byte("surplus-in-sync")),                               // unread surplus
		pg.Raw('E', append([]byte("nosuch\x00"), 0, 0, 0, 0, 1, 2, 3, 4, 5)), // surplus behind the row limit
	}
	in := pg.Query(strings.Repeat("f", filler))
	in = append(in, tails[k%len(tails)]...)
	in = append(in, pg.Sync()...)
	in = append(in, pg.Query("after the tail "+strings.Repeat("x", k%40))...)
	in = append(in, pg.Parse("t", "second", []uint32{1, 2, 3})...)
	in = append(in, pg.Bind("", "t", nil, nil, nil)...)
	in = append(in, pg.Execute("", 0)...)
	in = append(in, pg.Sync()...)
	out, closed := cl.Step(in)
	if hangCheck(c, cl, cs) {
		return
	}
	c.Count("granule_positions", 1)
	c.Eval(fmt.Sprintf("granule filler=%d tail=%d", filler, k%len(tails)), true)
	t := pg.Types(mustMsgs(out))
	want := map[int]string{0: "TDCZ" + "1Z" + "TDCZ" + "12DCZ", 1: "TDCZ" + "ZZ" + "TDCZ" + "12DCZ", 2: "TDCZ" + "EZ" + "TDCZ" + "12DCZ"}[k%len(tails)]
	if closed || t != want {
		c.Violate("granule", "the outcome depends on where a message lies inside the reader's allocation", fmt.Sprintf("filler of %d bytes, unread-tail variant %d: transcript %q closed=%v, want %q", filler, k%len(tails), t, closed, want), cs)
	}
	cl.Finish()
}

// framing: messages of every type with arbitrary (non-fatal) bodies - oversized, unknown types,
// surplus-carrying, stray COPY messages - are interleaved with numbered probes (Sync + Query).
// If every message is consumed in exactly its declared length, every probe reaches the parser,
// exactly once and in order, whatever lies between them.
func (ch c03) framing(c *core.Ctx, env *hs.Env, rng *core.Rng, idx int) {
	const L = 1 << 16
	probe := &hs.Prog{Stmts: []*hs.Stmt{{ID: "probe", Cols: textCols(1), Params: []oid.Oid{}, Ops: []hs.Op{{K: "row", Vals: []any{"p"}}, {K: "complete", Tag: "SELECT 1"}}}}}
	progs := map[string]*hs.Prog{}
	stream := pg.Startup([][2]string{{"user", "framing"}})
	n := 3 + rng.Intn(10)
	cutShort, huge := false, false
	shape := ""
	for i := 0; i < n; i++ {
		var m []byte
		switch k := rng.Intn(14); k {
		case 13: // a declared length of 2 GiB or more (top bit of the length word set): everything the client
			// still sends belongs to that message - last message of the stream, the probe behind it included
			m = pg.RawLen(core.Pick(rng, []byte("QPBDESd~")), core.Pick(rng, []uint32{0x80000000, 0x80000008, 0x80001000, 0xc0000000, 0xfffffff0, 0xffffffff}), append(pg.Sync(), pg.Query("smuggled inside a declared length of 2 GiB or more")...))
			shape += "G"
			n, huge = i+1, true
		case 12: // a failing extended message, then - while the server skips until Sync - an oversized message whose body is made of well-formed messages
			m = core.Pick(rng, [][]byte{pg.Execute("nosuch", 7), pg.Describe('P', "nosuch"), pg.Bind("p", "nosuch", nil, nil, nil)})
			inner := append(pg.Sync(), pg.Query("smuggled inside an oversized message")...)
			var body []byte
			for target := L + 1 + rng.Intn(L); len(body) < target; {
				body = append(body, inner...)
			}
			m = append(m, pg.Raw(core.Pick(rng, []byte("QPBDEdp~")), body)...)
			shape += "eO"
		case 11: // an oversized message (any type) while a COPY-in is running: skipped once, in full; the COPY ends with an error
			q := fmt.Sprintf("fcopy%d.%d.%d", c.Batch, idx, i)
			// (the handler reads to the end, or gives up after one or two chunks: a server that hands an oversized
			// chunk out in pieces still owes the stream the rest of it)
			progs[q] = &hs.Prog{Stmts: []*hs.Stmt{{ID: "fcopy", Cols: textCols(1), Params: []oid.Oid{}, Ops: []hs.Op{{K: "copy", Copy: &hs.CopyPlan{Format: wire.TextFormat, MaxReads: core.Pick(rng, []int{-1, -1, 1, 2}), OnErr: "propagate"}}}}}}
			m = append(pg.Query(q), pg.CopyData(rng.Bytes(rng.Intn(200)))...)
			sz := core.Pick(rng, []int{L + 1, L + 2, 2*L - 1, 2 * L, 2*L + 1, L + 100 + rng.Intn(3*L)})
			big := rng.Bytes(sz)
			if rng.Bool() {
				// the oversized body is a train of well-formed messages
				inner := append(pg.Sync(), pg.Query("smuggled inside an oversized message during COPY")...)
				for off := rng.Intn(len(inner)); off+len(inner) <= len(big); off += len(inner) {
					copy(big[off:], inner)
				}
			}
			m = append(m, pg.Raw(core.Pick(rng, []byte("dddQP~")), big)...)
			m = append(m, pg.CopyDone()...) // stray by then
			shape += "K"
		case 9, 10: // a valid extended-protocol body cut short inside its (correct) frame: short data for the accessors
			full := core.Pick(rng, [][]byte{
				pg.Parse(core.Pick(rng, xNames), "short body", []uint32{23, 25, 1043, uint32(rng.Intn(5000))}[:1+rng.Intn(4)]),
				pg.Bind("p", "nosuch", []int16{0, 1, 0}[:rng.Intn(4)], [][]byte{[]byte("abcdefgh"), nil, rng.Bytes(rng.Intn(20))}, []int16{1, 0}[:rng.Intn(3)]),
				pg.Describe(core.Pick(rng, []byte("SP")), "nosuch"), pg.Execute("nosuch", 7), pg.Close(core.Pick(rng, []byte("SP")), "nosuch"),
			})
			body := full[5:]
			m = pg.Raw(full[0], body[:rng.Intn(len(body))])
			if rng.Intn(3) == 0 {
				// a complete Bind whose first parameter length word is corrupted (larger than the message,
				// top bit set, -2): short data for GetBytes
				b := pg.Bind("p", "nosuch", nil, [][]byte{[]byte("abcdefgh")}, nil)
				off := 5 + len("p\x00nosuch\x00") + 2 + 2
				binary.BigEndian.PutUint32(b[off:], core.Pick(rng, []uint32{9, 1000, 0x7fffffff, 0x80000000, 0x80000008, 0xfffffffe, 0xfffffff0}))
				m = b
			}
			if rng.Intn(4) == 0 {
				// a length word below the minimum of four (the length counts itself)
				m = pg.RawLen(core.Pick(rng, []byte("QPBDECSHXd~")), uint32(rng.Intn(4)), nil)
			}
			shape += "t"
			// short data is answered by an error or by closing the connection: it is the last
			// message of the stream and the probe behind it may or may not be reached
			progs["short body"] = probe
			n, cutShort = i+1, true
		case 0: // oversized, any type, body length around multiples of L and not
			sz := core.Pick(rng, []int{L + 1, L + 2, 2*L - 1, 2 * L, 2*L + 1, L + 100 + rng.Intn(3*L)})
			m = pg.Raw(core.Pick(rng, []byte("QPBDECHSdcfp~")), rng.Bytes(sz))
			shape += "O"
		case 1: // unknown message type with a random body
			m = pg.Raw(core.Pick(rng, []byte("~!zYRTZ1\x00\xff")), rng.Bytes(rng.Intn(300)))
			shape += "U"
		case 2: // Sync / Flush carrying surplus bytes (a few, or thousands: any length up to the limit is a length)
			m = pg.Raw(core.Pick(rng, []byte("SH")), rng.Bytes(core.Pick(rng, []int{rng.Intn(200), rng.Intn(200), 9995 + rng.Intn(10), 12000, 30000 + rng.Intn(30000), L - 1, L})))
			shape += "s"
		case 3: // stray COPY messages outside COPY mode
			m = core.Pick(rng, [][]byte{pg.CopyData(rng.Bytes(rng.Intn(500))), pg.CopyDone(), pg.CopyFail("stray"), pg.Raw('c', rng.Bytes(9)), pg.Raw('c', rng.Bytes(9993+rng.Intn(10))), pg.CopyFail(strings.Repeat("f", 10000+rng.Intn(40000)))})
			shape += "c"
		case 4: // Parse with prespecified types (unread tail) for a known program
			q := fmt.Sprintf("fp%d.%d.%d", c.Batch, idx, i)
			progs[q] = probe
			m = pg.Parse(core.Pick(rng, xNames), q, []uint32{23, 25, uint32(rng.Intn(5000))})
			shape += "P"
		case 5: // Execute / Describe / Close of unknown names (fail, then skipped until the probe's Sync)
			m = core.Pick(rng, [][]byte{pg.Execute("nosuch", 7), pg.Describe('P', "nosuch"), pg.Describe('S', "nosuch"), pg.Close('S', "nosuch"), pg.Bind("p", "nosuch", nil, nil, nil)})
			shape += "e"
		case 6: // messages with an empty body of types whose handlers do not read fields
			m = pg.Raw(core.Pick(rng, []byte("SHc")), nil)
			shape += "0"
		case 7: // Query with surplus behind the terminator
			q := fmt.Sprintf("fq%d.%d.%d", c.Batch, idx, i)
			progs[q] = probe
			m = pg.Raw('Q', append(append([]byte(q), 0), rng.Bytes(rng.Intn(100))...))
			shape += "Q"
		default: // Close / Execute with surplus
			m = pg.Raw('C', append([]byte("Sx\x00"), rng.Bytes(core.Pick(rng, []int{rng.Intn(50), rng.Intn(50), 9990 + rng.Intn(10), 20000 + rng.Intn(40000)}))...))
			shape += "C"
		}
		stream = append(stream, m...)
		q := fmt.Sprintf("framing-probe %d.%d.%d", c.Batch, idx, i)
		progs[q] = probe
		stream = append(stream, pg.Sync()...)
		stream = append(stream, pg.Query(q)...)
	}
	if !huge && !cutShort && rng.Intn(4) == 0 {
		// the stream ends inside the body of a last Query (the client is gone): nothing of a message that
		// never arrived in full is acted upon
		full := pg.Query("a query whose end never arrived " + rng.Ident(10+rng.Intn(200)))
		stream = append(stream, full[:5+rng.Intn(len(full)-5)]...)
		shape += "q"
		c.Count("streams_ending_inside_a_message_body", 1)
	} else {
		stream = append(stream, pg.Terminate()...)
	}
	sess := &hs.Sess{Progs: progs}
	conn := env.Dial(sess)
	conn.NoLog = true
	switch rng.Intn(3) {
	case 0:
		conn.Send(stream)
	case 1:
		var cuts []int
		for k := 1 + rng.Intn(20); k > 0; k-- {
			cuts = append(cuts, 1+rng.Intn(len(stream)))
		}
		sort.Ints(cuts)
		conn.SendCut(stream, cuts)
	default:
		conn.SendCut(stream, []int{len(stream) / 2})
	}
	conn.CloseWrite()
	cs := map[string]any{"framing_shape": shape}
	if !conn.WaitClosed() {
		c.Violate("wedge", "connection did not end after EOF (framing case)", shape, cs)
		return
	}
	c.Count("framing_streams", 1)
	c.Eval("framing "+shape, true)
	next := 0
	for _, e := range conn.Events() {
		if e.Kind != "cb" || e.Name != "parse" {
			continue
		}
		q := e.Data.(hs.ParseRec).Query
		if !strings.HasPrefix(q, "framing-probe ") {
			if _, ok := progs[q]; !ok {
				c.Violate("framing", "parser received a text that is not a message of the stream", fmt.Sprintf("shape %s: %q", shape, trim(q, 80)), cs)
				return
			}
			continue
		}
		want := fmt.Sprintf("framing-probe %d.%d.%d", c.Batch, idx, next)
		if q != want {
			c.Violate("framing", "a message was not consumed in exactly its declared length: the following probe was lost, duplicated or reordered", fmt.Sprintf("shape %s (one symbol per message; O oversized, U unknown type, s Sync/Flush+surplus, c stray COPY, P Parse+types, t body cut short, K oversized message during COPY-in, e failing extended, 0 empty, Q Query+surplus, C Close+surplus): parser saw %q, expected %q", shape, q, want), cs)
			return
		}
		next++
		c.Count("framing_probes_seen", 1)
	}
	if cutShort {
		c.Count("short_bodies_framed", 1)
	}
	if huge {
		c.Count("declared_lengths_of_2GiB_or_more", 1)
		if next != n-1 {
			c.Violate("framing", "a message was not consumed in exactly its declared length: bytes inside a declared length of 2 GiB or more were taken for messages", fmt.Sprintf("shape %s: %d of %d probes reached the parser, the last one lies inside the declared body; server output %s", shape, next, n, trim(replyKinds(conn.Out()), 300)), cs)
		}
		return
	}
	if next != n && !(cutShort && next == n-1) {
		c.Violate("framing", "a message was not consumed in exactly its declared length: the following probe was lost, duplicated or reordered", fmt.Sprintf("shape %s: only %d of %d probes reached the parser; server output %s", shape, next, n, trim(replyKinds(conn.Out()), 300)), cs)
	}
}

func (ch c03) segmentation(c *core.Ctx, envPlain, envAuth *hs.Env, rng *core.Rng, segs int, idx int) {
	s := c15gen(rng, fmt.Sprintf("s%dx%d", c.Batch, idx), false)
	env := envPlain
	var stream []byte
	var bounds []int // message start offsets
	add := func(b []byte) {
		bounds = append(bounds, len(stream))
		stream = append(stream, b...)
	}
	shape := ""
	if rng.Intn(5) == 0 {
		add(pg.SSLRequest())
		shape += "ssl "
	}
	add(pg.Startup(append([][2]string{{"user", s.User}, {"database", "d"}}, s.Params...)))
	if rng.Intn(4) == 0 {
		env = envAuth
		add(pg.Password(core.Pick(rng, []string{"pw", "pw", "wrong"})))
		shape += "auth "
	}
	// one stream in six carries a Query of 64 KiB .. 200 KB (sizes at and around powers of two among them) in
	// front of one of its steps, on a server whose limit admits it: a body that large is read like any other
	bigAt := -1
	if env == envPlain && rng.Intn(6) == 0 {
		env = c03envBig
		bigAt = rng.Intn(len(s.Steps) + 1)
		shape += "big "
		c.Count("streams_with_a_body_above_64k", 1)
	}
	bigStep := func() {
		n := core.Pick(rng, []int{65530, 65536, 65537, 70000, 100015, 131071, 131072, 131073, 150000, 200000})
		q := "big " + strings.Repeat("x", n-4-rng.Intn(3))
		s.Progs[q] = &hs.Prog{Stmts: []*hs.Stmt{{ID: "big", Cols: textCols(1), Ops: []hs.Op{{K: "row", Vals: []any{"b"}}, {K: "complete", Tag: "SELECT 1"}}}}}
		add(pg.Query(q))
	}
	for i, st := range s.Steps {
		if i == bigAt {
			bigStep()
		}
		// split the step into its messages for header-cut bookkeeping
		off := 0
		for off+5 <= len(st) {
			l := int(binary.BigEndian.Uint32(st[off+1:]))
			if l < 4 || off+1+l > len(st) {
				break
			}
			bounds = append(bounds, len(stream)+off)
			off += 1 + l
		}
		stream = append(stream, st...)
		shape += s.Kinds[min(i, len(s.Kinds)-1)] + " "
	}
	if rng.Intn(4) == 0 {
		// a COPY whose statement reads the stream chunk by chunk (the text format has no other reader): three
		// to six CopyData messages, some empty - the chunks it is handed are the client's messages, however the
		// bytes were delivered
		q := fmt.Sprintf("copy-chunks-%s", s.User)
		s.Progs[q] = &hs.Prog{Stmts: []*hs.Stmt{{ID: "chunks", Cols: textCols(1), Ops: []hs.Op{{K: "copy", Copy: &hs.CopyPlan{Format: wire.TextFormat, MaxReads: -1, OnErr: "propagate"}}}}}}
		add(pg.Query(q))
		for n := 3 + rng.Intn(4); n > 0; n-- {
			add(pg.CopyData([]byte(strings.Repeat(fmt.Sprintf("line %d\n", n), rng.Intn(4)))))
		}
		add(pg.CopyDone())
		shape += "copychunks "
		c.Count("streams_with_a_copy_read_chunk_by_chunk", 1)
	}
	if bigAt == len(s.Steps) {
		bigStep()
		add(pg.Query(s.User)) // (something behind it)
		s.Progs[s.User] = &hs.Prog{Stmts: []*hs.Stmt{{ID: "after", Cols: textCols(1), Ops: []hs.Op{{K: "row", Vals: []any{"a"}}, {K: "complete", Tag: "SELECT 1"}}}}}
	}
	if rng.Intn(3) != 0 {
		add(pg.Terminate())
	}
	truncated := false
	if rng.Intn(4) == 0 && len(stream) > 10 {
		stream = stream[:1+rng.Intn(len(stream)-1)]
		truncated = true
		c.Count("truncated_streams", 1)
		shape += "trunc "
	}
	cs := map[string]any{"stream_shape": shape, "stream_len": len(stream)}
	c.Count("streams", 1)
	refOut, refTrace, ok := c03run(env, s.Progs, stream, nil, false)
	if !ok {
		c.Violate("wedge", "connection did not end after EOF (all-at-once delivery)", shape, cs)
		return
	}
	if p := c15execProblem(s, strings.Split(refTrace, "|")); p != "" && !truncated {
		c.Violate("leak", "data of one message changed by another message", fmt.Sprintf("stream [%s]: %s", shape, p), cs)
		return
	}
	headerCuts := 0
	for k := 1; k < segs; k++ {
		var cuts []int
		each := false
		what := ""
		switch {
		case k == 1:
			each, what = true, "one byte per read"
		case k == 2:
			for _, b := range bounds {
				for _, d := range []int{1, 3, 5} {
					if b+d < len(stream) {
						cuts = append(cuts, b+d)
					}
				}
			}
			sort.Ints(cuts)
			headerCuts += len(cuts)
			what = "cuts inside every header"
		case k == 3:
			for _, b := range bounds {
				if b > 0 && b < len(stream) {
					cuts = append(cuts, b)
				}
			}
			what = "cuts at message boundaries"
		default:
			for m := 1 + rng.Intn(12); m > 0; m-- {
				cuts = append(cuts, 1+rng.Intn(len(stream)))
			}
			sort.Ints(cuts)
			what = "random cuts"
		}
		c03eof = k == 3 || k == 4
		if c03eof {
			what += ", the end of the stream reported together with the last bytes"
			c.Count("segmentations_ending_with_data_and_eof_in_one_read", 1)
		}
		paused := k == segs-1
		if paused {
			what += ", the client pausing at every cut for longer than any read deadline"
			c.Count("paused_segmentations", 1)
		}
		out, trace, ok := c03runP(env, s.Progs, stream, cuts, each, paused)
		c03eof = false
		c.Count("segmentations_compared", 1)
		if !ok {
			c.Violate("wedge", "connection did not end after EOF ("+what+")", shape, cs)
			return
		}
		if out != refOut {
			c.Violate("segmentation", "transcript depends on segmentation ("+what+")", fmt.Sprintf("stream [%s] len %d: all-at-once gives %s ; %s gives %s", shape, len(stream), trim(refOut, 400), what, trim(out, 400)), cs)
			return
		}
		if trace != refTrace {
			c.Violate("segmentation", "callback trace depends on segmentation ("+what+")", fmt.Sprintf("stream [%s]: %s vs %s", shape, trim(refTrace, 300), trim(trace, 300)), cs)
			return
		}
	}
	c.Count("cuts_inside_headers", int64(headerCuts))
	c.Eval("seg "+shape, len(bounds) >= 3 && headerCuts > 0 || truncated)
	if idx < 2 {
		c.Sample(map[string]any{"monitor": "segmentation", "stream_shape": shape, "stream_len": len(stream), "segmentations": segs})
	}
}

const c03sentinel = "\x01SURPLUS-SENTINEL\x02"

func (ch c03) surplus(c *core.Ctx, env *hs.Env, rng *core.Rng, idx int) {
	id := fmt.Sprintf("u%dx%d", c.Batch, idx)
	cols := wire.Columns{{Name: "a", Oid: oid.T_text, Width: -1}, {Name: "b", Oid: oid.T_int4, Width: -1}}
	progs := map[string]*hs.Prog{
		"sel " + id:  {Stmts: []*hs.Stmt{{ID: "sel", Cols: cols, Params: []oid.Oid{}, Ops: []hs.Op{{K: "row", Vals: []any{"v" + id, int32(7)}}, {K: "complete", Tag: "SELECT 1"}}}}},
		"copy " + id: {Stmts: []*hs.Stmt{{ID: "copy", Cols: cols, Ops: []hs.Op{{K: "copy", Copy: &hs.CopyPlan{Format: wire.BinaryFormat, MaxReads: -1, OnErr: "propagate", Binary: true}}}}}},
	}
	// a well-formed binary COPY row for the two columns (would be a fabricated row if decoded)
	fakeRow := []byte{0, 2, 0, 0, 0, 1, 'x', 0, 0, 0, 4, 0, 0, 0, 7}
	fakeMsg := pg.Query("sel " + id + " FABRICATED")
	cstrings := append(append([]byte("sel "+id+"\x00"), []byte("sel "+id+" FABRICATED\x00S\x00")...), 0, 0, 0, 0)
	surplusKinds := [][]byte{[]byte(c03sentinel), append([]byte(c03sentinel), fakeRow...), fakeRow, fakeMsg, append([]byte{0}, []byte(c03sentinel)...), cstrings, cstrings}
	// optionally the surplus-carrying message is followed by an empty-bodied message of a
	// type whose handler reads fields: it must fail on its own (empty) body
	var follow []byte
	if rng.Intn(3) == 0 {
		follow = pg.Raw(core.Pick(rng, []byte("QPBEDC")), nil)
	}
	sp := core.Pick(rng, surplusKinds)
	// with appends surplus inside the declared length
	with := func(msg []byte, on bool) []byte {
		if !on {
			return msg
		}
		body := append(append([]byte{}, msg[5:]...), sp...)
		return pg.Raw(msg[0], body)
	}
	type part struct {
		msg  []byte
		name string
	}
	var parts []part
	copyMode := rng.Intn(3) == 0
	if copyMode {
		t := c14table{OIDs: []uint32{pg.OIDText, pg.OIDInt4}, Rows: [][]any{{"r1", int32(1)}, {"r2", int32(2)}}, Trailer: rng.Bool()}
		stream, _ := t.encode()
		parts = []part{{pg.Query("copy " + id), "Query(copy)"}, {pg.CopyData(stream), ""}, {pg.CopyDone(), "CopyDone"}, {pg.Sync(), "Sync"}}
	} else {
		parts = []part{
			{pg.Parse("s", "sel "+id, nil), "Parse"}, {pg.Describe('S', "s"), "Describe"},
			{pg.Bind("p", "s", nil, nil, nil), "Bind"}, {pg.Describe('P', "p"), "Describe"}, {pg.Execute("p", 0), "Execute"},
			{pg.Flush(), "Flush"}, {pg.Close('P', "p"), "Close"}, {pg.Sync(), "Sync"}, {pg.Query("sel " + id), "Query"},
		}
	}
	var cand []int
	for i, p := range parts {
		if p.name != "" {
			cand = append(cand, i)
		}
	}
	target := core.Pick(rng, cand)
	build := func(on bool) []byte {
		b := pg.Startup([][2]string{{"user", "u"}})
		for i, p := range parts {
			b = append(b, with(p.msg, on && i == target)...)
			if i == target {
				b = append(b, follow...)
			}
		}
		return append(b, pg.Terminate()...)
	}
	cs := map[string]any{"surplus_on": parts[target].name, "surplus_bytes": len(sp), "copy": copyMode, "followed_by_empty_message": len(follow) > 0}
	refOut, refTrace, ok1 := c03run(env, progs, build(false), nil, false)
	out, trace, ok2 := c03run(env, progs, build(true), nil, false)
	c.Count("surplus_cases", 1)
	c.Eval(fmt.Sprintf("surplus %s %d copy=%v follow=%x", parts[target].name, len(sp), copyMode, follow), true)
	if len(follow) > 0 {
		c.Count("surplus_followed_by_empty_message", 1)
	}
	if !ok1 || !ok2 {
		c.Violate("wedge", "connection did not end after EOF (surplus case)", "", cs)
		return
	}
	what := fmt.Sprintf("surplus inside %s", parts[target].name)
	if strings.Contains(trace, "SURPLUS-SENTINEL") || strings.Contains(trace, "FABRICATED") || strings.Contains(out, fmt.Sprintf("%x", "SURPLUS-SENTINEL")) {
		c.Violate("surplus-leak", "surplus bytes of one message leaked into a callback or reply ("+what+")", trim(trace, 400), cs)
		return
	}
	if out != refOut {
		c.Violate("surplus", "transcript changes when a message carries surplus bytes ("+what+")", fmt.Sprintf("without: %s ; with: %s", trim(refOut, 300), trim(out, 300)), cs)
		return
	}
	if trace != refTrace {
		c.Violate("surplus", "callback trace changes when a message carries surplus bytes ("+what+")", fmt.Sprintf("without: %s ; with: %s", trim(refTrace, 300), trim(trace, 300)), cs)
		return
	}
	if idx < 1 {
		c.Sample(map[string]any{"monitor": "surplus", "surplus_on": parts[target].name, "surplus_bytes": len(sp)})
	}
}

func (ch c03) accessors(c *core.Ctx, rng *core.Rng, idx int) {
	// body generation: mixture of strings, ints and raw bytes
	var body []byte
	for n := rng.Intn(6); n > 0; n-- {
		switch rng.Intn(4) {
		case 0:
			body = append(body, []byte(rng.Text(rng.Intn(12), true))...)
			body = append(body, 0)
		case 1:
			body = append(body, rng.Bytes(rng.Intn(9))...)
		case 2:
			body = append(body, 0, byte(rng.Intn(4)))
		default:
			body = append(body, 0, 0, 0, byte(rng.Intn(20)))
		}
	}
	next := []byte("NEXT-MESSAGE-SENTINEL\x00\x00\x00\x00\x07tail\x00")
	typed := rng.Bool()
	var stream []byte
	// half of the time a previous message with an unread tail precedes the message under test
	prev := rng.Bool()
	if prev {
		stream = pg.Raw('P', []byte("PREVIOUS-MESSAGE-TAIL\x00\x00\x00\x00\x09unread\x00\x00\x01"))
	}
	if typed {
		stream = append(stream, pg.Raw('Q', body)...)
	} else {
		stream = append(stream, pg.Raw('Q', body)[1:]...)
	}
	stream = append(stream, pg.Raw('Q', next)...)
	r := buffer.NewReader(hs.Quiet, bytes.NewReader(stream), 1<<16)
	var err error
	if prev {
		if _, _, err = r.ReadTypedMsg(); err != nil {
			c.Violate("read", "previous message not readable", err.Error(), nil)
			return
		}
		if rng.Bool() {
			r.GetBytes(rng.Intn(9)) // consume a little, leave an unread tail
		}
		c.Count("accessor_after_unread_tail", 1)
	}
	if typed {
		_, _, err = r.ReadTypedMsg()
	} else {
		_, err = r.ReadUntypedMsg()
	}
	cs := map[string]any{"body": hexs(body)}
	if err != nil || !bytes.Equal(r.Msg, body) {
		c.Violate("read", "message body not delivered exactly", fmt.Sprintf("err=%v msg=%s want %s", err, hexs(r.Msg), hexs(body)), cs)
		return
	}
	cur := body // independent cursor
	shape := ""
	hitEnd := false
	calls := 1 + rng.Intn(10)
	for k := 0; k < calls; k++ {
		c.Count("accessor_calls_compared", 1)
		switch rng.Intn(5) {
		case 0:
			shape += "S"
			got, gerr := r.GetString()
			pos := bytes.IndexByte(cur, 0)
			if pos < 0 {
				hitEnd = true
				if gerr == nil {
					c.Violate("accessor", "GetString succeeded without a terminator inside the message", fmt.Sprintf("returned %q from remaining %s", got, hexs(cur)), cs)
					return
				}
				c.Count("accessor_short_data_errors", 1)
				goto done
			}
			if gerr != nil || got != string(cur[:pos]) {
				c.Violate("accessor", "GetString result differs from the independent cursor", fmt.Sprintf("got %q err=%v want %q", got, gerr, cur[:pos]), cs)
				return
			}
			cur = cur[pos+1:]
		case 1:
			n := rng.Intn(12)
			if rng.Intn(10) == 0 {
				n = len(cur) + rng.Intn(3)
			}
			shape += fmt.Sprintf("B%d", n)
			got, gerr := r.GetBytes(n)
			if n > len(cur) {
				hitEnd = true
				if gerr == nil {
					c.Violate("accessor", "GetBytes returned data beyond the current message", fmt.Sprintf("asked %d of %d remaining, got %s", n, len(cur), hexs(got)), cs)
					return
				}
				c.Count("accessor_short_data_errors", 1)
				goto done
			}
			if gerr != nil || !bytes.Equal(got, cur[:n]) {
				c.Violate("accessor", "GetBytes result differs from the independent cursor", fmt.Sprintf("got %s err=%v want %s", hexs(got), gerr, hexs(cur[:n])), cs)
				return
			}
			cur = cur[n:]
		case 2:
			shape += "2"
			got, gerr := r.GetUint16()
			if len(cur) < 2 {
				hitEnd = true
				if gerr == nil {
					c.Violate("accessor", "GetUint16 succeeded on short data", fmt.Sprint(got), cs)
					return
				}
				c.Count("accessor_short_data_errors", 1)
				goto done
			}
			if gerr != nil || got != binary.BigEndian.Uint16(cur) {
				c.Violate("accessor", "GetUint16 result differs", fmt.Sprintf("got %d err=%v", got, gerr), cs)
				return
			}
			cur = cur[2:]
		case 3:
			shape += "4"
			got, gerr := r.GetUint32()
			if len(cur) < 4 {
				hitEnd = true
				if gerr == nil {
					c.Violate("accessor", "GetUint32 succeeded on short data", fmt.Sprint(got), cs)
					return
				}
				c.Count("accessor_short_data_errors", 1)
				goto done
			}
			if gerr != nil || got != binary.BigEndian.Uint32(cur) {
				c.Violate("accessor", "GetUint32 result differs", fmt.Sprintf("got %d err=%v", got, gerr), cs)
				return
			}
			cur = cur[4:]
		default:
			shape += "P"
			got, gerr := r.GetPrepareType()
			if len(cur) < 1 {
				hitEnd = true
				if gerr == nil {
					c.Violate("accessor", "GetPrepareType succeeded on empty data", fmt.Sprint(got), cs)
					return
				}
				c.Count("accessor_short_data_errors", 1)
				goto done
			}
			if gerr != nil || byte(got) != cur[0] {
				c.Violate("accessor", "GetPrepareType result differs", fmt.Sprintf("got %d err=%v", got, gerr), cs)
				return
			}
			cur = cur[1:]
		}
	}
done:
	c.Count("accessor_sequences", 1)
	c.Eval("acc "+shape, hitEnd)
	if idx < 1 {
		c.Sample(map[string]any{"monitor": "accessors", "body": hexs(body), "calls": shape})
	}
	_ = tr.Stamp
}
