package checks

import (
	"bytes"
	"context"

	"fmt"
	"github.com/jackc/pgx/v5/pgtype"
	"sort"
	"strings"

	wire "github.com/jeroenrinzema/psql-wire"
	"github.com/lib/pq/oid"

	"verifharness/core"
	"verifharness/hs"
	"verifharness/pg"
)

// C08 - Bind parameters and format codes reach the handler exactly.

type c08 struct{ base }

func init() {
	core.Register(c08{base{id: "C08", level: "exploration", quickB: 16, thoroughB: 32,
		rule:        "Parse + Describe-statement + Bind + Describe-portal + Execute + Sync with parameter counts {0,1,2,3,17,255,256,1000} (+65535 in thorough); values: empty, NUL-containing, random, typed values encoded by the harness's own text/binary encoders, SQL NULL at random subsets of positions; parameter-format vectors of the three admissible shapes (none / one / n) over {text,binary}; result-format vectors likewise over 0-6 typed columns; declared parameter OID lists; plus batches binding 2-6 portals (different parameters and format vectors) before describing/executing them in shuffled order. The statement function records count, per-parameter Format(), Value() bytes and nil-ness, and Parameter.Scan(declared oid); all are compared with what was sent. Non-trivial = contains a NULL, an empty value, a binary code or a one-code-for-all vector; distinct = (count class, format shapes, NULL placement class, types).",
		need:        []string{"binds_checked", "parameters_compared", "null_parameters", "empty_parameters", "scans_compared", "one_code_for_all", "positional_codes", "result_format_rows", "multi_bind_batches"},
		assumptions: append([]string{"NULL must be distinguishable from empty through the public accessors: Value()==nil for NULL, non-nil empty slice for the empty value; inadmissible format-code counts are not generated"}, commonAssumptions...)}})
}

type c08case struct {
	POIDs    []uint32
	PVals    []any // Go value or nil (NULL); raw []byte for untyped
	PRaw     [][]byte
	PFmts    []int16
	Loose    map[int]bool // parameters whose text a decoder may accept, complete or refuse (an abbreviated timestamp): their Scan result is not judged, their bytes are
	OddCodes bool         // number of parameter format codes is neither 0, 1 nor the number of values
	ColOIDs  []uint32
	Row      []any
	RFmts    []int16
}

type c08scan struct {
	Canon  []string
	Errs   []string
	Edited string // set when a parameter's Value() changed because the handler edited what Scan returned
}

var c08types = []uint32{pg.OIDInt4Array, pg.OIDTextArray, pg.OIDBool, pg.OIDInt2, pg.OIDInt4, pg.OIDInt8, pg.OIDFloat4, pg.OIDFloat8, pg.OIDText, pg.OIDVarchar, pg.OIDBytea, pg.OIDUUID, pg.OIDOid, pg.OIDDate, pg.OIDTimestamp, pg.OIDTimestamptz}

func c08gen(rng *core.Rng, big bool) c08case {
	k := c08case{}
	counts := []int{0, 1, 2, 3, 3, 5, 17, 255, 256, 1000}
	n := core.Pick(rng, counts)
	if rng.Intn(60) == 0 || (big && rng.Intn(40) == 0) {
		n = core.Pick(rng, []int{32767, 32768, 40000, 65535})
	}
	typed := n <= 17 && rng.Bool()
	shape := rng.Intn(3) // 0 none, 1 one, 2 n
	if n >= 1 && n <= 17 && rng.Intn(8) == 0 {
		// a code count that is neither 0, 1 nor n: the rule of the property does not cover it (PostgreSQL
		// rejects such a Bind); either a rejection or exact delivery of the values is accepted
		shape, typed = 3, false
		for j := 2 + rng.Intn(n+3); j > 0; j-- {
			k.PFmts = append(k.PFmts, int16(rng.Intn(2)))
		}
		if len(k.PFmts) == n {
			k.PFmts = append(k.PFmts, 1)
		}
		k.OddCodes = true
	}
	one := int16(rng.Intn(2))
	if shape == 1 {
		k.PFmts = []int16{one}
	}
	nullPct := core.Pick(rng, []int{0, 0, 20, 50, 100})
	for i := 0; i < n; i++ {
		f := int16(0)
		switch shape {
		case 1:
			f = one
		case 2:
			f = int16(rng.Intn(2))
			k.PFmts = append(k.PFmts, f)
		}
		o := uint32(0)
		if typed {
			o = core.Pick(rng, c08types)
		}
		k.POIDs = append(k.POIDs, o)
		if rng.Intn(100) < nullPct {
			k.PVals = append(k.PVals, nil)
			k.PRaw = append(k.PRaw, nil)
			continue
		}
		if typed {
			v := genValue(rng, o)
			if o == pg.OIDInt4Array && rng.Intn(3) == 0 {
				// many short elements: the densest text form an array can have (two bytes per element)
				a := make([]int32, 4+rng.Intn(20))
				for j := range a {
					a[j] = int32(rng.Intn(10))
				}
				v = a
			}
			k.PVals = append(k.PVals, v)
			raw := pg.Encode(o, f, v)
			if (o == pg.OIDTimestamp || o == pg.OIDTimestamptz) && f == 0 && rng.Intn(3) == 0 {
				// a date where a timestamp is declared, a timestamp without seconds: whatever the decoder makes
				// of it, it is this parameter's business alone
				raw = []byte(core.Pick(rng, []string{"2024-02-29", "1999-12-31", "2024-02-29 10:00", "2024-02-29T10:00:00", "20240229", "2024-02-29 "}))
				if k.Loose == nil {
					k.Loose = map[int]bool{}
				}
				k.Loose[i] = true
			}
			if a, ok := v.([]int32); ok && f == 0 && len(a) > 0 && rng.Bool() {
				// the same array with an explicit dimension decoration (lower bound 0 or -2)
				lb := core.Pick(rng, []int{0, -2, 1, 5})
				raw = []byte(fmt.Sprintf("[%d:%d]=%s", lb, lb+len(a)-1, raw))
			}
			k.PRaw = append(k.PRaw, raw)
			continue
		}
		var raw []byte
		switch rng.Intn(6) {
		case 0:
			raw = []byte{}
		case 1:
			raw = []byte{0}
		case 2:
			raw = append([]byte("nul\x00inside"), rng.Bytes(rng.Intn(8))...)
		case 3:
			if n <= 17 {
				raw = rng.Bytes(1 + rng.Intn(20000))
			} else {
				raw = rng.Bytes(1 + rng.Intn(30))
			}
		default:
			raw = []byte(rng.Text(1+rng.Intn(20), true))
		}
		k.PVals = append(k.PVals, raw)
		k.PRaw = append(k.PRaw, raw)
	}
	nc := rng.Intn(7)
	for i := 0; i < nc; i++ {
		o := core.Pick(rng, scalarOIDs)
		k.ColOIDs = append(k.ColOIDs, o)
		if rng.Intn(5) == 0 {
			k.Row = append(k.Row, nil)
		} else {
			k.Row = append(k.Row, genValue(rng, o))
		}
	}
	switch rng.Intn(3) {
	case 1:
		k.RFmts = []int16{int16(rng.Intn(2))}
	case 2:
		for range k.ColOIDs {
			k.RFmts = append(k.RFmts, int16(rng.Intn(2)))
		}
	}
	return k
}

func (k c08case) sig() string {
	nulls, empties, bin := 0, 0, 0
	for i, r := range k.PRaw {
		if r == nil {
			nulls++
		} else if len(r) == 0 {
			empties++
		}
		if fmtFor(k.PFmts, i) == 1 {
			bin++
		}
	}
	cls := func(n int) string {
		switch {
		case n == 0:
			return "0"
		case n == len(k.PRaw):
			return "all"
		}
		return "some"
	}
	to := k.POIDs
	if len(to) > 17 {
		to = nil
	}
	return fmt.Sprintf("n=%d pf=%d nulls=%s empties=%s bin=%s oids=%v cols=%v rf=%v", len(k.PRaw), len(k.PFmts), cls(nulls), cls(empties), cls(bin), to, k.ColOIDs, k.RFmts)
}

func (ch c08) Run(c *core.Ctx) {
	env := hs.Start(hs.Parse, wire.MessageBufferSize(1<<22))
	defer env.Stop()
	// a second server in the same process whose connections decode int8 through a codec of their own
	// ("amount:<n>"); its connections come and go between the cases: what it registered is its own business
	envX := hs.Start(hs.Parse, wire.ExtendTypes(func(m *pgtype.Map) {
		m.RegisterType(&pgtype.Type{Name: "int8", OID: pgtype.Int8OID, Codec: c14amount{}})
	}))
	defer envX.Stop()
	other := func() {
		prog := &hs.Prog{Stmts: []*hs.Stmt{{ID: "x", Params: []oid.Oid{oid.T_int8}, Ops: []hs.Op{{K: "complete", Tag: "OK"}}}}}
		sess := &hs.Sess{Default: func(string) *hs.Prog { return prog }}
		sess.OnExec = func(ctx context.Context, _ *hs.Stmt, _ wire.DataWriter, params []wire.Parameter) {
			for _, p := range params {
				p.Scan(uint32(oid.T_int8))
			}
		}
		cl := hs.NewClient(envX.Dial(sess))
		if cl.StartupOK("other") == nil {
			cl.Step(append(append(append(pg.Parse("", "x", nil), pg.Bind("", "", nil, [][]byte{[]byte("42")}, nil)...), pg.Execute("", 0)...), pg.Sync()...))
			cl.Finish()
			c.Count("connections_of_a_second_server_with_its_own_codec", 1)
		}
	}
	n := 1300
	if c.Tier == "thorough" {
		n = 32000
	}
	for i := 0; i < n; i++ {
		if !c.Begin(i) || c.NViol() >= 10 {
			continue
		}
		rng := core.NewRng(c.Seed, "C08", c.Batch, i)
		if i%20 == 0 {
			other()
		}
		ch.runCase(c, env, c08gen(rng, c.Tier == "thorough"), i)
		if i%4 == 0 {
			ch.multiBind(c, env, rng)
		}
		if i%3 == 1 {
			ch.interrupted(c, env, rng, c08gen(rng, false))
		}
		if i%5 == 2 {
			ch.textValues(c, env, rng)
		}
	}
}

// interrupted delivers a Bind in pieces with a temporary (timeout) read error between them - what a
// listener with rolling read deadlines produces. The server may give the connection up at the first
// error or resume the read; a statement function that runs all the same receives exactly the
// parameters sent.
func (ch c08) interrupted(c *core.Ctx, env *hs.Env, rng *core.Rng, k c08case) {
	if k.OddCodes {
		return
	}
	st := &hs.Stmt{ID: "s", Params: []oid.Oid{}, Ops: []hs.Op{{K: "complete", Tag: "OK"}}}
	for _, o := range k.POIDs {
		st.Params = append(st.Params, oid.Oid(o))
	}
	sess := &hs.Sess{Progs: map[string]*hs.Prog{"q": {Stmts: []*hs.Stmt{st}}}}
	cl := hs.NewClient(env.Dial(sess))
	if err := cl.StartupOK("u"); err != nil {
		c.Violate("startup", "startup failed", err.Error(), nil)
		return
	}
	in := pg.Parse("st", "q", nil)
	bind := pg.Bind("po", "st", k.PFmts, k.PRaw, nil)
	var cuts []int
	for n := 1 + rng.Intn(3); n > 0 && len(bind) > 8; n-- {
		cuts = append(cuts, len(in)+1+rng.Intn(len(bind)-1))
	}
	sort.Ints(cuts)
	in = append(in, bind...)
	// the Execute is sent twice: bytes a resumed read takes too many are missing from the first
	in = append(append(append(in, pg.Execute("po", 0)...), pg.Execute("po", 0)...), pg.Sync()...)
	cl.C.SendCutTemp(in, cuts)
	cl.C.Quiesce()
	cs := map[string]any{"case": k.sig(), "temporary_errors_at": fmt.Sprint(cuts)}
	if hangCheck(c, cl, cs) {
		return
	}
	defer cl.Finish()
	c.Count("interrupted_binds", 1)
	for _, e := range cl.C.Events() {
		if e.Kind != "cb" || e.Name != "exec" {
			continue
		}
		rec := e.Data.(hs.ExecRec)
		c.Count("executes_after_interrupted_bind", 1)
		bad := ""
		if len(rec.Params) != len(k.PRaw) {
			bad = fmt.Sprintf("handler saw %d parameters, Bind sent %d", len(rec.Params), len(k.PRaw))
		} else {
			for i, sent := range k.PRaw {
				switch {
				case (sent == nil) != (rec.Params[i] == nil):
					bad = fmt.Sprintf("parameter %d: NULL and value confused", i)
				case string(sent) != string(rec.Params[i]):
					bad = fmt.Sprintf("parameter %d: got %s want %s", i, hexs(rec.Params[i]), hexs(sent))
				case rec.Formats[i] != fmtFor(k.PFmts, i):
					bad = fmt.Sprintf("parameter %d tagged %d want %d", i, rec.Formats[i], fmtFor(k.PFmts, i))
				}
			}
		}
		if bad != "" {
			c.Violate("interrupted", "after temporary read errors inside the Bind the statement function received other parameters", fmt.Sprintf("case %s, temporary errors at stream offsets %v: %s", trim(k.sig(), 300), cuts, bad), cs)
			return
		}
	}
	c.Eval(fmt.Sprintf("interrupted %d %s", len(cuts), k.sig()), true)
}

// multiBind binds several portals (different parameters, parameter formats and result
// formats) before describing/executing any of them, in shuffled order: every portal must
// keep exactly its own Bind's parameters and format codes.
func (ch c08) multiBind(c *core.Ctx, env *hs.Env, rng *core.Rng) {
	cols := wire.Columns{{Name: "t", Oid: oid.T_text, Width: -1}, {Name: "i", Oid: oid.T_int4, Width: -1}, {Name: "b", Oid: oid.T_bytea, Width: -1}}
	row := []any{"txt", int32(258), []byte{1, 2, 3}}
	st := &hs.Stmt{ID: "mb", Cols: cols, Params: []oid.Oid{oid.T_text, oid.T_text}, Ops: []hs.Op{{K: "row", Vals: row}, {K: "complete", Tag: "SELECT 1"}}}
	if rng.Intn(3) == 0 {
		// the statement's first Row call carries too few values (none, one, two) and is refused; the handler
		// goes on with the proper row, which is encoded the way its portal's Bind asked for
		st.Ops = append([]hs.Op{{K: "arity", Vals: row[:rng.Intn(3)]}}, st.Ops...)
		c.Count("multi_bind_batches_whose_first_row_is_refused", 1)
	}
	sess := &hs.Sess{Progs: map[string]*hs.Prog{"q": {Stmts: []*hs.Stmt{st}}}}
	cl := hs.NewClient(env.Dial(sess))
	if err := cl.StartupOK("u"); err != nil {
		return
	}
	defer cl.Finish()
	n := 2 + rng.Intn(5)
	nrejected := 0
	type pb struct {
		name   string
		params [][]byte
		pf, rf []int16
	}
	var ps []pb
	long := rng.Intn(4) == 0
	var in []byte
	var parts [][]byte
	add := func(m []byte) { in = append(in, m...); parts = append(parts, m) }
	add(pg.Parse("s", "q", nil))
	for i := 0; i < n; i++ {
		pname := fmt.Sprintf("p%d", i)
		if long {
			pname = strings.Repeat("portal-name-", 6)[:63] + fmt.Sprintf("-%d", i) // (names that differ only behind their 63rd byte)
		}
		b := pb{name: pname, params: [][]byte{[]byte(fmt.Sprintf("portal-%d", i)), rng.Bytes(1 + rng.Intn(12))}}
		switch rng.Intn(3) {
		case 1:
			b.pf = []int16{int16(rng.Intn(2))}
		case 2:
			b.pf = []int16{int16(rng.Intn(2)), int16(rng.Intn(2))}
		}
		switch rng.Intn(3) {
		case 1:
			b.rf = []int16{int16(rng.Intn(2))}
		case 2:
			b.rf = []int16{int16(rng.Intn(2)), int16(rng.Intn(2)), int16(rng.Intn(2))}
		}
		ps = append(ps, b)
		add(pg.Bind(b.name, "s", b.pf, b.params, b.rf))
	}
	if rng.Intn(3) == 0 {
		// Binds that are rejected (unsupported format code / unknown statement) naming portals that
		// are already bound: the earlier definitions stay as they were
		add(pg.Sync())
		for _, b := range ps {
			bad := [][]byte{[]byte("REJECTED-" + b.name), []byte("rejected")}
			if rng.Bool() {
				add(pg.Bind(b.name, "s", []int16{7}, bad, nil))
			} else {
				add(pg.Bind(b.name, "no-such-statement", nil, bad[:1+rng.Intn(2)], nil))
			}
			add(pg.Sync())
		}
		nrejected = n
	}
	withOversize := rng.Intn(3) == 0
	if withOversize {
		// a rejected oversized message between Bind and Execute must not disturb bound portals
		add(pg.Sync())
		add(pg.Raw(core.Pick(rng, []byte("QBPd")), bytes.Repeat([]byte{'X'}, 1<<22+1+rng.Intn(5000))))
		add(pg.Sync())
	}
	order := make([]int, n)
	for i := range order {
		order[i] = i
	}
	rngShuffle(rng, order)
	for _, i := range order {
		add(pg.Describe('P', ps[i].name))
		add(pg.Execute(ps[i].name, 0))
	}
	add(pg.Sync())
	// a third of the batches arrive message by message, the client staying silent for a long while after
	// each one (virtual time: whatever idle deadline the server has set passes) - a portal keeps its Bind's
	// values however long the client takes before it uses it
	var out []byte
	var closed bool
	if rng.Intn(3) == 0 {
		for _, m := range parts {
			var o []byte
			o, closed = cl.Step(m)
			out = append(out, o...)
			cl.C.Pause()
			o, closed = cl.Wait()
			out = append(out, o...)
			if closed || cl.Hung {
				break
			}
		}
		c.Count("multi_bind_batches_delivered_with_pauses", 1)
	} else {
		out, closed = cl.Step(in)
	}
	cs := map[string]any{"multi_bind_portals": n}
	msgs, err := parseAll(out)
	want := "1" + strings.Repeat("2", n) + strings.Repeat("TDC", n) + "Z"
	skip := 1 + n
	if withOversize {
		want = "1" + strings.Repeat("2", n) + "Z" + "EZ" + "Z" + strings.Repeat("TDC", n) + "Z"
		skip = 1 + n + 4
		if t := pg.Types(msgs); strings.HasPrefix(t, "1"+strings.Repeat("2", n)+"ZEZ"+"TDC") {
			want = t // E with its own ReadyForQuery for a non-Query oversized message, then no extra Z: also admissible
		}
	}
	if nrejected > 0 {
		c.Count("rejected_rebinds", int64(nrejected))
	}
	if err != nil || closed || (pg.Types(msgs) != want && !withOversize && nrejected == 0) || ((withOversize || nrejected > 0) && !strings.HasSuffix(pg.Types(msgs), strings.Repeat("TDC", n)+"Z")) {
		c.Violate("multi-bind", "multi-portal batch transcript", fmt.Sprintf("%v closed=%v got %s want %s", err, closed, pg.Types(msgs), want), cs)
		return
	}
	var execs []hs.ExecRec
	for _, e := range cl.C.Events() {
		if e.Kind == "cb" && e.Name == "exec" {
			execs = append(execs, e.Data.(hs.ExecRec))
		}
	}
	c.Count("multi_bind_batches", 1)
	c.Eval(fmt.Sprintf("multibind n=%d", n), true)
	for k, i := range order {
		b := ps[i]
		desc, drow := msgs[len(msgs)-1-3*(n-k)], msgs[len(msgs)-1-3*(n-k)+1]
		_ = skip
		for j := range cols {
			wf := fmtFor(b.rf, j)
			if desc.Cols[j].Format != wf {
				c.Violate("multi-bind", "portal describes with another Bind's result format codes", fmt.Sprintf("portal %s column %d announced %d, its Bind asked for %d (%d portals bound before use)", b.name, j, desc.Cols[j].Format, wf, n), cs)
				return
			}
			got, derr := pg.Decode(uint32(cols[j].Oid), wf, drow.Fields[j])
			if wantC := pg.Canon(uint32(cols[j].Oid), row[j]); derr != nil || got != wantC {
				c.Violate("multi-bind", "portal encodes rows with another Bind's result format codes", fmt.Sprintf("portal %s column %d: %v got %s want %s", b.name, j, derr, got, wantC), cs)
				return
			}
		}
		if k >= len(execs) || len(execs[k].Params) != 2 || string(execs[k].Params[0]) != string(b.params[0]) || string(execs[k].Params[1]) != string(b.params[1]) {
			c.Violate("multi-bind", "portal executes with another Bind's parameters", fmt.Sprintf("portal %s", b.name), cs)
			return
		}
		for j := 0; j < 2; j++ {
			if execs[k].Formats[j] != fmtFor(b.pf, j) {
				c.Violate("multi-bind", "portal executes with another Bind's parameter format codes", fmt.Sprintf("portal %s parameter %d", b.name, j), cs)
				return
			}
		}
	}
}

func (ch c08) runCase(c *core.Ctx, env *hs.Env, k c08case, idx int) {
	cs := map[string]any{"case": k.sig()}
	viol := func(rule, sig, detail string) {
		c.Violate(rule, sig, fmt.Sprintf("case %s: %s", trim(k.sig(), 300), detail), cs)
	}
	st := &hs.Stmt{ID: "s"}
	for _, o := range k.POIDs {
		st.Params = append(st.Params, oid.Oid(o))
	}
	if st.Params == nil {
		st.Params = []oid.Oid{}
	}
	if len(k.ColOIDs) > 0 {
		st.Cols = wire.Columns{}
		for j, o := range k.ColOIDs {
			st.Cols = append(st.Cols, wire.Column{Name: fmt.Sprintf("c%d", j), Oid: oid.Oid(o), Width: -1})
		}
		st.Ops = append(st.Ops, hs.Op{K: "row", Vals: k.Row})
	}
	st.Ops = append(st.Ops, hs.Op{K: "complete", Tag: "SELECT 1"})
	sess := &hs.Sess{Progs: map[string]*hs.Prog{"q": {Stmts: []*hs.Stmt{st}}}}
	// the text of the statement may contain markers: what Describe announces are the declared types
	c08q := "q"
	if len(k.PRaw)%2 == 1 || len(k.PRaw) == 0 {
		c08q = "q where a = ? and b = $2 or c ? 'key' /* $7 */"
		sess.Progs[c08q] = sess.Progs["q"]
	}
	sess.OnExec = func(ctx context.Context, _ *hs.Stmt, _ wire.DataWriter, params []wire.Parameter) {
		var sc c08scan
		for i, p := range params {
			if i >= len(k.POIDs) || k.POIDs[i] == 0 {
				sc.Canon = append(sc.Canon, "")
				sc.Errs = append(sc.Errs, "")
				continue
			}
			v, err := p.Scan(k.POIDs[i])
			if err != nil {
				sc.Canon = append(sc.Canon, "")
				sc.Errs = append(sc.Errs, err.Error())
				continue
			}
			if v == nil {
				sc.Canon = append(sc.Canon, "NULL")
			} else {
				sc.Canon = append(sc.Canon, pg.Canon(k.POIDs[i], v))
			}
			if b, ok := v.([]byte); ok {
				// what Scan returned is the handler's: it decrypts / unmasks it in place
				for j := range b {
					b[j] ^= 0x5a
				}
			}
			sc.Errs = append(sc.Errs, "")
		}
		// ... and the parameters are still what the client sent
		for i, p := range params {
			if i < len(k.PRaw) && string(p.Value()) != string(k.PRaw[i]) {
				sc.Edited = fmt.Sprintf("parameter %d: Value() is %s after the parameters were scanned, sent %s", i, hexs(p.Value()), hexs(k.PRaw[i]))
			}
		}
		hs.ConnOf(ctx).CB("scan", sc)
	}
	cl := hs.NewClient(env.Dial(sess))
	if err := cl.StartupOK("u"); err != nil {
		viol("startup", "startup failed", err.Error())
		return
	}
	var in []byte
	reparse := len(k.PRaw) <= 17
	if reparse {
		// the name is first defined by another statement (other declared types) and described;
		// the second Parse replaces it: Describe must announce the new declaration
		sess.Progs["q0"] = &hs.Prog{Stmts: []*hs.Stmt{{ID: "s0", Params: []oid.Oid{oid.T_int8, oid.T_bool, oid.T_text}, Ops: []hs.Op{{K: "complete", Tag: "OK"}}}}}
		in = append(in, pg.Parse("st", "q0", nil)...)
		in = append(in, pg.Describe('S', "st")...)
	}
	// the client may prespecify parameter types in Parse (any number, zero = unspecified); Describe
	// announces the declared types all the same
	var pre []uint32
	if len(k.PRaw) <= 17 && len(k.PRaw)%3 != 0 {
		h := core.H64(k.sig())
		for j := int(h % uint64(len(k.PRaw)+3)); j > 0; j-- {
			h = h*6364136223846793005 + 1442695040888963407
			pre = append(pre, []uint32{0, 23, 25, 20, 1043, 16, 2950}[(h>>33)%7])
		}
		c.Count("parse_with_prespecified_types", 1)
	}
	in = append(in, pg.Parse("st", c08q, pre)...)
	in = append(in, pg.Describe('S', "st")...)
	in = append(in, pg.Bind("po", "st", k.PFmts, k.PRaw, k.RFmts)...)
	in = append(in, pg.Describe('P', "po")...)
	in = append(in, pg.Execute("po", 0)...)
	twice := idx%3 == 0
	if twice {
		// the portal is executed a second time: it is still that Bind's portal (the handler's record
		// compared below is the one of the last execution)
		in = append(in, pg.Execute("po", 0)...)
		c.Count("portals_executed_twice", 1)
	}
	in = append(in, pg.Sync()...)
	out, closed := cl.Step(in)
	if hangCheck(c, cl, cs) {
		return
	}
	defer cl.Finish()
	nt := false
	msgs, err := parseAll(out)
	if err != nil {
		viol("grammar", "reply not well-formed", err.Error())
		return
	}
	if closed {
		viol("dropped", "connection dropped on Bind", "reply "+replyKinds(out))
		return
	}
	if reparse {
		if len(msgs) < 3 || pg.Types(msgs[:3]) != "1tn" || len(msgs[1].OIDs) != 3 {
			viol("transcript", "first definition of the statement not described", trim(replyKinds(out), 200))
			return
		}
		msgs = msgs[3:]
	}
	want := "1t"
	if len(k.ColOIDs) > 0 {
		want += "T2TDCZ"
	} else {
		want += "n2nCZ"
	}
	if twice {
		want = strings.Replace(strings.Replace(want, "DCZ", "DCDCZ", 1), "nCZ", "nCCZ", 1)
	}
	if k.OddCodes {
		c.Count("odd_code_counts", 1)
		if t := pg.Types(msgs); t == "1tEZ" {
			c.Count("odd_code_counts_rejected", 1)
			c.Eval(k.sig(), true)
			return
		}
	}
	if pg.Types(msgs) != want {
		viol("transcript", "got "+pg.Types(msgs)+" want "+want, trim(replyKinds(out), 400))
		return
	}
	// ParameterDescription = declared types
	pd := msgs[1]
	if len(pd.OIDs) != len(k.POIDs) {
		viol("paramdesc", "ParameterDescription count differs from declared parameters", fmt.Sprintf("%d vs %d", len(pd.OIDs), len(k.POIDs)))
		return
	}
	for i, o := range k.POIDs {
		if pd.OIDs[i] != o {
			viol("paramdesc", "ParameterDescription oid differs", fmt.Sprintf("parameter %d: %d want %d", i, pd.OIDs[i], o))
			return
		}
	}
	// parameters as seen by the statement function
	var rec *hs.ExecRec
	var sc *c08scan
	for _, e := range cl.C.Events() {
		if e.Kind == "cb" && e.Name == "exec" {
			r := e.Data.(hs.ExecRec)
			rec = &r
		}
		if e.Kind == "cb" && e.Name == "scan" {
			s := e.Data.(c08scan)
			sc = &s
		}
	}
	if rec == nil || sc == nil {
		viol("trace", "statement function did not run", "")
		return
	}
	if sc.Edited != "" {
		viol("value", "a parameter's bytes changed while the handler scanned the parameters (and edited in place what Scan had returned): Scan results and parameters share memory, or a Scan wrote into its neighbour", sc.Edited)
		return
	}
	if len(rec.Params) != len(k.PRaw) {
		viol("count", "parameter count differs", fmt.Sprintf("handler saw %d, Bind sent %d", len(rec.Params), len(k.PRaw)))
		return
	}
	c.Count("binds_checked", 1)
	switch len(k.PFmts) {
	case 1:
		c.Count("one_code_for_all", 1)
		nt = true
	case 0:
	default:
		c.Count("positional_codes", 1)
	}
	for i, sent := range k.PRaw {
		c.Count("parameters_compared", 1)
		got := rec.Params[i]
		wf := fmtFor(k.PFmts, i)
		if wf == 1 {
			nt = true
		}
		if k.OddCodes {
			wf = rec.Formats[i] // not covered by the rule
		}
		if rec.Formats[i] != wf {
			viol("format", fmt.Sprintf("parameter format tag wrong (codes sent: %d)", len(k.PFmts)), fmt.Sprintf("parameter %d tagged %d want %d", i, rec.Formats[i], wf))
			return
		}
		if sent == nil {
			c.Count("null_parameters", 1)
			nt = true
			if got != nil {
				viol("null", "NULL parameter not distinguished", fmt.Sprintf("parameter %d: NULL arrived as %q", i, got))
				return
			}
		} else {
			if len(sent) == 0 {
				c.Count("empty_parameters", 1)
				nt = true
			}
			if got == nil {
				viol("null", "non-NULL parameter arrived as NULL", fmt.Sprintf("parameter %d (%d bytes)", i, len(sent)))
				return
			}
			if string(got) != string(sent) {
				viol("value", "parameter bytes differ", fmt.Sprintf("parameter %d: got %s want %s", i, hexs(got), hexs(sent)))
				return
			}
		}
		if k.Loose[i] {
			c.Count("abbreviated_timestamps_next_to_other_parameters", 1)
		} else if k.POIDs[i] != 0 {
			c.Count("scans_compared", 1)
			wantC := "NULL"
			if sent != nil {
				wantC = pg.Canon(k.POIDs[i], k.PVals[i])
			}
			if sc.Errs[i] != "" {
				viol("scan", fmt.Sprintf("Scan failed (oid=%d fmt=%d)", k.POIDs[i], wf), fmt.Sprintf("parameter %d: %s; bytes %s", i, sc.Errs[i], hexs(sent)))
				return
			}
			if sc.Canon[i] != wantC {
				viol("scan", fmt.Sprintf("Scan result differs (oid=%d fmt=%d)", k.POIDs[i], wf), fmt.Sprintf("parameter %d: got %s want %s", i, trim(sc.Canon[i], 100), trim(wantC, 100)))
				return
			}
		}
	}
	// result formats
	if len(k.ColOIDs) > 0 {
		c.Count("result_format_rows", 1)
		sd, pdsc, row := msgs[2], msgs[4], msgs[5]
		for j := range k.ColOIDs {
			if sd.Cols[j].Format != 0 {
				viol("stmt-desc-format", "statement Describe announced a non-zero format code", fmt.Sprint(sd.Cols[j].Format))
				return
			}
			wf := fmtFor(k.RFmts, j)
			if pdsc.Cols[j].Format != wf {
				viol("result-format", fmt.Sprintf("portal Describe format code wrong (codes sent: %d)", len(k.RFmts)), fmt.Sprintf("column %d announced %d want %d", j, pdsc.Cols[j].Format, wf))
				return
			}
			f := row.Fields[j]
			if k.Row[j] == nil {
				if f != nil {
					viol("result-null", "NULL column sent as value", "")
					return
				}
				continue
			}
			got, derr := pg.Decode(k.ColOIDs[j], wf, f)
			wantC := pg.Canon(k.ColOIDs[j], k.Row[j])
			if derr != nil || got != wantC {
				viol("result-encoding", fmt.Sprintf("DataRow encoding does not follow the announced format (oid=%d fmt=%d)", k.ColOIDs[j], wf), fmt.Sprintf("column %d: got %s (%v) want %s bytes %s", j, trim(got, 100), derr, trim(wantC, 100), hexs(f)))
				return
			}
		}
	}
	c.Eval(k.sig(), nt)
	if idx < 2 {
		c.Sample(map[string]any{"case": k.sig(), "reply": trim(replyKinds(out), 200)})
	}
}

// textValues: the statement hands its values over as text (a Go string holding the type's text form - what
// a handler that relays rows from elsewhere has in hand) while the Bind asks for some columns in binary.
// The server may refuse such a row (the pinned tree does where it has no plan to encode a string in binary);
// a DataRow that does arrive is encoded the way the portal's description announces.
func (ch c08) textValues(c *core.Ctx, env *hs.Env, rng *core.Rng) {
	oids := []uint32{pg.OIDInt2, pg.OIDInt4, pg.OIDInt8, pg.OIDFloat8, pg.OIDBool, pg.OIDUUID, pg.OIDTimestamp, pg.OIDDate, pg.OIDText}
	n := 1 + rng.Intn(3)
	var cols wire.Columns
	var typed, row []any
	var colOIDs []uint32
	var rf []int16
	for j := 0; j < n; j++ {
		o := core.Pick(rng, oids)
		v := genValue(rng, o)
		colOIDs = append(colOIDs, o)
		cols = append(cols, wire.Column{Name: fmt.Sprintf("c%d", j), Oid: oid.Oid(o), Width: -1})
		typed = append(typed, v)
		if rng.Intn(3) == 0 {
			row = append(row, v) // handed over as a typed value, next to the ones handed over as text
		} else {
			row = append(row, string(pg.Encode(o, 0, v)))
		}
		rf = append(rf, int16(rng.Intn(3)/2+rng.Intn(2))%2)
	}
	if rng.Intn(3) == 0 {
		rf = []int16{1}
	}
	st := &hs.Stmt{ID: "s", Params: []oid.Oid{}, Cols: cols, Ops: []hs.Op{{K: "row", Vals: row}, {K: "complete", Tag: "SELECT 1"}}}
	sess := &hs.Sess{Progs: map[string]*hs.Prog{"q": {Stmts: []*hs.Stmt{st}}}}
	cl := hs.NewClient(env.Dial(sess))
	if err := cl.StartupOK("u"); err != nil {
		c.Violate("startup", "startup failed", err.Error(), nil)
		return
	}
	in := append(pg.Parse("", "q", nil), pg.Bind("", "", nil, nil, rf)...)
	in = append(append(append(in, pg.Describe('P', "")...), pg.Execute("", 0)...), pg.Sync()...)
	out, _ := cl.Step(in)
	cl.Finish()
	msgs, _, err := pg.ParseStream(out)
	cs := map[string]any{"workload": "values handed over as text", "oids": colOIDs, "result_formats": rf}
	kinds := pg.Types(msgs)
	if err != nil || !strings.HasPrefix(kinds, "12T") {
		c.Violate("reply", "Parse/Bind/Describe of a statement with text-valued rows not answered 1 2 T", fmt.Sprintf("%v %s", err, replyKinds(out)), cs)
		return
	}
	c.Count("rows_handed_over_as_text", 1)
	desc := msgs[2]
	for _, m := range msgs[3:] {
		if m.T != 'D' {
			continue
		}
		c.Count("rows_handed_over_as_text_delivered", 1)
		for j := range colOIDs {
			if j >= len(m.Fields) || j >= len(desc.Cols) {
				c.Violate("result-encoding", "DataRow of a text-valued row has the wrong number of fields", replyKinds(out), cs)
				return
			}
			wf := desc.Cols[j].Format
			if wf != fmtFor(rf, j) {
				c.Violate("result-format", "portal Describe format code wrong (text-valued row)", fmt.Sprintf("column %d announced %d want %d", j, wf, fmtFor(rf, j)), cs)
				return
			}
			got, derr := pg.Decode(colOIDs[j], wf, m.Fields[j])
			if want := pg.Canon(colOIDs[j], typed[j]); derr != nil || got != want {
				c.Violate("result-encoding", fmt.Sprintf("a value handed over as text arrives in another encoding than announced (oid=%d fmt=%d)", colOIDs[j], wf), fmt.Sprintf("column %d: decodes to %s (%v), the value is %s; bytes %s", j, trim(got, 100), derr, trim(want, 100), hexs(m.Fields[j])), cs)
				return
			}
		}
	}
	c.Eval(fmt.Sprintf("text values %v %v", colOIDs, rf), true)
}
