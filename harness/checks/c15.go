package checks

import (
	"bytes"
	"context"
	"errors"
	"fmt"
	"sort"
	"strings"
	"sync"
	"time"

	"github.com/jackc/pgx/v5/pgtype"
	wire "github.com/jeroenrinzema/psql-wire"
	"github.com/lib/pq/oid"

	"verifharness/core"
	"verifharness/hs"
	"verifharness/pg"
	"verifharness/tr"
)

// C15 - Concurrent connections are isolated and free of data races.

type c15 struct{ base }

func init() {
	core.Register(c15{base{id: "C15", race: true, level: "exploration", quickB: 16, thoroughB: 32,
		rule:        "groups of 2-24 client sessions (different users; typed result tables in text and binary via simple and extended protocol; extended histories over the same statement/portal names; binary COPY-in; failing queries; oversized messages; on half of the groups a server-registered custom type; a type every connection registers on its own type map in a session middleware, whose codec stamps decoded COPY values with the connection's user; a quarter of the sessions run behind a middleware that detaches the context from the library's (whatever then fails must fail alone and together alike, and must not fall back to state shared with other connections); short-lived CancelRequest / SSLRequest / truncated-startup / empty connections before and during the sessions) (some steps prepare statements over a query text shared by all connections of the group, declared through wire.ParseParameters, with per-connection prespecified parameter types) are first served one at a time on a fresh server (solo reference; repeated in reverse order on another fresh server - the two solo runs must agree) and then all at once on another fresh server, 3 (quick) / 5 (thorough) times with different yield-injection seeds at every transport Read/Write; every connection's per-step reply bytes and callback trace must equal its solo run (ParameterStatus compared as a multiset); the binary runs under the Go race detector and any report with a library frame is a violation. Non-trivial = group whose global event order interleaves at least two connections; distinct = hash of the global (connection, event-kind) order observed.",
		need:        []string{"per_connection_type_values", "groups", "concurrent_sessions", "steps_compared", "distinct_interleavings", "race_detector_active_batches", "custom_type_rows", "copy_sessions", "solo_order_comparisons", "resting_clients_compared_alone_and_among_busy_neighbours"},
		assumptions: append([]string{"handler programs are deterministic functions of the query text, so a connection's solo transcript is the reference for its concurrent transcript"}, commonAssumptions...)}})
}

const c15customOID = 99001

// c15connOID: a type each connection registers for itself (session middleware, on the connection's own
// type map) with a codec that stamps decoded values with the connection's user: a value decoded
// through another connection's map carries the wrong stamp.
const c15connOID = 99002

type c15connCodec struct {
	pgtype.TextCodec
	tag string
}

func (c c15connCodec) DecodeValue(m *pgtype.Map, oid uint32, format int16, src []byte) (any, error) {
	if src == nil {
		return nil, nil
	}
	return c.tag + "|" + string(src), nil
}

type c15session struct {
	User   string
	Params [][2]string // further start-up parameters, as real drivers send them
	// WantExec: statement id -> the trace entry every execution of that statement must show (the
	// parameters of the Bind its portal came from, whatever was sent between Bind and Execute)
	WantExec map[string]string
	Progs    map[string]*hs.Prog
	Steps    [][]byte
	Kinds    []string
	// TempN > 0: step TempStep reaches the server in TempN+1 pieces with a temporary (timeout) read error
	// between them. Whether the server gives the connection up there or resumes is its own business - as
	// long as it does the same whoever else is connected.
	TempStep, TempN int
}

func c15gen(rng *core.Rng, tag string, custom bool) c15session {
	return c15genShared(rng, tag, custom, "")
}

// c15genShared: with a non-empty group tag some steps prepare statements whose query text is
// shared by every connection of the group.
func c15genShared(rng *core.Rng, tag string, custom bool, group string) c15session {
	s := c15session{User: "user_" + tag, Progs: map[string]*hs.Prog{}}
	nsteps := 2 + rng.Intn(7)
	for i := 0; i < nsteps; i++ {
		id := fmt.Sprintf("%s.%d", tag, i)
		if group != "" && rng.Intn(5) == 0 {
			// same text on all connections; declared parameters come from wire.ParseParameters;
			// each connection prespecifies its own parameter types in Parse
			q := fmt.Sprintf("shared %s select $1, $2, $%d", group, 3+rng.Intn(2))
			s.Progs[q] = &hs.Prog{Stmts: []*hs.Stmt{{ID: "shared", ParseParams: true, Cols: textCols(1), Ops: []hs.Op{{K: "row", Vals: []any{"shared"}}, {K: "complete", Tag: "SELECT 1"}}}}}
			var oids []uint32
			for j := rng.Intn(4); j > 0; j-- {
				oids = append(oids, core.Pick(rng, []uint32{23, 25, 20, 1043, 16}))
			}
			var in []byte
			in = append(in, pg.Parse("sh", q, oids)...)
			in = append(in, pg.Describe('S', "sh")...)
			in = append(in, pg.Sync()...)
			s.Steps = append(s.Steps, in)
			s.Kinds = append(s.Kinds, "shared-text")
			continue
		}
		if rng.Intn(12) == 0 {
			// a one-column result of a type without a text form (record), asked for in the default format, and a
			// one-column text result right after it: whatever the first gets, the second is text
			rq, tq := "R "+id, "T1 "+id
			s.Progs[rq] = &hs.Prog{Stmts: []*hs.Stmt{{ID: "record:" + id, Cols: wire.Columns{{Name: "rec", Oid: oid.T_record, Width: -1}}, Params: []oid.Oid{},
				Ops: []hs.Op{{K: "row", Vals: []any{[]any{int32(1), "a"}}}, {K: "complete", Tag: "SELECT 1"}}}}}
			s.Progs[tq] = &hs.Prog{Stmts: []*hs.Stmt{{ID: "t" + id, Cols: wire.Columns{{Name: "n", Oid: oid.T_int4, Width: 4}}, Params: []oid.Oid{},
				Ops: []hs.Op{{K: "row", Vals: []any{int32(42)}}, {K: "complete", Tag: "SELECT 1"}}}}}
			s.Steps = append(s.Steps, append(pg.Query(rq), pg.Query(tq)...))
			s.Kinds = append(s.Kinds, "record-column")
			continue
		}
		if rng.Intn(6) == 0 {
			// portal life cycle: bind with parameters (NULLs, binary codes, a large value now and then),
			// describe, execute twice, close, execute the closed portal, multi-statement and empty queries
			q := "L " + id
			cols := wire.Columns{{Name: "v", Oid: oid.T_text, Width: -1}}
			if rng.Intn(4) == 0 {
				cols = nil
			}
			ops := []hs.Op{{K: "complete", Tag: "OK " + id}}
			if cols != nil {
				ops = append([]hs.Op{{K: "row", Vals: []any{"row-" + id}}}, ops...)
			}
			if rng.Intn(5) == 0 {
				ops = []hs.Op{{K: "err", Err: &hs.ErrSpec{Base: "exec failure " + id, Wraps: []hs.Wrap{{K: 'c', S: "22003"}}}}}
			}
			s.Progs[q] = &hs.Prog{Stmts: []*hs.Stmt{{ID: id, Cols: cols, Params: []oid.Oid{oid.T_text, oid.T_int4}, Ops: ops}}}
			big := []byte("p-" + id)
			if rng.Intn(3) == 0 {
				big = bytes.Repeat([]byte("large-parameter-"), 300+rng.Intn(300))
			}
			params := [][]byte{big, nil}
			if rng.Bool() {
				params[1] = []byte{0, 0, 1, 2}
			}
			var in []byte
			in = append(in, pg.Parse("ls", q, []uint32{25})...)
			in = append(in, pg.Describe('S', "ls")...)
			in = append(in, pg.Bind("lp", "ls", []int16{0, 1}, params, []int16{int16(rng.Intn(2))})...)
			if s.WantExec == nil {
				s.WantExec = map[string]string{}
			}
			s.WantExec[id] = fmt.Sprintf("exec:%s:%q", id, params)
			if rng.Intn(3) == 0 {
				// between Bind and Execute: another portal of the same statement with parameters of the same
				// sizes, and a Parse longer than the Bind - the first portal keeps its own parameters
				other := [][]byte{bytes.Repeat([]byte{'B'}, len(big)), {9, 9, 9, 9}}
				in = append(in, pg.Bind("lp2", "ls", []int16{0, 1}, other, nil)...)
				lq := "LX " + id + " " + strings.Repeat("later traffic ", 3+len(big)/10)
				s.Progs[lq] = &hs.Prog{Stmts: []*hs.Stmt{{ID: "lx-" + id, Ops: []hs.Op{{K: "complete", Tag: "OK"}}}}}
				in = append(in, pg.Parse("lx", lq, nil)...)
			}
			in = append(in, pg.Describe('P', "lp")...)
			in = append(in, pg.Execute("lp", 0)...)
			in = append(in, pg.Execute("lp", uint32(rng.Intn(3)))...)
			in = append(in, pg.Flush()...)
			in = append(in, pg.Close('P', "lp")...)
			in = append(in, pg.Execute("lp", 0)...)
			in = append(in, pg.Close('S', "ls")...)
			in = append(in, pg.Sync()...)
			in = append(in, pg.Sync()...)
			in = append(in, pg.Query("  ")...)
			s.Steps = append(s.Steps, in)
			s.Kinds = append(s.Kinds, "lifecycle")
			continue
		}
		switch k := rng.Intn(100); {
		case k < 60: // typed table
			t := c09gen(rng, false)
			cols := wire.Columns{}
			for j, o := range t.OIDs {
				cols = append(cols, wire.Column{Name: fmt.Sprintf("c%d", j), Oid: oid.Oid(o), Width: -1})
			}
			if custom && rng.Bool() {
				cols = append(cols, wire.Column{Name: "custom", Oid: c15customOID, Width: -1})
				for r := range t.Rows {
					t.Rows[r] = append(t.Rows[r], "custom-"+id)
				}
				s.Kinds = append(s.Kinds, "custom")
			}
			st := &hs.Stmt{ID: id, Cols: cols, Params: []oid.Oid{}}
			for _, r := range t.Rows {
				st.Ops = append(st.Ops, hs.Op{K: "row", Vals: r})
			}
			st.Ops = append(st.Ops, hs.Op{K: "complete", Tag: "SELECT " + id})
			q := "T " + id
			s.Progs[q] = &hs.Prog{Stmts: []*hs.Stmt{st}}
			if t.Mode == "simple" {
				s.Steps = append(s.Steps, pg.Query(q))
			} else {
				rf := t.RFmts
				if len(rf) > 1 && len(rf) != len(cols) {
					rf = rf[:1]
				}
				var in []byte
				in = append(in, pg.Parse("a", q, nil)...)
				in = append(in, pg.Bind("a", "a", nil, nil, rf)...)
				in = append(in, pg.Describe('P', "a")...)
				in = append(in, pg.Execute("a", 0)...)
				in = append(in, pg.Sync()...)
				s.Steps = append(s.Steps, in)
			}
			s.Kinds = append(s.Kinds, "table")
		case k < 80: // extended history over shared names
			h := randHistory(rng, id, 8, false)
			h = append(h, xMsg{K: "sync"})
			var in []byte
			for _, m := range h {
				if (m.K == "parse" || m.K == "query") && m.Prog != nil {
					// statement panics are contained only in Execute; keep them out of simple queries (done by randHistory)
					s.Progs[m.Query] = m.Prog
				}
				in = append(in, m.bytes()...)
			}
			s.Steps = append(s.Steps, in)
			s.Kinds = append(s.Kinds, "history")
		case k < 88: // binary COPY-in
			t := c14gen(rng, true)
			if rng.Bool() {
				// array columns: decoded through the connection's type map (scan plans are memoised there)
				for n := 1 + rng.Intn(2); n > 0; n-- {
					ao := core.Pick(rng, arrayOIDs)
					t.OIDs = append(t.OIDs, ao)
					for r := range t.Rows {
						var v any
						if rng.Intn(4) != 0 {
							v = genValue(rng, ao)
						}
						t.Rows[r] = append(t.Rows[r], v)
					}
				}
			}
			if group != "" && rng.Bool() {
				// a column of the type this connection registered for itself
				t.OIDs = append(t.OIDs, c15connOID)
				if len(t.Rows) == 0 {
					t.Rows = append(t.Rows, make([]any, len(t.OIDs)-1))
				}
				for r := range t.Rows {
					t.Rows[r] = append(t.Rows[r], fmt.Sprintf("cv-%s-%d", id, r))
				}
			}
			cols := wire.Columns{}
			for j, o := range t.OIDs {
				cols = append(cols, wire.Column{Name: fmt.Sprintf("c%d", j), Oid: oid.Oid(o), Width: -1})
			}
			q := "COPY " + id
			s.Progs[q] = &hs.Prog{Stmts: []*hs.Stmt{{ID: id, Cols: cols, Ops: []hs.Op{{K: "copy", Copy: &hs.CopyPlan{Format: wire.BinaryFormat, MaxReads: -1, OnErr: "propagate", Binary: true}}}}}}
			stream, _ := t.encode()
			in := pg.Query(q)
			cut := 1 + rng.Intn(len(stream)-1)
			in = append(in, pg.CopyData(stream[:cut])...)
			in = append(in, pg.CopyData(stream[cut:])...)
			in = append(in, pg.CopyDone()...)
			s.Steps = append(s.Steps, in)
			s.Kinds = append(s.Kinds, "copy")
		case k < 95: // failing query with decorated error
			q := "ERR " + id
			s.Progs[q] = &hs.Prog{Err: &hs.ErrSpec{Base: "failure " + id, Wraps: []hs.Wrap{{K: 'c', S: "22012"}, {K: 'h', S: "hint " + id}}}}
			s.Steps = append(s.Steps, pg.Query(q))
			s.Kinds = append(s.Kinds, "error")
		default: // oversized message, then a normal query
			q := "T " + id
			s.Progs[q] = &hs.Prog{Stmts: []*hs.Stmt{{ID: id, Cols: textCols(1), Ops: []hs.Op{{K: "row", Vals: []any{id}}, {K: "complete", Tag: "SELECT 1"}}}}}
			s.Steps = append(s.Steps, append(pg.Raw('Q', bytes.Repeat([]byte{'z'}, 1<<16+1+rng.Intn(5000))), pg.Query(q)...))
			s.Kinds = append(s.Kinds, "oversize")
		}
	}
	// start-up parameters real drivers send (run-time settings included), in any number
	pool := [][2]string{{"database", "db_" + tag}, {"application_name", core.Pick(rng, []string{"psql", "pgx", tag})}, {"client_encoding", "UTF8"},
		{"DateStyle", "ISO, MDY"}, {"TimeZone", core.Pick(rng, []string{"UTC", "Europe/Amsterdam"})}, {"statement_timeout", core.Pick(rng, []string{"0", "1", "250", "60000"})},
		{"lock_timeout", "100"}, {"idle_in_transaction_session_timeout", "5"}, {"search_path", "public"}, {"options", core.Pick(rng, []string{"-c geqo=off", "-c search_path=public -e", "-c geqo=off -d 2", "verbose", "--application_name=x -c statement_timeout=5", "-c user=postgres", "-c", "", "  ", "-c a\\ b=c"})},
		{"extra_float_digits", core.Pick(rng, []string{"2", "3"})}, {"replication", "false"}}
	for n := rng.Intn(5); n > 0; n-- {
		s.Params = append(s.Params, pool[rng.Intn(len(pool))])
	}
	return s
}

type c15result struct {
	Startup   string // normalised startup reply
	Outs      [][]byte
	Trace     []string
	Events    []trEvent
	Err       string
	RowErrs   []string
	ConnTyped int    // COPY values decoded through the type the connection registered for itself
	Foreign   string // ... that carry another connection's stamp
}

// c15execProblem checks the exec entries of a trace against the session's WantExec.
func c15execProblem(s c15session, trace []string) string {
	for _, t := range trace {
		if !strings.HasPrefix(t, "exec:") {
			continue
		}
		for id, want := range s.WantExec {
			if strings.HasPrefix(t, "exec:"+id+":") && t != want {
				return fmt.Sprintf("a portal was executed with other parameters than its Bind carried: got %s, want %s", trim(t, 200), trim(want, 200))
			}
		}
	}
	return ""
}

func c15run(env *hs.Env, s c15session, yield func()) (r c15result, cl *hs.Client) {
	sess := &hs.Sess{Progs: s.Progs}
	conn := tr.NewConn(sess)
	conn.Yield = yield
	env.L.DialConn(conn)
	cl = hs.NewClient(conn)
	msgs, err := cl.Startup(s.User, s.Params...)
	if err != nil {
		r.Err = "startup: " + err.Error()
		return
	}
	if strings.HasPrefix(s.User, "reject") {
		// the session middleware turns this user away: the connection ends, nothing is served
		r.Startup = "rejected " + collapse(pg.Types(msgs))
		if cl.C.WaitClosed() {
			r.Startup += " closed"
		}
		for _, e := range cl.C.Events() {
			if e.Kind == "cb" {
				r.Trace = append(r.Trace, "cb:"+e.Name)
			}
		}
		return
	}
	var ps []string
	for _, m := range msgs {
		if m.T == 'S' {
			ps = append(ps, m.Key+"="+m.Val)
		}
	}
	sort.Strings(ps)
	r.Startup = collapse(pg.Types(msgs)) + " " + strings.Join(ps, ",")
	for i, in := range s.Steps {
		var out []byte
		var closed bool
		if s.TempN > 0 && i == s.TempStep && len(in) > s.TempN {
			var cuts []int
			for k := 1; k <= s.TempN; k++ {
				cuts = append(cuts, k*len(in)/(s.TempN+1))
			}
			cl.C.SendCutTemp(in, cuts)
			out, closed = cl.Wait()
		} else {
			out, closed = cl.Step(in)
		}
		r.Outs = append(r.Outs, out)
		if cl.Hung {
			// the watchdog of a wait fired: a goroutine stuck inside the library is a finding, a machine too
			// busy to schedule the step in time is not
			if _, lib := core.ClassifyHang(); len(lib) > 0 {
				r.Err = "hang: " + strings.Join(lib, "; ")
			} else {
				r.Err = "watchdog"
			}
			return
		}
		if closed {
			break
		}
	}
	cl.Finish()
	r.Events = cl.C.Events()
	for _, e := range r.Events {
		if e.Kind != "cb" {
			continue
		}
		switch e.Name {
		case "parse":
			r.Trace = append(r.Trace, "parse:"+e.Data.(hs.ParseRec).Query)
		case "exec":
			x := e.Data.(hs.ExecRec)
			r.Trace = append(r.Trace, fmt.Sprintf("exec:%s:%q", x.Stmt, x.Params))
		case "op":
			o := e.Data.(hs.OpRes)
			r.Trace = append(r.Trace, fmt.Sprintf("op:%s#%d:%v:%d", o.Stmt, o.Idx, o.ErrNil, o.Written))
			if !o.ErrNil && o.K == "row" && !strings.HasPrefix(o.Stmt, "record:") { // (a record has no text form: that row is expected to be refused)
				r.RowErrs = append(r.RowErrs, o.Err)
			}
		case "copyread":
			x := e.Data.(hs.CopyRec)
			r.Trace = append(r.Trace, fmt.Sprintf("copyread:%d:%v:%v:%d", x.Read, x.ErrNil, x.EOF, len(x.Row)))
			for _, v := range x.Row {
				if sv, ok := v.(string); ok && strings.Contains(sv, "|cv-") {
					r.ConnTyped++
					if !strings.HasPrefix(sv, s.User+"|") && r.Foreign == "" {
						r.Foreign = fmt.Sprintf("connection of user %q decoded a COPY value as %q", s.User, sv)
					}
				}
			}
		}
	}
	if p := c15execProblem(s, r.Trace); p != "" && r.Err == "" {
		r.Err = p
	}
	return
}

type c15userKey struct{}

// c15mw: three session middlewares; the first rejects users whose name starts with "reject".
func c15mw() []wire.OptionFn {
	var out []wire.OptionFn
	for i := 0; i < 3; i++ {
		i := i
		out = append(out, wire.SessionMiddleware(func(ctx context.Context) (context.Context, error) {
			if i == 0 && strings.HasPrefix(wire.AuthenticatedUsername(ctx), "reject") {
				return ctx, errors.New("this user is not welcome")
			}
			user, _ := ctx.Value(c15userKey{}).(string)
			if user == "" {
				user = wire.AuthenticatedUsername(ctx)
			}
			if i == 0 && strings.HasPrefix(user, "detach") {
				// a careless middleware: it builds its result on a fresh context and so drops everything the
				// library had put into the connection's context (type map, parameters, remote address)
				ctx = context.WithValue(context.WithValue(context.Background(), hs.ConnKey{}, hs.ConnOf(ctx)), c15userKey{}, user)
			}
			if m := wire.TypeMap(ctx); i == 1 && m != nil && !strings.HasPrefix(user, "noreg") { // (users "noreg..." leave their type map as the library made it)
				m.RegisterType(&pgtype.Type{Name: "verifconn", OID: c15connOID, Codec: c15connCodec{tag: user}})
			}
			hs.ConnOf(ctx).CB("mw", i)
			return ctx, nil
		}))
	}
	return out
}

func c15opts(custom bool) []wire.OptionFn {
	if !custom {
		return append(c15mw(), c15optsBase(custom)...)
	}
	return append(c15mw(), c15optsBase(custom)...)
}

func c15optsBase(custom bool) []wire.OptionFn {
	if !custom {
		return []wire.OptionFn{wire.GlobalParameters(wire.Parameters{"application_name": "verif-c15", "DateStyle": "ISO", "session_authorization": "nobody"}), wire.Version("15.0-verif")}
	}
	return []wire.OptionFn{wire.ExtendTypes(func(m *pgtype.Map) {
		m.RegisterType(&pgtype.Type{Name: "verifcustom", OID: c15customOID, Codec: pgtype.TextCodec{}})
	})}
}

// tlsGroup: fresh servers with certificates whose first TLS upgrades all happen at the same time (eight
// clients send their SSLRequest together): whatever the server sets up on its first upgrade, it does not
// do so in several connection goroutines at once (the race detector watches), and every client is served.
func (ch c15) tlsGroup(c *core.Ctx) {
	prog := &hs.Prog{Stmts: []*hs.Stmt{{ID: "t", Cols: textCols(1), Ops: []hs.Op{{K: "row", Vals: []any{"v"}}, {K: "complete", Tag: "SELECT 1"}}}}}
	for round := 0; round < 6; round++ {
		env := hs.Start(hs.Parse, wire.TLSConfig(hs.ServerTLS()))
		start := make(chan struct{})
		var wg sync.WaitGroup
		errs := make([]string, 8)
		for i := range errs {
			wg.Add(1)
			go func(i int) {
				defer wg.Done()
				<-start
				t, reply, err := c11upgrade(env, &hs.Sess{Default: func(string) *hs.Prog { return prog }}, nil, false, 0)
				if err != nil {
					errs[i] = fmt.Sprintf("upgrade failed (reply %q): %v", reply, err)
					return
				}
				if o, _ := t.step(append(pg.Startup([][2]string{{"user", fmt.Sprintf("tls%d", i)}}), pg.Query("t")...)); !strings.HasSuffix(pg.Types(mustMsgs(o)), "TDCZ") {
					errs[i] = "session inside TLS not served: " + replyKinds(o)
				}
				t.tc.Close()
				t.conn.CloseWrite()
				t.conn.WaitClosed()
			}(i)
		}
		close(start)
		wg.Wait()
		env.Stop()
		c.Count("simultaneous_first_tls_upgrades", int64(len(errs)))
		c.Eval(fmt.Sprintf("tls group %d", round), true)
		for i, e := range errs {
			if e != "" {
				c.Violate("tls-group", "a client upgrading at the same time as others is not served as it is alone", fmt.Sprintf("round %d client %d: %s", round, i, e), nil)
				return
			}
		}
	}
}

// listenersGroup: one server serves two listeners; sixteen clients connect through both at the same time
// (whatever the accept loops keep per connection is not kept in common without synchronisation: the race
// detector watches) and every client is served.
func (ch c15) listenersGroup(c *core.Ctx) {
	prog := &hs.Prog{Stmts: []*hs.Stmt{{ID: "t", Cols: textCols(1), Ops: []hs.Op{{K: "row", Vals: []any{"v"}}, {K: "complete", Tag: "SELECT 1"}}}}}
	for round := 0; round < 4; round++ {
		env := hs.Start(hs.Parse)
		l2 := tr.NewListener()
		serve2 := make(chan error, 1)
		go func() { serve2 <- env.Srv.Serve(l2) }()
		<-l2.Ready()
		start := make(chan struct{})
		var wg sync.WaitGroup
		errs := make([]string, 16)
		for i := range errs {
			wg.Add(1)
			go func(i int) {
				defer wg.Done()
				<-start
				l := env.L
				if i%2 == 1 {
					l = l2
				}
				cl := hs.NewClient(l.Dial(&hs.Sess{Default: func(string) *hs.Prog { return prog }}))
				if err := cl.StartupOK(fmt.Sprintf("l%d", i)); err != nil {
					errs[i] = "start-up: " + err.Error()
					return
				}
				if o, _ := cl.Step(pg.Query("t")); pg.Types(mustMsgs(o)) != "TDCZ" {
					errs[i] = "query answered " + replyKinds(o)
				}
				cl.Finish()
			}(i)
		}
		close(start)
		wg.Wait()
		env.Stop()
		<-serve2
		c.Count("connections_through_two_listeners_at_once", int64(len(errs)))
		c.Eval(fmt.Sprintf("two listeners %d", round), true)
		for i, e := range errs {
			if e != "" {
				c.Violate("listeners-group", "a client connecting while others connect through another listener of the same server is not served as it is alone", fmt.Sprintf("round %d client %d: %s", round, i, e), nil)
				return
			}
		}
	}
}

func (ch c15) Run(c *core.Ctx) {
	nb := ch.Batches(c.Tier)
	if c.Batch%4 == 2 && c.Begin(70000000) {
		ch.tlsGroup(c)
	}
	if c.Batch%4 == 3 && c.Begin(70000001) {
		ch.listenersGroup(c)
	}
	if c.Batch%4 == 0 && c.Begin(70000002) {
		ch.authGroup(c)
	}
	if c.Batch%4 == 1 && c.Begin(70000003) {
		ch.restGroup(c)
	}
	if c.Batch%4 == 2 && c.Begin(70000004) {
		ch.sharedStatements(c)
	}
	ngroups, reps := 640, 3
	if c.Tier == "thorough" {
		ngroups, reps = 20000, 5
	}
	inter := map[uint64]bool{}
	for g := c.Batch; g < ngroups; g += nb {
		if !c.Begin(g) || c.NViol() >= 10 {
			continue
		}
		rng := core.NewRng(c.Seed, "C15", 0, g)
		// in a third of the groups all peers report the same remote address (unix-domain sockets, pipes,
		// an address-hiding proxy): what is kept per connection is kept per connection, not per address
		tr.AnonAddrs.Store(g%3 == 1)
		defer tr.AnonAddrs.Store(false)
		if g%3 == 1 {
			c.Count("groups_whose_peers_share_one_remote_address", 1)
		}
		n := 2 + rng.Intn(23)
		if rng.Intn(4) == 0 {
			n = 2 + rng.Intn(3)
		}
		custom := g%2 == 0
		sessions := make([]c15session, n)
		for i := range sessions {
			sessions[i] = c15genShared(rng, fmt.Sprintf("g%dc%d", g, i), custom, fmt.Sprintf("s%dg%d", c.Seed, g))
			switch rng.Intn(8) {
			case 0, 1:
				sessions[i].User = "reject_" + sessions[i].User // turned away by the first session middleware
			case 2, 3:
				sessions[i].User = "detach_" + sessions[i].User // its middleware detaches the context: whatever then fails, fails alone and together alike
			case 4:
				sessions[i].User = "noreg_" + sessions[i].User // registers nothing on its type map: values of the per-connection type are unknown to it, whoever was or is connected
			}
			if g%3 == 1 && rng.Intn(2) == 0 && len(sessions[i].Steps) > 0 {
				// in every third group about half of the connections meet temporary read errors
				sessions[i].TempStep, sessions[i].TempN = rng.Intn(len(sessions[i].Steps)), 1+rng.Intn(3)
			}
		}
		cs := map[string]any{"group": g, "sessions": n, "custom_type": custom}
		// solo references: one fresh server, sessions one after another
		solo := make([]c15result, n)
		env := hs.Start(hs.Parse, c15opts(custom)...)
		bad := false
		for i, s := range sessions {
			solo[i], _ = c15run(env, s, nil)
			if solo[i].Err == "watchdog" {
				c.Inconclusive("watchdog fired without a library-blocked goroutine (solo run)")
				c.Finish()
			}
			if solo[i].Err != "" {
				c.Violate("solo", "solo run failed: "+solo[i].Err, fmt.Sprintf("group %d session %d", g, i), cs)
				bad = true
			}
			c.Count("per_connection_type_values", int64(solo[i].ConnTyped))
			if solo[i].Foreign != "" {
				c.Violate("type-map-isolation", "a value was decoded through another connection's type map (connections served one after another)", solo[i].Foreign, cs)
				bad = true
			}
			if strings.HasPrefix(s.User, "detach") {
				c.Count("detached_context_sessions", 1)
				solo[i].RowErrs = nil // without the connection's type map rows cannot be encoded: expected, and the same alone and together
			}
			for _, e := range solo[i].RowErrs {
				c.Violate("custom-type", "row rejected in solo run: "+normErr(e), fmt.Sprintf("group %d session %d kinds %v: %s", g, i, s.Kinds, e), cs)
				bad = true
			}
			if s.TempN > 0 {
				c.Count("sessions_with_temporary_read_errors", 1)
			}
			for _, k := range s.Kinds {
				switch k {
				case "custom":
					c.Count("custom_type_rows", 1)
				case "copy":
					c.Count("copy_sessions", 1)
				}
			}
		}
		env.Stop()
		if bad {
			continue
		}
		// second solo pass in reverse order on another fresh server: what a connection is told
		// must not depend on which connections were served before it
		env = hs.Start(hs.Parse, c15opts(custom)...)
		for i := n - 1; i >= 0; i-- {
			again, _ := c15run(env, sessions[i], nil)
			c.Count("solo_order_comparisons", 1)
			same := again.Err == solo[i].Err && again.Startup == solo[i].Startup && len(again.Outs) == len(solo[i].Outs) && strings.Join(again.Trace, "|") == strings.Join(solo[i].Trace, "|")
			for st := 0; same && st < len(again.Outs); st++ {
				if !bytes.Equal(again.Outs[st], solo[i].Outs[st]) {
					same = false
					c.Violate("history-dependent", "a connection served alone answers differently depending on which connections were served before it ("+sessions[i].Kinds[min(st, len(sessions[i].Kinds)-1)]+" step)", fmt.Sprintf("group %d session %d step %d: served %d-th: %s | served %d-th: %s", g, i, st, i+1, trim(replyKinds(solo[i].Outs[st]), 300), n-i, trim(replyKinds(again.Outs[st]), 300)), cs)
					bad = true
				}
			}
			if !same && !bad {
				c.Violate("history-dependent", "a connection served alone behaves differently depending on which connections were served before it", fmt.Sprintf("group %d session %d", g, i), cs)
				bad = true
			}
		}
		env.Stop()
		if bad {
			continue
		}
		for rep := 0; rep < reps; rep++ {
			env := hs.Start(hs.Parse, c15opts(custom)...)
			res := make([]c15result, n)
			var wg sync.WaitGroup
			// short-lived connections of other kinds before and while the sessions run:
			// CancelRequest, SSLRequest + EOF, truncated startup, immediate EOF
			odd := func(k int) {
				conn := env.Dial(nil)
				switch k % 4 {
				case 0:
					conn.Send(pg.CancelRequest(uint32(k), 7))
				case 1:
					conn.Send(pg.SSLRequest())
				case 2:
					conn.Send(pg.Startup([][2]string{{"user", "x"}})[:9])
				}
				conn.CloseWrite()
				conn.WaitClosed()
				c.Count("odd_lifecycle_connections", 1)
			}
			nodd := rng.Intn(4)
			for k := 0; k < nodd; k++ {
				odd(rng.Intn(4))
			}
			for k := rng.Intn(3); k > 0; k-- {
				kk := rng.Intn(4)
				wg.Add(1)
				go func() { defer wg.Done(); odd(kk) }()
			}
			// neighbours that have connected and then stay silent for as long as the sessions run: nothing
			// sent at all, an SSLRequest (answered 'N') and nothing more, the first bytes of a start-up packet
			var silent []*tr.Conn
			if rep%2 == 1 {
				for k := 1 + rng.Intn(3); k > 0; k-- {
					conn := env.Dial(nil)
					switch rng.Intn(3) {
					case 1:
						conn.Send(pg.SSLRequest())
					case 2:
						conn.Send(pg.Startup([][2]string{{"user", "slow"}})[:6])
					}
					silent = append(silent, conn)
					c.Count("silent_neighbours_in_startup", 1)
				}
			}
			for i := range sessions {
				seed := rng.U64()
				wg.Add(1)
				go func(i int) {
					defer wg.Done()
					res[i], _ = c15run(env, sessions[i], tr.YieldFn(seed))
				}(i)
			}
			wg.Wait()
			for _, conn := range silent {
				conn.CloseWrite()
				conn.WaitClosed()
			}
			env.Stop()
			c.Count("groups", 1)
			c.Count("concurrent_sessions", int64(n))
			// interleaving signature: global order of (conn, kind)
			type ge struct {
				st   uint64
				conn int
				k    string
			}
			var all []ge
			for i := range res {
				for _, e := range res[i].Events {
					k := e.Kind
					if k == "cb" {
						k = e.Name
					}
					all = append(all, ge{e.Stamp, i, k})
				}
			}
			sort.Slice(all, func(a, b int) bool { return all[a].st < all[b].st })
			var sb strings.Builder
			switches := 0
			for i, e := range all {
				fmt.Fprintf(&sb, "%d%s,", e.conn, e.k)
				if i > 0 && all[i-1].conn != e.conn {
					switches++
				}
			}
			h := core.H64(sb.String())
			if !inter[h] && switches > n {
				inter[h] = true
				c.Count("distinct_interleavings", 1)
			}
			c.Eval(fmt.Sprintf("%x", h), switches > n)
			if g < 2 && rep == 0 {
				c.Sample(map[string]any{"group": g, "sessions": n, "session_kinds": sessions[0].Kinds, "connection_switches_in_global_order": switches, "events": len(all)})
			}
			for i := range res {
				if res[i].Err == "watchdog" {
					c.Inconclusive("watchdog fired without a library-blocked goroutine (concurrent group)")
					c.Finish()
				}
				if res[i].Err != "" {
					c.Violate("concurrent-run", "concurrent run failed: "+core.NormDigits(res[i].Err), fmt.Sprintf("group %d session %d: %s", g, i, res[i].Err), cs)
					continue
				}
				if res[i].Foreign != "" {
					c.Violate("type-map-isolation", "a value was decoded through another connection's type map", res[i].Foreign, cs)
					continue
				}
				if strings.HasPrefix(sessions[i].User, "reject") {
					c.Count("rejected_user_sessions", 1)
					if !strings.HasSuffix(res[i].Startup, "closed") || strings.Contains(res[i].Startup, "Z") {
						c.Violate("middleware-isolation", "a user rejected by a session middleware is served when other users connect at the same time", fmt.Sprintf("group %d session %d: %q", g, i, res[i].Startup), cs)
						continue
					}
				}
				if res[i].Startup != solo[i].Startup {
					c.Violate("startup-differs", "startup reply differs from solo run", fmt.Sprintf("group %d session %d: %q vs solo %q", g, i, res[i].Startup, solo[i].Startup), cs)
					continue
				}
				if len(res[i].Outs) != len(solo[i].Outs) {
					c.Violate("transcript-differs", "number of answered steps differs from solo run", fmt.Sprintf("group %d session %d", g, i), cs)
					continue
				}
				for st := range res[i].Outs {
					c.Count("steps_compared", 1)
					if !bytes.Equal(res[i].Outs[st], solo[i].Outs[st]) {
						c.Violate("transcript-differs", "reply differs from solo run ("+sessions[i].Kinds[min(st, len(sessions[i].Kinds)-1)]+" step)", fmt.Sprintf("group %d session %d step %d: concurrent %s | solo %s", g, i, st, trim(replyKinds(res[i].Outs[st]), 300), trim(replyKinds(solo[i].Outs[st]), 300)), cs)
						break
					}
				}
				if strings.Join(res[i].Trace, "|") != strings.Join(solo[i].Trace, "|") {
					c.Violate("trace-differs", "callback trace differs from solo run", fmt.Sprintf("group %d session %d", g, i), cs)
				}
			}
		}
	}
}

// authGroup: clients with the right password log in and run a query while, before and between their
// messages, other clients of the same server fail to log in, again and again, some at the same time.
// What the first get - replies and callbacks - is what they get alone.
func (ch c15) authGroup(c *core.Ctx) {
	prog := &hs.Prog{Stmts: []*hs.Stmt{{ID: "t", Cols: textCols(1), Ops: []hs.Op{{K: "row", Vals: []any{"v"}}, {K: "complete", Tag: "SELECT 1"}}}}}
	validator := func(ctx context.Context, database, username, password string) (context.Context, bool, error) {
		hs.ConnOf(ctx).CB("validate", username)
		return ctx, password == "right-"+username, nil
	}
	mk := func() *hs.Sess { return &hs.Sess{Default: func(string) *hs.Prog { return prog }} }
	type obs struct{ reply, trace string }
	finish := func(cl *hs.Client) obs {
		var tr []string
		for _, e := range cl.C.Events() {
			if e.Kind == "cb" {
				tr = append(tr, e.Name)
			}
		}
		msgs, _, err := pg.ParseStream(cl.C.Out())
		o := obs{normStartup(msgs), strings.Join(tr, ",")}
		if err != nil {
			o.reply += " +unparsable"
		}
		for _, m := range msgs {
			if m.T == 'E' {
				o.reply += " E(" + m.Err['S'] + " " + m.Err['C'] + ")"
			}
		}
		cl.Finish()
		return o
	}
	login := func(env *hs.Env, user string, between func()) obs {
		cl := hs.NewClient(env.Dial(mk()))
		cl.Step(pg.Startup([][2]string{{"user", user}}))
		if between != nil {
			between()
		}
		cl.Step(append(pg.Password("right-"+user), pg.Query("t")...))
		o := finish(cl)
		o.reply = strings.ReplaceAll(o.reply, "="+user, "=<user>")
		return o
	}
	for round := 0; round < 4; round++ {
		env := hs.Start(hs.Parse, wire.SessionAuthStrategy(wire.ClearTextPassword(validator)))
		solo := login(env, "bob", nil)
		if !strings.Contains(solo.reply, "Z") {
			c.Violate("auth-group", "a client with the right password is not served when alone", fmt.Sprintf("%+v", solo), nil)
			env.Stop()
			return
		}
		fail := func(n int, parallel bool) {
			var wg sync.WaitGroup
			for i := 0; i < n; i++ {
				one := func(i int) {
					defer wg.Done()
					cl := hs.NewClient(env.Dial(mk()))
					cl.Step(pg.Startup([][2]string{{"user", fmt.Sprintf("mallory%d", i%3)}}))
					cl.Step(pg.Password(fmt.Sprintf("guess-%d", i)))
					cl.C.CloseWrite()
					cl.C.WaitClosed()
				}
				wg.Add(1)
				if parallel {
					go one(i)
				} else {
					one(i)
				}
			}
			wg.Wait()
			c.Count("failed_logins_next_to_good_ones", int64(n))
		}
		n := 5 + 3*round
		got := []obs{
			login(env, "bob", func() { fail(n, round%2 == 1) }), // asked for the password before the others fail
		}
		got = append(got, login(env, "bob", nil), login(env, "carol", nil)) // connecting after they failed
		fail(n, true)
		got = append(got, login(env, "bob", nil))
		env.Stop()
		c.Eval(fmt.Sprintf("auth group %d", round), true)
		for i, g := range got {
			if g != solo {
				c.Violate("auth-group", "a client with the right password is served differently after other clients failed to log in", fmt.Sprintf("round %d login %d (%d failed logins before it): %+v, alone: %+v", round, i, n, g, solo), nil)
				return
			}
		}
	}
}

// restGroup: a server with every timeout this tree offers set to 25 ms (exported duration fields; none on the
// pinned tree). A client runs a query, rests for several such periods, and runs another one - alone, and
// while forty other connections of the same server are busy. Whether a resting client is kept or dropped is
// the server's business; that it is the same thing with and without neighbours is this property. The rest is
// real time, so a difference is reported only when three repetitions in a row all show it in the same direction.
func (ch c15) restGroup(c *core.Ctx) {
	prog := &hs.Prog{Stmts: []*hs.Stmt{{ID: "t", Cols: textCols(1), Ops: []hs.Op{{K: "row", Vals: []any{"v"}}, {K: "complete", Tag: "SELECT 1"}}}}}
	mk := func() *hs.Sess { return &hs.Sess{Default: func(string) *hs.Prog { return prog }} }
	hs.ShortTimeouts = true
	env := hs.Start(hs.Parse)
	hs.ShortTimeouts = false
	defer env.Stop()
	probe := func() string {
		cl := hs.NewClient(env.Dial(mk()))
		cl.C.Send(append(pg.Startup([][2]string{{"user", "rests"}}), pg.Query("t")...))
		time.Sleep(120 * time.Millisecond)
		first := replyKinds(cl.C.Out())
		if i := strings.Index(first, "ZI"); i >= 0 {
			first = first[i:] // (the start-up reply lists its parameters in map order)
		}
		state := "open"
		if cl.C.Stats().Closed {
			state = "closed by the server during the rest"
		}
		n := cl.C.OutLen()
		cl.C.Send(pg.Query("t"))
		cl.C.CloseWrite()
		cl.C.WaitClosed()
		return first + " | " + state + " | " + replyKinds(cl.C.OutFrom(n))
	}
	differs := 0
	var solo, busy string
	for rep := 0; rep < 3; rep++ {
		solo = probe()
		stop := make(chan struct{})
		var wg sync.WaitGroup
		for k := 0; k < 40; k++ {
			wg.Add(1)
			go func() {
				defer wg.Done()
				cl := hs.NewClient(env.Dial(mk()))
				if err := cl.StartupOK("busy"); err != nil {
					return
				}
				for {
					select {
					case <-stop:
						cl.C.CloseWrite()
						cl.C.WaitClosed()
						return
					default:
					}
					if _, closed := cl.Step(pg.Query("t")); closed || cl.Hung {
						return
					}
				}
			}()
		}
		time.Sleep(20 * time.Millisecond) // the neighbours are connected and busy
		busy = probe()
		close(stop)
		wg.Wait()
		c.Count("resting_clients_compared_alone_and_among_busy_neighbours", 1)
		if busy == solo {
			break
		}
		differs++
	}
	c.Eval("rest group", true)
	if differs == 3 {
		c.Violate("rest-differs", "a client that rests between two queries is treated differently when other connections of the server are busy", fmt.Sprintf("alone: %s; among 40 busy neighbours: %s (three repetitions in a row)", solo, busy), nil)
	}
}

// sharedStatements: the parser of the embedding program keeps one prepared-statement object per query text
// and hands it to every connection that parses that text. Eight connections define it under their own names,
// bind, describe and execute portals and close statement and portals again, at the same time: what one
// connection closes, re-parses or binds leaves the others' names and portals as they are.
func (ch c15) sharedStatements(c *core.Ctx) {
	var cache sync.Map
	parse := func(ctx context.Context, query string) (wire.PreparedStatements, error) {
		q := string(append([]byte(nil), query...))
		if st, ok := cache.Load(q); ok {
			return wire.PreparedStatements{st.(*wire.PreparedStatement)}, nil
		}
		cols := wire.Columns{{Name: "c", Oid: oid.T_text, Width: -1}}
		st := wire.NewStatement(func(ctx context.Context, w wire.DataWriter, params []wire.Parameter) error {
			v := ""
			if len(params) > 0 {
				v = string(params[0].Value())
			}
			w.Row([]any{q + "/" + v})
			return w.Complete("SELECT 1")
		}, wire.WithColumns(cols), wire.WithParameters(wire.ParseParameters(q)))
		actual, _ := cache.LoadOrStore(q, st)
		return wire.PreparedStatements{actual.(*wire.PreparedStatement)}, nil
	}
	env := hs.Start(parse)
	defer env.Stop()
	run := func(k int, yield func()) string {
		conn := tr.NewConn(nil)
		conn.Yield = yield
		env.L.DialConn(conn)
		cl := hs.NewClient(conn)
		if err := cl.StartupOK("u"); err != nil {
			return "startup failed: " + err.Error()
		}
		var out []byte
		for r := 0; r < 6; r++ {
			val := [][]byte{[]byte(fmt.Sprintf("v%d.%d", k, r))}
			for _, m := range [][]byte{
				pg.Parse("s", "select $1 /* shared text */", nil), pg.Bind("p", "s", nil, val, nil), pg.Bind("", "s", nil, val, nil), pg.Sync(),
				pg.Describe('P', "p"), pg.Execute("p", 0), pg.Close('S', "s"), pg.Sync(),
				pg.Parse("s", "select $1 /* shared text */", nil), pg.Bind("p2", "s", nil, val, nil), pg.Execute("p2", 0), pg.Close('P', "p2"), pg.Close('P', "p"), pg.Sync(),
			} {
				o, closed := cl.Step(m)
				out = append(out, o...)
				if closed || cl.Hung {
					return replyKinds(out) + " <connection ended>"
				}
			}
		}
		cl.Finish()
		return strings.ReplaceAll(replyKinds(out), fmt.Sprintf("v%d.", k), "v<k>.")
	}
	solo := run(0, nil)
	if !strings.Contains(solo, "D1") {
		c.Inconclusive("C15 shared-statement group: the solo run delivered no row: " + trim(solo, 200))
		return
	}
	for round := 0; round < 3; round++ {
		var wg sync.WaitGroup
		got := make([]string, 8)
		for k := 0; k < 8; k++ {
			wg.Add(1)
			go func(k int) {
				defer wg.Done()
				got[k] = run(k, tr.YieldFn(uint64(c.Seed)*131+uint64(c.Batch*64+round*8+k)))
			}(k)
		}
		wg.Wait()
		c.Count("connections_sharing_one_statement_object", 8)
		for k, g := range got {
			if g != solo {
				c.Violate("transcript-differs", "a connection whose parser shares prepared-statement objects with other connections is answered differently next to them", fmt.Sprintf("connection %d of 8: %s; alone: %s", k, trim(g, 400), trim(solo, 400)), nil)
				return
			}
		}
	}
	c.Eval("shared statement objects", true)
}
