package checks

import (
	"bytes"
	"fmt"
	"sort"
	"strings"
	"sync"

	wire "github.com/jeroenrinzema/psql-wire"
	"github.com/jeroenrinzema/psql-wire/pkg/buffer"

	"verifharness/core"
	"verifharness/hs"
	"verifharness/pg"
)

// C17 - Error decorations reach the client field for field.

type c17 struct{ base }

func init() {
	core.Register(c17{base{id: "C17", level: "exploration", race: true, quickB: 8, thoroughB: 32,
		rule:        "errors are built from a spec (base text + wrappers innermost-first over {WithCode, WithSeverity, WithHint, WithDetail, WithSource, WithConstraintName, fmt %w}); the flattening model computes the expected fields (outermost value, defaults ERROR/XXUUU, message = Go error text); each error is returned from a parser (simple Query and Parse) or a statement function (simple Query and Execute) and the ErrorResponse is parsed strictly and compared field for field. shared sentinel values (one built error decorated further by several reports and also reported as is) must keep their own fields; quick: exhaustive over all wrapper sequences up to depth 4 x 2 value variants + random depth <= 6; thorough: exhaustive depth 5 + 500k random depth <= 8. Non-trivial = at least two wrappers of which one repeats or is fmt-wrap/source/constraint; distinct = wrapper-kind sequence + context.",
		need:        []string{"error_responses_compared", "with_source", "with_constraint", "repeated_decorator", "nil_error_reports", "empty_message_errors", "shared_sentinel_reports", "errors_reported_by_several_connections_at_once", "errors_returned_after_the_session_context_ended"},
		assumptions: append([]string{"hint, detail, constraint, code and severity values are non-empty NUL-free strings (an empty hint/detail is indistinguishable from 'not set' in the API); the error text and the source file/function may be empty and must still be sent as (empty) fields; a 'V' (non-localised severity) field equal to S is tolerated"}, commonAssumptions...)}})
}

var c17kinds = []byte{'c', 's', 'h', 'd', 'o', 'n', 'w'}
var c17sev = []string{"ERROR", "FATAL", "PANIC", "WARNING", "NOTICE", "DEBUG", "INFO", "LOG"}
var c17codes = []string{"22012", "23505", "42601", "0A000", "XX000", "P0001", "57014", "08P01", "00000"}

func c17wrap(k byte, rng *core.Rng, variant int) hs.Wrap {
	txt := func(tag string) string {
		switch variant % 4 {
		case 0:
			return fmt.Sprintf("%s-%d", tag, rng.Intn(1000))
		case 1:
			return tag + " " + rng.Text(1+rng.Intn(30), true)
		case 2:
			return tag + " 100% of %s %d \n second line \t tab"
		}
		if rng.Bool() {
			return rng.Ident(rng.BoundaryLen())
		}
		return tag + strings.Repeat("long ", 1+rng.Intn(300))
	}
	switch k {
	case 'c':
		if rng.Intn(3) == 0 {
			// any code the library names: connection, shutdown and authorisation classes included
			return hs.Wrap{K: 'c', S: core.Pick(rng, c17allCodes)}
		}
		return hs.Wrap{K: 'c', S: core.Pick(rng, c17codes)}
	case 's':
		return hs.Wrap{K: 's', S: core.Pick(rng, c17sev)}
	case 'h':
		return hs.Wrap{K: 'h', S: txt("hint")}
	case 'd':
		return hs.Wrap{K: 'd', S: txt("detail")}
	case 'o':
		if variant%4 == 3 && rng.Intn(3) == 0 { // source location with an empty file or function name
			w := hs.Wrap{K: 'o', S: txt("file") + ".go", Line: 7, Fn: txt("fn")}
			if rng.Bool() {
				w.S = ""
			} else {
				w.Fn = ""
			}
			return w
		}
		if rng.Intn(4) == 0 {
			return hs.Wrap{K: 'o', S: core.Pick(rng, []string{"/go/src/app/handlers/query.go", "dir/", "./rel/path.c", "C:\\src\\win.c", "/", "a//b.go", "../up.go"}), Line: 42, Fn: txt("fn")}
		}
		return hs.Wrap{K: 'o', S: txt("file") + ".go", Line: core.Pick(rng, []int32{0, 1, 7, 258, 65536, 1<<31 - 1, 16777216, 256, 10}), Fn: txt("fn")}
	case 'n':
		if rng.Intn(3) == 0 {
			// constraint names as applications write them: qualified, quoted, dotted, numeric - a name is a text
			return hs.Wrap{K: 'n', S: core.Pick(rng, []string{"public.users.users_pk", "users.users_email_key", "v1.2", "1.5", "\"Orders\".\"orders_pkey\"", "a.b.c.d", ".leading", "trailing.", "fk_orders__customer_id", "chk: amount > 0", "uq(orders.id, line)"})}
		}
		return hs.Wrap{K: 'n', S: txt("constraint")}
	}
	return hs.Wrap{K: 'w', S: txt("ctx")}
}

func (ch c17) Run(c *core.Ctx) {
	nb := ch.Batches(c.Tier)
	env := hs.Start(hs.Parse)
	defer env.Stop()
	depth, nrand, rdepth := 4, 40000, 6
	if c.Tier == "thorough" {
		depth, nrand, rdepth = 6, 2000000, 8
	}
	var cl *hs.Client
	var sess *hs.Sess
	uses := 0
	idx := 0
	runSpec := func(spec *hs.ErrSpec, context int) {
		if cl == nil || uses > 200 {
			if cl != nil {
				cl.Finish()
			}
			sess = &hs.Sess{Progs: map[string]*hs.Prog{}}
			cl = hs.NewClient(env.Dial(sess))
			if err := cl.StartupOK("u"); err != nil {
				c.Violate("startup", "startup failed", err.Error(), nil)
				return
			}
			uses = 0
		}
		uses++
		q := fmt.Sprintf("E%d", idx)
		var in []byte
		var wantTail string
		switch context % 4 {
		case 0: // parser error, simple query
			sess.Progs[q] = &hs.Prog{Err: spec}
			in, wantTail = pg.Query(q), "EZ"
		case 1: // statement error, simple query
			sess.Progs[q] = &hs.Prog{Stmts: []*hs.Stmt{{ID: q, Ops: []hs.Op{{K: "err", Err: spec}}}}}
			in, wantTail = pg.Query(q), "EZ"
			if idx%6 == 1 {
				// the error comes after a row that went out and a row that was refused half-way (its last
				// value cannot be encoded)
				sess.Progs[q] = &hs.Prog{Stmts: []*hs.Stmt{{ID: q, Cols: textCols(2), Ops: []hs.Op{{K: "row", Vals: []any{"a", "b"}}, {K: "badrow", Vals: []any{"partly written", make(chan int)}}, {K: "err", Err: spec}}}}}
				wantTail = "TDEZ"
				c.Count("errors_after_a_refused_row", 1)
			}
		case 2: // parser error, extended
			sess.Progs[q] = &hs.Prog{Err: spec}
			in, wantTail = append(pg.Parse("", q, nil), pg.Sync()...), "EZ"
		default: // statement error in Execute
			sess.Progs[q] = &hs.Prog{Stmts: []*hs.Stmt{{ID: q, Ops: []hs.Op{{K: "err", Err: spec}}}}}
			in = append(append(append(pg.Parse("", q, nil), pg.Bind("", "", nil, nil, nil)...), pg.Execute("", 0)...), pg.Sync()...)
			wantTail = "12EZ"
		}
		out, closed := cl.Step(in)
		delete(sess.Progs, q)
		if hangCheck(c, cl, spec) {
			cl = nil
			return
		}
		cs := map[string]any{"spec": spec.String(), "context": context % 4}
		msgs, err := parseAll(out)
		if err != nil || closed {
			c.Violate("grammar", c17sig(spec)+" not well-formed", fmt.Sprintf("spec %s: %v closed=%v raw=%s", spec, err, closed, hexs(out)), cs)
			cl = nil
			return
		}
		if pg.Types(msgs) != wantTail {
			c.Violate("transcript", "error cycle transcript "+pg.Types(msgs), fmt.Sprintf("spec %s: want %s", spec, wantTail), cs)
			cl = nil
			return
		}
		var em pg.BMsg
		for _, m := range msgs {
			if m.T == 'E' {
				em = m
			}
		}
		ch.compare(c, spec, em, cs)
	}
	// exhaustive wrapper sequences
	total := 0
	var rec func(cur []byte)
	rec = func(cur []byte) {
		for variant := 0; variant < 2; variant++ {
			if total%nb == c.Batch && c.Begin(idx) && c.NViol() < 10 {
				rng := core.NewRng(c.Seed, "C17e", variant, total)
				spec := &hs.ErrSpec{Base: fmt.Sprintf("base error %d", total)}
				if variant == 1 {
					spec.Base = "base " + rng.Text(1+rng.Intn(40), true)
				}
				for _, k := range cur {
					spec.Wraps = append(spec.Wraps, c17wrap(k, rng, variant))
				}
				runSpec(spec, total)
			}
			total++
			idx++
		}
		if len(cur) == depth {
			return
		}
		for _, k := range c17kinds {
			rec(append(cur, k))
		}
	}
	rec(nil)
	if c.Batch == 0 {
		c.Count("exhaustive_parts", 1)
	}
	// outermost decorations with an empty value over inner non-empty ones
	for i := c.Batch; i < nrand/20; i += nb {
		idx = 40000000 + i
		if !c.Begin(idx) || c.NViol() >= 10 {
			continue
		}
		rng := core.NewRng(c.Seed, "C17o", 0, i)
		k := core.Pick(rng, []byte{'h', 'd', 'n', 's'})
		spec := &hs.ErrSpec{Base: "base " + rng.Ident(8)}
		spec.Wraps = append(spec.Wraps, c17wrap(k, rng, 0))
		if k == 's' {
			spec.Wraps[0].S = "PANIC"
		}
		for d := rng.Intn(3); d > 0; d-- {
			spec.Wraps = append(spec.Wraps, c17wrap(core.Pick(rng, []byte{'c', 'w', 'o'}), rng, 0))
		}
		spec.Wraps = append(spec.Wraps, hs.Wrap{K: k, S: ""})
		runSpec(spec, i)
	}
	for i := c.Batch; i < nrand; i += nb {
		idx = 10000000 + i
		if !c.Begin(idx) || c.NViol() >= 10 {
			continue
		}
		rng := core.NewRng(c.Seed, "C17", 0, i)
		spec := &hs.ErrSpec{Base: "base " + rng.Text(1+rng.Intn(60), true)}
		if rng.Intn(10) == 0 {
			// a text is a text: errors relayed from another database keep the rendering their driver gave them
			spec.Base = core.Pick(rng, []string{"ERROR: relation \"t\" does not exist (SQLSTATE 42P01)", "FATAL: terminating connection (SQLSTATE 57P01)", "upstream said: deadlock detected (SQLSTATE 40P01)", "pq: duplicate key value violates unique constraint \"t_pkey\"", "ERROR:  syntax error at or near \"x\" at character 8", "SQLSTATE 23505", "(SQLSTATE 00000)"})
			c.Count("relayed_error_texts", 1)
		}
		if rng.Intn(6) == 0 {
			spec.Cause = 1 + rng.Intn(len(hs.Causes)-1) // the base error wraps (or, below, is) a standard-library error
			c.Count("stdlib_causes", 1)
		}
		if rng.Intn(12) == 0 {
			spec.Base = "" // an error whose text is empty still has a message field
			c.Count("empty_message_errors", 1)
		}
		for d := rng.Intn(rdepth + 1); d > 0; d-- {
			spec.Wraps = append(spec.Wraps, c17wrap(core.Pick(rng, c17kinds), rng, rng.Intn(4)))
		}
		if rng.Intn(40) == 0 {
			// the decorations sit deep in the chain: 15 .. 300 layers of context on top of them, as an error
			// handed up through a recursive evaluator collects
			for d := core.Pick(rng, []int{15, 16, 17, 31, 32, 33, 63, 64, 65, 100, 127, 128, 129, 255, 256, 300}); d > 0; d-- {
				spec.Wraps = append(spec.Wraps, hs.Wrap{K: 'w', S: fmt.Sprintf("l%d", d)})
			}
			c.Count("deep_chains", 1)
		}
		runSpec(spec, i)
	}
	// shared sentinel errors: one decorated error value is decorated further in several
	// reports and also reported as it is; decorating must not change the shared value
	nshared := nrand / 10
	for i := c.Batch; i < nshared; i += nb {
		idx = 30000000 + i
		if !c.Begin(idx) || c.NViol() >= 10 {
			continue
		}
		rng := core.NewRng(c.Seed, "C17s", 0, i)
		inner := &hs.ErrSpec{Base: "sentinel " + rng.Text(1+rng.Intn(20), true)}
		for d := rng.Intn(3); d > 0; d-- {
			inner.Wraps = append(inner.Wraps, c17wrap(core.Pick(rng, c17kinds), rng, rng.Intn(3)))
		}
		shared := inner.Build()
		for k := 0; k < 3; k++ {
			spec := &hs.ErrSpec{Base: inner.Base, Wraps: append([]hs.Wrap{}, inner.Wraps...), Pre: shared, PreN: len(inner.Wraps)}
			for d := 1 + rng.Intn(2); d > 0; d-- {
				spec.Wraps = append(spec.Wraps, c17wrap(core.Pick(rng, []byte{'s', 'c', 'h', 'd', 'n', 'o'}), rng, rng.Intn(3)))
			}
			runSpec(spec, i+k)
			// ... and the shared value itself, after others decorated it
			runSpec(&hs.ErrSpec{Base: inner.Base, Wraps: inner.Wraps, Pre: shared, PreN: len(inner.Wraps)}, i+k+1)
			c.Count("shared_sentinel_reports", 2)
		}
	}
	if cl != nil {
		cl.Finish()
	}
	// the embedding program ends the context it gave the session (session middleware) while the statement
	// runs - after its first row, before it returns its decorated error: the error the statement returns is
	// the error the client is told, field for field
	if c.Begin(22000000) && c.NViol() < 10 {
		envC := hs.Start(hs.Parse, hs.EndableSessions())
		nend := 40
		if c.Tier == "thorough" {
			nend = 2000
		}
		for i := 0; i < nend && c.NViol() < 10; i++ {
			rng := core.NewRng(c.Seed, "C17ended", c.Batch, i)
			spec := &hs.ErrSpec{Base: "base " + rng.Text(1+rng.Intn(40), true)}
			for d := rng.Intn(5); d > 0; d-- {
				spec.Wraps = append(spec.Wraps, c17wrap(core.Pick(rng, c17kinds), rng, rng.Intn(4)))
			}
			esess := &hs.Sess{Progs: map[string]*hs.Prog{}}
			ecl := hs.NewClient(envC.Dial(esess))
			if err := ecl.StartupOK("u"); err != nil || esess.EndSession == nil {
				c.Inconclusive("C17 ended-session part: start-up failed or the session middleware did not run")
				break
			}
			esess.Progs["q"] = &hs.Prog{Stmts: []*hs.Stmt{{ID: "q", Cols: textCols(1), Ops: []hs.Op{{K: "row", Vals: []any{"a"}}, {K: "call", Fn: esess.EndSession}, {K: "err", Err: spec}}}}}
			in := pg.Query("q")
			if i%2 == 1 {
				in = append(append(append(pg.Parse("", "q", nil), pg.Bind("", "", nil, nil, nil)...), pg.Execute("", 0)...), pg.Sync()...)
			}
			out, closed := ecl.Step(in)
			if hangCheck(c, ecl, spec) {
				break
			}
			cs := map[string]any{"spec": spec.String(), "context": "the session's context ends while the statement runs"}
			msgs, perr := parseAll(out)
			var em *pg.BMsg
			for k := range msgs {
				if msgs[k].T == 'E' {
					em = &msgs[k]
				}
			}
			if perr != nil || em == nil {
				c.Violate("transcript", "error cycle transcript after the session's context ended", fmt.Sprintf("spec %s: %v closed=%v reply %s", spec, perr, closed, pg.Types(msgs)), cs)
				break
			}
			ch.compare(c, spec, *em, cs)
			c.Count("errors_returned_after_the_session_context_ended", 1)
			if !closed {
				ecl.Finish()
			}
		}
		envC.Stop()
	}
	// several connections report errors at the same moment: same severity, every connection its own code,
	// hint and text. What a client reads are the decorations of its own error (and the race detector watches
	// what the reports share)
	if c.Begin(21000000) && c.NViol() < 10 {
		const peers = 8
		rounds := 150
		if c.Tier == "thorough" {
			rounds = 4000
		}
		sev := c17sev[c.Batch%len(c17sev)]
		var wg sync.WaitGroup
		start := make(chan struct{})
		for g := 0; g < peers; g++ {
			wg.Add(1)
			go func(g int) {
				defer wg.Done()
				psess := &hs.Sess{Progs: map[string]*hs.Prog{}}
				pcl := hs.NewClient(env.Dial(psess))
				if err := pcl.StartupOK("u"); err != nil {
					c.Violate("startup", "startup failed", err.Error(), nil)
					return
				}
				code := c17codes[g%len(c17codes)]
				spec := &hs.ErrSpec{Base: fmt.Sprintf("error of peer %d", g), Wraps: []hs.Wrap{{K: 'c', S: code}, {K: 's', S: sev}, {K: 'h', S: fmt.Sprintf("hint of peer %d", g)}}}
				psess.Progs["fails"] = &hs.Prog{Stmts: []*hs.Stmt{{ID: "fails", Ops: []hs.Op{{K: "err", Err: spec}}}}}
				<-start
				for r := 0; r < rounds && c.NViol() < 10; r++ {
					out, closed := pcl.Step(pg.Query("fails"))
					if pcl.Hung {
						return
					}
					msgs, err := parseAll(out)
					cs := map[string]any{"spec": spec.String(), "context": "eight connections reporting at once"}
					if err != nil || len(msgs) == 0 || msgs[0].T != 'E' {
						if !(closed && (sev == "FATAL" || sev == "PANIC")) || err != nil {
							c.Violate("transcript", "error cycle transcript under concurrency", fmt.Sprintf("spec %s: %v closed=%v reply %s", spec, err, closed, pg.Types(msgs)), cs)
						}
						return
					}
					ch.compare(c, spec, msgs[0], cs)
					c.Count("errors_reported_by_several_connections_at_once", 1)
					if closed {
						return
					}
				}
				pcl.Finish()
			}(g)
		}
		close(start)
		wg.Wait()
	}
	// nil error through the public ErrorCode entry point
	if c.Batch == 0 && c.Begin(20000000) {
		var sink bytes.Buffer
		w := buffer.NewWriter(hs.Quiet, &sink)
		werr := wire.ErrorCode(w, nil)
		msgs, perr := parseAll(sink.Bytes())
		c.Count("nil_error_reports", 1)
		c.Eval("nil", true)
		if werr != nil || perr != nil || len(msgs) < 1 || msgs[0].T != 'E' {
			c.Violate("nil-error", "nil error not reported as a well-formed ErrorResponse", fmt.Sprintf("err=%v parse=%v out=%s", werr, perr, hexs(sink.Bytes())), nil)
		} else if e := msgs[0]; e.Err['S'] != "FATAL" || !strings.HasPrefix(e.Err['C'], "XX") || strings.TrimSpace(e.Err['M']) == "" {
			c.Violate("nil-error", "nil error not reported as internal fatal error", fmt.Sprintf("fields %v", e.Err), nil)
		}
	} else if c.Batch != 0 {
		c.Count("nil_error_reports", 0)
	}
}

func c17sig(spec *hs.ErrSpec) string {
	ks := make([]byte, len(spec.Wraps))
	for i, w := range spec.Wraps {
		ks[i] = w.K
	}
	return "wrappers[" + string(ks) + "]"
}

func (ch c17) compare(c *core.Ctx, spec *hs.ErrSpec, em pg.BMsg, cs map[string]any) {
	want := spec.Expect()
	seen := map[byte]int{}
	rep := false
	for _, w := range spec.Wraps {
		seen[w.K]++
		if seen[w.K] > 1 {
			rep = true
		}
	}
	nt := len(spec.Wraps) >= 2 && (rep || seen['w'] > 0 || seen['o'] > 0 || seen['n'] > 0)
	c.Eval(c17sig(spec)+fmt.Sprint(cs["context"]), nt)
	c.Count("error_responses_compared", 1)
	// empty outermost values: the field is absent or present-but-empty, never an inner value
	emptyOK := map[byte]bool{}
	for _, k := range []byte{'H', 'D', 'n'} {
		if v, ok := want[k]; ok && v == "" {
			emptyOK[k] = true
			delete(want, k)
			if g, gok := em.Err[k]; gok {
				if g != "" {
					c.Violate("field-value", fmt.Sprintf("field %c shows an inner value although the outermost decoration is empty", k), fmt.Sprintf("spec %s: field %c = %q", spec, k, trim(g, 100)), cs)
					return
				}
				delete(em.Err, k)
			}
			c.Count("empty_outermost_decorations", 1)
		}
	}
	if seen['o'] > 0 {
		c.Count("with_source", 1)
	}
	if seen['n'] > 0 {
		c.Count("with_constraint", 1)
	}
	if rep {
		c.Count("repeated_decorator", 1)
	}
	if c.Batch == 0 && len(spec.Wraps) == 3 {
		c.Sample(map[string]any{"spec": spec.String(), "fields": fmt.Sprint(em.Err)})
	}
	if em.ErrDup {
		c.Violate("duplicate-field", "a field appears twice", fmt.Sprintf("spec %s: order %q", spec, em.ErrOrder), cs)
		return
	}
	var codes []byte
	for k := range want {
		codes = append(codes, k)
	}
	for k := range em.Err {
		if _, ok := want[k]; !ok {
			codes = append(codes, k)
		}
	}
	sort.Slice(codes, func(i, j int) bool { return codes[i] < codes[j] })
	for _, k := range codes {
		w, wok := want[k]
		g, gok := em.Err[k]
		if k == 'V' && !wok {
			if g != em.Err['S'] {
				c.Violate("field", "field V differs from S", fmt.Sprintf("V=%q S=%q", g, em.Err['S']), cs)
			}
			continue
		}
		switch {
		case wok && !gok:
			c.Violate("field-missing", fmt.Sprintf("field %c missing", k), fmt.Sprintf("spec %s: field %c must be %q; got fields %v", spec, k, w, em.Err), cs)
			return
		case !wok && gok:
			c.Violate("field-unexpected", fmt.Sprintf("field %c present though not set", k), fmt.Sprintf("spec %s: field %c = %q", spec, k, g), cs)
			return
		case w != g:
			c.Violate("field-value", fmt.Sprintf("field %c has wrong value", k), fmt.Sprintf("spec %s: field %c = %q want %q", spec, k, trim(g, 200), trim(w, 200)), cs)
			return
		}
	}
}
