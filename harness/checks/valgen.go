package checks

import (
	"database/sql"
	"math"
	"strings"
	"time"

	"github.com/jackc/pgx/v5/pgtype"

	"verifharness/core"
	"verifharness/pg"
)

// Value generation for the supported column types. Values are produced as the
// column's native Go type; the oracle compares pg.Canon(value) with what the
// independent decoder extracts from the wire bytes.

var scalarOIDs = []uint32{pg.OIDBool, pg.OIDInt2, pg.OIDInt4, pg.OIDInt8, pg.OIDFloat4, pg.OIDFloat8, pg.OIDText, pg.OIDVarchar,
	pg.OIDBPChar, pg.OIDName, pg.OIDBytea, pg.OIDUUID, pg.OIDOid, pg.OIDDate, pg.OIDTimestamp, pg.OIDTimestamptz, pg.OIDJSON, pg.OIDJSONB}

var arrayOIDs = []uint32{pg.OIDInt4Array, pg.OIDTextArray}

func genText(rng *core.Rng) string {
	switch rng.Intn(8) {
	case 0:
		return ""
	case 1:
		return core.Pick(rng, []string{" ", "NULL", "null", "\\N", "{}", "t", "0", "'", "\"", "\\", "a,b", "ü", "😀", "nul\x00inside", "\x00", "\uFFFD", "caf\xe9", " "})
	case 2:
		return strings.Repeat(core.Pick(rng, []string{"x", "漢", "😀"}), 1+rng.Intn(2000))
	}
	return rng.Text(1+rng.Intn(40), true)
}

// c09zones: a timestamptz is an instant; the location a handler's time.Time happens to carry (whole hours,
// half and quarter hours, a local mean time with seconds) does not change it.
var c09zones = []*time.Location{time.FixedZone("CET", 3600), time.FixedZone("PST", -8*3600), time.FixedZone("IST", 5*3600+1800), time.FixedZone("NPT", 5*3600+2700),
	time.FixedZone("NST", -(3*3600 + 1800)), time.FixedZone("LMT", 53*60+28), time.FixedZone("ACWST", 8*3600+2700), time.FixedZone("LINT", 14*3600), time.FixedZone("AoE", -12*3600)}

func genValue(rng *core.Rng, oid uint32) any {
	v := genValueUTC(rng, oid)
	if t, ok := v.(time.Time); ok && oid == pg.OIDTimestamptz && rng.Intn(3) == 0 {
		return t.In(core.Pick(rng, c09zones))
	}
	return v
}

func genValueUTC(rng *core.Rng, oid uint32) any {
	edge := rng.Intn(3) == 0
	switch oid {
	case pg.OIDBool:
		return rng.Bool()
	case pg.OIDInt2:
		if edge {
			return core.Pick(rng, []int16{0, 1, -1, math.MaxInt16, math.MinInt16, 255, 256, -256})
		}
		return int16(rng.U64())
	case pg.OIDInt4:
		if edge {
			return core.Pick(rng, []int32{0, 1, -1, math.MaxInt32, math.MinInt32, 65535, 65536, -65536})
		}
		return int32(rng.U64())
	case pg.OIDInt8:
		if edge {
			return core.Pick(rng, []int64{0, 1, -1, math.MaxInt64, math.MinInt64, 1 << 32, -(1 << 32), 1<<53 + 1})
		}
		return int64(rng.U64())
	case pg.OIDOid:
		if edge {
			return core.Pick(rng, []uint32{0, 1, math.MaxUint32, 1 << 31, 1<<31 - 1})
		}
		return uint32(rng.U64())
	case pg.OIDFloat4:
		if edge {
			return core.Pick(rng, []float32{0, float32(math.Copysign(0, -1)), 1, -1, math.MaxFloat32, math.SmallestNonzeroFloat32, float32(math.Inf(1)), float32(math.Inf(-1)), float32(math.NaN()), 1e-40, 0.1, 16777217})
		}
		return math.Float32frombits(uint32(rng.U64()))
	case pg.OIDFloat8:
		if edge {
			return core.Pick(rng, []float64{0, math.Copysign(0, -1), 1, -1, math.MaxFloat64, math.SmallestNonzeroFloat64, math.Inf(1), math.Inf(-1), math.NaN(), 1e-310, 0.1, 1 << 53, 1e21, 1e-7})
		}
		return math.Float64frombits(rng.U64())
	case pg.OIDText, pg.OIDVarchar, pg.OIDBPChar, pg.OIDName:
		return genText(rng)
	case pg.OIDBytea:
		switch rng.Intn(5) {
		case 0:
			return []byte{}
		case 1:
			return []byte{0}
		case 2:
			return rng.Bytes(1 + rng.Intn(3000))
		}
		return rng.Bytes(1 + rng.Intn(24))
	case pg.OIDNumeric:
		if edge {
			// the values without digits (all of eight bytes in binary), the digit-group boundaries, display
			// scales beyond the digits
			return pg.Numeric(core.Pick(rng, []string{"0", "0.00", "0.0000000000", "NaN", "Infinity", "-Infinity", "1", "-1", "9999", "10000", "-10000", "0.0001", "0.00010000", "1.5", "100000000", "32767", "-32768", "2147483647", "9223372036854775807",
				"123456789012345678901234567890.123456789", "-0.000000000000000000001", "99999999.99999999"}))
		}
		ds := func(n int) string {
			b := make([]byte, n)
			for i := range b {
				b[i] = '0' + byte(rng.Intn(10))
			}
			return string(b)
		}
		s := strings.TrimLeft(ds(1+rng.Intn(24)), "0")
		if s == "" {
			s = "0"
		}
		if rng.Bool() {
			s += "." + ds(1+rng.Intn(12))
		}
		if rng.Intn(3) == 0 {
			s = "-" + s
		}
		return pg.Numeric(s)
	case pg.OIDBit, pg.OIDVarbit:
		n := core.Pick(rng, []int{0, 1, 7, 8, 9, 15, 16, 17, 24, 32, 64, 1 + rng.Intn(70)})
		d := make([]byte, n)
		for i := range d {
			d[i] = '0' + byte(rng.Intn(2))
		}
		return pg.BitString(d)
	case pg.OIDUUID:
		var u [16]byte
		if !edge {
			copy(u[:], rng.Bytes(16))
		} else if rng.Bool() {
			for i := range u {
				u[i] = 0xff
			}
		}
		return u
	case pg.OIDDate:
		if edge {
			return core.Pick(rng, []time.Time{
				time.Date(1, 1, 1, 0, 0, 0, 0, time.UTC), time.Date(9999, 12, 31, 0, 0, 0, 0, time.UTC),
				time.Date(2000, 1, 1, 0, 0, 0, 0, time.UTC), time.Date(1999, 12, 31, 0, 0, 0, 0, time.UTC),
				time.Date(1970, 1, 1, 0, 0, 0, 0, time.UTC), time.Date(2024, 2, 29, 0, 0, 0, 0, time.UTC),
				// beyond the range of timestamps, within that of dates (up to 5874897-12-31)
				time.Date(294277, 1, 1, 0, 0, 0, 0, time.UTC), time.Date(300000, 6, 15, 0, 0, 0, 0, time.UTC), time.Date(5874897, 12, 31, 0, 0, 0, 0, time.UTC), time.Date(10000, 1, 1, 0, 0, 0, 0, time.UTC)})
		}
		return time.Date(1+rng.Intn(9998), time.Month(1+rng.Intn(12)), 1+rng.Intn(28), 0, 0, 0, 0, time.UTC)
	case pg.OIDTimestamp, pg.OIDTimestamptz:
		if edge {
			return core.Pick(rng, []time.Time{
				time.Date(1, 1, 1, 0, 0, 0, 0, time.UTC), time.Date(9999, 12, 31, 23, 59, 59, 999999000, time.UTC),
				time.Date(2000, 1, 1, 0, 0, 0, 0, time.UTC), time.Date(1999, 12, 31, 23, 59, 59, 999999000, time.UTC),
				time.Date(1970, 1, 1, 0, 0, 0, 1000, time.UTC), time.Date(2038, 1, 19, 3, 14, 8, 0, time.UTC)})
		}
		return time.Date(1+rng.Intn(9998), time.Month(1+rng.Intn(12)), 1+rng.Intn(28), rng.Intn(24), rng.Intn(60), rng.Intn(60), rng.Intn(1000000)*1000, time.UTC)
	case pg.OIDJSON, pg.OIDJSONB:
		return core.Pick(rng, []string{`{}`, `[]`, `null`, `"s"`, `0`, `{"a":[1,2,{"b":null}],"ü":"😀"}`, `[1.5e300,"\u0000x"]`, `{"k":"` + rng.Ident(1+rng.Intn(50)) + `"}`})
	case pg.OIDInt4Array:
		n := rng.Intn(5)
		a := make([]int32, n)
		for i := range a {
			a[i] = int32(rng.U64())
		}
		return a
	case pg.OIDTextArray:
		n := rng.Intn(4)
		a := make([]string, n)
		for i := range a {
			a[i] = core.Pick(rng, []string{"a", "", "NULL", "x y", "q\"uote", "back\\slash", "com,ma", "{br}", "ü😀", rng.Ident(1 + rng.Intn(8))})
		}
		return a
	}
	return nil
}

// nullForm returns one of the ways a handler can say NULL for the column type.
func nullForm(rng *core.Rng, oid uint32) (any, string) {
	k := rng.Intn(4)
	if oid == pg.OIDBytea && rng.Intn(4) == 0 {
		return []byte(nil), "nil-bytes"
	}
	switch k {
	case 0:
		return nil, "untyped-nil"
	case 1:
		switch oid {
		case pg.OIDBool:
			return (*bool)(nil), "nil-ptr"
		case pg.OIDInt2:
			return (*int16)(nil), "nil-ptr"
		case pg.OIDInt4:
			return (*int32)(nil), "nil-ptr"
		case pg.OIDInt8:
			return (*int64)(nil), "nil-ptr"
		case pg.OIDFloat4:
			return (*float32)(nil), "nil-ptr"
		case pg.OIDFloat8:
			return (*float64)(nil), "nil-ptr"
		case pg.OIDText, pg.OIDVarchar, pg.OIDBPChar, pg.OIDName, pg.OIDJSON, pg.OIDJSONB:
			return (*string)(nil), "nil-ptr"
		case pg.OIDDate, pg.OIDTimestamp, pg.OIDTimestamptz:
			return (*time.Time)(nil), "nil-ptr"
		case pg.OIDOid:
			return (*uint32)(nil), "nil-ptr"
		case pg.OIDBytea:
			return (*[]byte)(nil), "nil-ptr"
		}
		return nil, "untyped-nil"
	case 2:
		switch oid {
		case pg.OIDBool:
			return pgtype.Bool{}, "invalid-pgtype"
		case pg.OIDInt2:
			return pgtype.Int2{}, "invalid-pgtype"
		case pg.OIDInt4:
			return pgtype.Int4{}, "invalid-pgtype"
		case pg.OIDInt8:
			return pgtype.Int8{}, "invalid-pgtype"
		case pg.OIDFloat4:
			return pgtype.Float4{}, "invalid-pgtype"
		case pg.OIDFloat8:
			return pgtype.Float8{}, "invalid-pgtype"
		case pg.OIDText, pg.OIDVarchar, pg.OIDBPChar, pg.OIDName:
			return pgtype.Text{}, "invalid-pgtype"
		case pg.OIDDate:
			return pgtype.Date{}, "invalid-pgtype"
		case pg.OIDTimestamp:
			return pgtype.Timestamp{}, "invalid-pgtype"
		case pg.OIDTimestamptz:
			return pgtype.Timestamptz{}, "invalid-pgtype"
		case pg.OIDUUID:
			return pgtype.UUID{}, "invalid-pgtype"
		case pg.OIDOid:
			return pgtype.Uint32{}, "invalid-pgtype"
		}
		return nil, "untyped-nil"
	default:
		switch oid {
		case pg.OIDBool:
			return sql.NullBool{}, "sql-null"
		case pg.OIDInt2:
			return sql.NullInt16{}, "sql-null"
		case pg.OIDInt4:
			return sql.NullInt32{}, "sql-null"
		case pg.OIDInt8:
			return sql.NullInt64{}, "sql-null"
		case pg.OIDFloat8:
			return sql.NullFloat64{}, "sql-null"
		case pg.OIDText, pg.OIDVarchar, pg.OIDBPChar, pg.OIDName:
			return sql.NullString{}, "sql-null"
		case pg.OIDTimestamp, pg.OIDTimestamptz, pg.OIDDate:
			return sql.NullTime{}, "sql-null"
		}
		return nil, "untyped-nil"
	}
}
