package checks

import (
	"bytes"
	"context"
	"crypto/tls"
	"encoding/binary"
	"fmt"
	"sort"
	"strings"

	wire "github.com/jeroenrinzema/psql-wire"
	"github.com/lib/pq/oid"

	"verifharness/core"
	"verifharness/hs"
	"verifharness/pg"
)

// C10 - The message-size limit is enforced exactly and recoverably.

type c10 struct{ base }

var c10limits = []int{-1, 0, 1, 2, 15, 16, 17, 100, 4095, 4096, 4097, 65536}

func init() {
	core.Register(c10{base{id: "C10", level: "exploration", quickB: 24, thoroughB: 96,
		rule:        "grid: limit L in {-1,0 (=16 MiB default),1,2,15,16,17,100,4095,4096,4097,65536} (one child process per limit so the allocation profile is attributable) x body size in {0,1,L-1,L,L+1,L+2,2L-1,2L,2L+1,3L+7,10L+1} x message type in {Q,P,B,D,E,C,H,S,d,c,f,p,unknown} x position in {first after startup, between simple queries, inside a batch, while skipping, during COPY, in place of the password, as the startup packet, inside an upgraded TLS connection}; declared-only lengths {2^31-1, 2^31, 2^32-1} with little data then EOF; declared lengths 0-3 (below the minimum). Bodies <= L must be processed normally (callback sees exactly the content); bodies > L must be skipped in full and answered by exactly one ERROR/54000 ErrorResponse, after which a unique probe Query - preceded by a Sync in half of the cases, sent directly (or after a Describe of the statement prepared before) in the other half - must be answered normally (detects mis-framing and lost follow-up messages); startup/auth: connection ends without session. Allocation sanitizer (MemProfileRate=1): no object allocated by library code may exceed 4L+64KiB. Exhaustive product in thorough, seeded subset in quick. Thorough adds 48 batches with a limit drawn per (seed, batch) from {12..64, 64..1024, 1024..20000, 2^k-1..2^k+1 for k in 13..17, 2^20} in which the message under test is delivered cut into PRNG-chosen segments (cuts inside the header, at L, at L+5). Non-trivial = size within 2 of a multiple of L or declared-only/sub-minimum; distinct = (L, size class, type, position).",
		need:        []string{"next_message_without_sync", "at_limit_processed", "over_limit_skipped", "probe_after_oversize_ok", "startup_or_auth_oversize", "sub_minimum_lengths", "declared_only_huge", "alloc_profile_checks", "copy_mode_oversize"},
		assumptions: append([]string{"after an oversized extended-protocol message the reply may be E or E Z (C06's open reading); for declared lengths below 4 only 'no callback from that frame, no crash, no large allocation' is judged"}, commonAssumptions...)}})
}

type c10case struct {
	L     int // configured
	Eff   int // effective limit
	Size  int64
	Type  byte
	Pos   string // first between batch skipping copy password startup
	Mode  string // body | declared | submin
	SizeN string // symbolic size
	Cuts  []int  // delivery segmentation of the message under test (thorough, drawn limits)
}

func (k c10case) sig() string {
	return fmt.Sprintf("L=%d size=%s type=%c pos=%s mode=%s", k.L, k.SizeN, k.Type, k.Pos, k.Mode)
}

func c10validator(ctx context.Context, database, username, password string) (context.Context, bool, error) {
	hs.ConnOf(ctx).CB("validate", len(password))
	return ctx, true, nil
}

// body builds a valid message body of exactly n bytes for the types that carry free text.
var c10fills = []string{"q", "  \n\tSELECT  a ,\n    b\r\n  FROM   t", "\xc3\xa9\xe2\x82\xac ", "\t", "x \n"}
var c10fill int

func c10body(t byte, n int) ([]byte, bool) {
	// what a body is filled with varies from case to case: one letter, a formatted statement (line breaks,
	// indentation, runs of blanks, leading white space), multi-byte text, tabs
	fill := func(k int) []byte {
		pat := c10fills[c10fill%len(c10fills)]
		b := bytes.Repeat([]byte(pat), k/len(pat)+1)[:k]
		if k > 0 {
			b[0] = 'q' // (never a text of white space only: that would be a blank query)
		}
		return b
	}
	switch t {
	case 'Q', 'p', 'f':
		if n < 1 {
			return nil, false
		}
		return append(fill(n-1), 0), true
	case 'P':
		if n < 4 {
			return nil, false
		}
		b := []byte{0}
		b = append(b, fill(n-4)...)
		return append(b, 0, 0, 0), true
	case 'B':
		// portal "" stmt "" 0 fmts, 1 param of len n-12, 0 result fmts
		if n < 12 {
			return nil, false
		}
		b := []byte{0, 0, 0, 0, 0, 1}
		l := n - 12
		b = append(b, byte(l>>24), byte(l>>16), byte(l>>8), byte(l))
		b = append(b, fill(l)...)
		return append(b, 0, 0), true
	case 'd':
		return fill(n), true
	}
	return nil, false
}

func (ch c10) cases(L int, thorough bool) []c10case {
	eff := L
	if eff <= 0 {
		eff = 1 << 24
	}
	type sz struct {
		n    int64
		name string
	}
	l := int64(eff)
	sizes := []sz{{0, "0"}, {1, "1"}, {l - 1, "L-1"}, {l, "L"}, {l + 1, "L+1"}, {l + 2, "L+2"}, {2*l - 1, "2L-1"}, {2 * l, "2L"}, {2*l + 1, "2L+1"}, {3*l + 7, "3L+7"}, {10*l + 1, "10L+1"}}
	if thorough && eff < 1<<24 {
		sizes = append(sizes, sz{2, "2"}, sz{l - 2, "L-2"}, sz{l + 3, "L+3"}, sz{3 * l, "3L"}, sz{4*l - 1, "4L-1"}, sz{4 * l, "4L"}, sz{4*l + 1, "4L+1"}, sz{5*l + 5, "5L+5"}, sz{l / 2, "L/2"}, sz{l + l/2, "1.5L"})
	}
	var out []c10case
	types := []byte("QPBDECHSdcfp") // + unknown
	types = append(types, 'F')
	for _, pos := range []string{"first", "between", "batch", "skipping", "copy", "password", "startup", "tls"} {
		for _, t := range types {
			if (pos == "password" || pos == "startup") && t != 'p' {
				continue
			}
			if pos == "tls" && t != 'Q' && t != 'P' && t != 'F' {
				continue
			}
			if pos != "password" && pos != "startup" && t == 'p' {
				// a password message inside a session is just an unknown message type
			}
			for _, s := range sizes {
				if s.n < 0 {
					continue
				}
				if eff == 1<<24 && s.n > l+2 && s.name != "2L" {
					continue // default limit: keep the 16 MiB cases few
				}
				out = append(out, c10case{L: L, Eff: eff, Size: s.n, Type: t, Pos: pos, Mode: "body", SizeN: s.name})
			}
			for _, d := range []int64{1<<31 - 1, 1 << 31, 1<<32 - 5} {
				out = append(out, c10case{L: L, Eff: eff, Size: d, Type: t, Pos: pos, Mode: "declared", SizeN: fmt.Sprint(d)})
			}
			for d := int64(0); d < 4; d++ {
				out = append(out, c10case{L: L, Eff: eff, Size: d, Type: t, Pos: pos, Mode: "submin", SizeN: fmt.Sprintf("len=%d", d)})
			}
			if pos == "startup" && t == 'p' {
				// length words that spell the first bytes of other protocols a port may be spoken to in (a
				// PROXY-protocol preface, HTTP, SSH, SMTP, a TLS ClientHello) and their neighbours: lengths
				// like any other, far above the limit
				for _, w := range c10magic {
					v := int64(binary.BigEndian.Uint32([]byte(w)))
					for _, d := range []int64{v - 1, v, v + 1} {
						out = append(out, c10case{L: L, Eff: eff, Size: d - 4, Type: t, Pos: pos, Mode: "declared", SizeN: fmt.Sprintf("magic:%q%+d", w, d-v)})
					}
				}
			}
		}
	}
	return out
}

var c10magic = []string{"PROX", "GET ", "POST", "HEAD", "CONN", "SSH-", "HELO", "EHLO", "\x16\x03\x01\x02", "\x16\x03\x03\x00"}

func (ch c10) Run(c *core.Ctx) {
	core.AllocSanitizerOn()
	L := c10limits[c.Batch%len(c10limits)]
	part, parts := c.Batch/len(c10limits), ch.Batches(c.Tier)/len(c10limits)
	drawn := false
	if c.Tier == "thorough" {
		// first half: the fixed limits (4 parts each); second half: one drawn limit per batch
		parts = 4
		if c.Batch >= 4*len(c10limits) {
			drawn, part, parts = true, 0, 1
			r := core.NewRng(c.Seed, "C10-limit", c.Batch, 0)
			switch r.Intn(5) {
			case 0:
				L = 12 + r.Intn(52)
			case 1:
				L = 64 + r.Intn(960)
			case 2:
				L = 1024 + r.Intn(19000)
			case 3:
				L = 1<<(13+r.Intn(5)) - 1 + r.Intn(3)
			default:
				L = core.Pick(r, []int{1 << 20, 16384, 8192, 70000, 33})
			}
			c.Count("drawn_limits", 1)
		}
	}
	all := ch.cases(L, c.Tier == "thorough")
	eff := L
	if eff <= 0 {
		eff = 1 << 24
	}
	envTLS := hs.Start(hs.Parse, wire.MessageBufferSize(L), wire.TLSConfig(hs.ServerTLS()))
	defer envTLS.Stop()
	envPlain := hs.Start(hs.Parse, wire.MessageBufferSize(L))
	envAuth := hs.Start(hs.Parse, wire.MessageBufferSize(L), wire.SessionAuthStrategy(wire.ClearTextPassword(c10validator)))
	if part == 0 && c.Begin(95000000) {
		ch.backToBack(c, envPlain, eff)
	}
	// another server of the same process with a much larger limit: connections to it come and go between
	// the cases (whatever it leaves behind, the limit of a server is that server's own)
	envBig := hs.Start(hs.Parse, wire.MessageBufferSize(2*eff+1000)) // (its own buffers stay under the allocation bound of this process)
	defer envBig.Stop()
	visitBig := func() {
		for n := 0; n < 3; n++ {
			b := hs.NewClient(envBig.Dial(&hs.Sess{Default: func(string) *hs.Prog {
				return &hs.Prog{Stmts: []*hs.Stmt{{ID: "big", Ops: []hs.Op{{K: "complete", Tag: "OK"}}}}}
			}}))
			if b.StartupOK("u") == nil {
				b.Step(pg.Query("on the server with the larger limit " + strings.Repeat("x", eff+eff/2)))
			}
			b.Finish()
		}
		c.Count("visits_to_a_server_with_a_larger_limit", 1)
	}
	defer envPlain.Stop()
	defer envAuth.Stop()
	ran := 0
	for i, k := range all {
		if i%parts != part {
			continue
		}
		rng := core.NewRng(c.Seed, "C10", c.Batch, i)
		if c.Tier != "thorough" {
			// seeded subset; boundary sizes always kept
			keep := k.SizeN == "L" || k.SizeN == "L+1" || rng.Intn(4) == 0 || (strings.HasPrefix(k.SizeN, "magic") && (part+i)%3 == 0)
			if eff == 1<<24 {
				keep = (k.SizeN == "L" || k.SizeN == "L+1" || k.SizeN == "L-1") && (k.Type == 'Q' || k.Type == 'd' || k.Type == 'p' || k.Type == 'B') && rng.Intn(3) == 0 || (k.Mode != "body" && rng.Intn(6) == 0) || (k.Size < 2 && rng.Intn(8) == 0)
			}
			if !keep {
				continue
			}
		} else if eff == 1<<24 && k.Mode == "body" && k.Size > 2 && rng.Intn(4) != 0 {
			continue
		}
		if !c.Begin(i) || c.NViol() >= 10 {
			continue
		}
		if i%7 == 0 && eff < 1<<22 {
			visitBig()
		}
		if k.Pos == "tls" {
			ch.runTLS(c, envTLS, k)
			continue
		}
		if drawn && k.Mode == "body" && k.Size > 0 {
			n := int(k.Size) + 5
			for j := rng.Intn(4); j >= 0; j-- {
				k.Cuts = append(k.Cuts, core.Pick(rng, []int{1, 2, 4, 5, 6, k.Eff + 4, k.Eff + 5, k.Eff + 6, 1 + rng.Intn(n), 1 + rng.Intn(n)}))
			}
			sort.Ints(k.Cuts)
			c.Count("segmented_deliveries", 1)
		}
		ch.runCase(c, envPlain, envAuth, k, i)
		ran++
	}
	// allocation sanitizer over everything this process (one limit) did
	bound := int64(4*eff + 64<<10)
	c.Count("alloc_profile_checks", 1)
	for _, b := range core.LargeLibraryObjects(bound) {
		c.Violate("alloc", fmt.Sprintf("object of more than 4L+64KiB allocated in %s", b.Top), fmt.Sprintf("limit L=%d (effective %d): %d object(s) of %d bytes allocated under\n%s", L, eff, b.Count, b.Size, trim(b.Stack, 1500)), map[string]any{"L": L})
	}
}

// runTLS: the limit configured for the server also holds after a TLS upgrade.
func (ch c10) runTLS(c *core.Ctx, env *hs.Env, k c10case) {
	if k.Eff < 64 || k.Mode != "body" || k.Size > 1<<22 {
		return
	}
	cs := map[string]any{"case": k.sig()}
	over := k.Size > int64(k.Eff)
	var msg []byte
	if b, ok := c10body(k.Type, int(k.Size)); ok {
		msg = pg.Raw(k.Type, b)
	} else if over {
		msg = pg.Raw(k.Type, bytes.Repeat([]byte{'j'}, int(k.Size)))
	} else {
		return
	}
	probe := &hs.Prog{Stmts: []*hs.Stmt{{ID: "probe", Cols: textCols(1), Ops: []hs.Op{{K: "row", Vals: []any{"p"}}, {K: "complete", Tag: "SELECT 1"}}}}}
	sess := &hs.Sess{Default: func(string) *hs.Prog { return probe }}
	t, reply, err := c11upgrade(env, sess, nil, false, tls.VersionTLS13)
	if err != nil {
		c.Violate("tls-upgrade", "TLS upgrade failed", fmt.Sprintf("%q %v", reply, err), cs)
		return
	}
	defer func() { t.tc.Close(); t.conn.CloseWrite(); t.conn.WaitClosed() }()
	if out, _ := t.step(pg.Startup([][2]string{{"user", "u"}})); !strings.HasSuffix(replyKinds(out), "ZI") {
		c.Violate("tls-upgrade", "startup inside TLS failed", replyKinds(out), cs)
		return
	}
	evStart := len(t.conn.Events())
	out, closed := t.step(msg)
	got := pg.Types(mustMsgs(out))
	c.Count("tls_position_cases", 1)
	c.Eval(k.sig(), true)
	if closed {
		c.Violate("dropped", "connection dropped (tls position)", got, cs)
		return
	}
	parsed := 0
	for _, e := range t.conn.Events()[evStart:] {
		if e.Kind == "cb" && e.Name == "parse" {
			parsed++
		}
	}
	if over {
		if (got != "E" && got != "EZ") || parsed > 0 {
			c.Violate("tls-limit", fmt.Sprintf("after a TLS upgrade a message above the configured limit is not rejected (type %c size %s)", k.Type, k.SizeN), fmt.Sprintf("reply %q, parser invoked %d time(s)", got, parsed), cs)
			return
		}
		for _, m := range mustMsgs(out) {
			if m.T == 'E' && m.Err['C'] != "54000" {
				c.Violate("oversize-error", "oversized message not reported as 54000 (tls position)", fmt.Sprint(m.Err), cs)
				return
			}
		}
		c.Count("over_limit_skipped", 1)
	} else {
		if k.Type == 'F' || (k.Type == 'Q' && k.Size <= 1) {
			return // unknown type / the empty query: nothing to hand to the parser
		}
		if parsed != 1 {
			c.Violate("at-limit", "message of size <= L not processed after a TLS upgrade", fmt.Sprintf("reply %q", got), cs)
			return
		}
		c.Count("at_limit_processed", 1)
	}
	t.step(pg.Sync())
	if out, _ := t.step(pg.Query("probe-after")); pg.Types(mustMsgs(out)) != "TDCZ" {
		c.Violate("reply", "probe query after the message not answered normally (tls position)", replyKinds(out), cs)
		return
	}
	if over {
		c.Count("probe_after_oversize_ok", 1)
	}
}

func (ch c10) runCase(c *core.Ctx, envPlain, envAuth *hs.Env, k c10case, idx int) {
	c10fill = idx / 3
	cs := map[string]any{"case": k.sig()}
	viol := func(rule, sig, detail string) {
		c.Violate(rule, sig, fmt.Sprintf("case %s: %s", k.sig(), detail), cs)
	}
	over := k.Mode != "body" || k.Size > int64(k.Eff)
	nt := k.Mode != "body" || strings.Contains(k.SizeN, "L")
	// build the message under test
	var msg []byte
	valid := false
	switch k.Mode {
	case "body":
		if b, ok := c10body(k.Type, int(k.Size)); ok && (!over || k.Size <= 1<<26) {
			msg, valid = pg.Raw(k.Type, b), true
		} else if k.Size <= 1<<28 {
			msg = pg.Raw(k.Type, bytes.Repeat([]byte{'j'}, int(k.Size)))
		} else {
			return
		}
	case "declared":
		// little data follows, and it looks like a complete Query: it belongs to the
		// oversized body and must be skipped, never executed
		msg = pg.RawLen(k.Type, uint32(k.Size+4), append(pg.Query("smuggled-in-oversized-body"), pg.Sync()...))
	case "submin":
		msg = pg.RawLen(k.Type, uint32(k.Size), []byte{})
	}
	if !over && !valid {
		return // no valid message of this type and size exists
	}
	probeProg := &hs.Prog{Stmts: []*hs.Stmt{{ID: "probe", Cols: textCols(1), Ops: []hs.Op{{K: "row", Vals: []any{"p"}}, {K: "complete", Tag: "SELECT 1"}}}}}
	copyProg := &hs.Prog{Stmts: []*hs.Stmt{{ID: "copy", Cols: textCols(1), Ops: []hs.Op{{K: "copy", Copy: &hs.CopyPlan{Format: wire.TextFormat, MaxReads: -1, OnErr: "propagate"}}}}}}
	// the same COPY read through the library's binary row reader
	copyBinProg := &hs.Prog{Stmts: []*hs.Stmt{{ID: "copy", Cols: wire.Columns{{Name: "c0", Oid: oid.T_int4, Width: 4}}, Ops: []hs.Op{{K: "copy", Copy: &hs.CopyPlan{Format: wire.BinaryFormat, MaxReads: -1, OnErr: "propagate", Binary: true}}}}}}
	sess := &hs.Sess{Default: func(q string) *hs.Prog {
		switch {
		case q == "c":
			return copyProg
		case q == "cb":
			return copyBinProg
		case q == "e":
			return &hs.Prog{Err: &hs.ErrSpec{Base: "parse error", Wraps: []hs.Wrap{{K: 'c', S: "42601"}}}}
		}
		return probeProg
	}}
	minimal := k.Eff < 16 // only the smallest messages fit at all
	_ = minimal

	// ---- startup / password positions ----
	if k.Pos == "startup" {
		c.Count("startup_or_auth_oversize", 1)
		var pkt []byte
		switch k.Mode {
		case "body":
			if k.Size < 12 {
				return
			}
			// version + user=<padding> + terminator, body exactly Size
			val := bytes.Repeat([]byte{'u'}, int(k.Size)-11)
			body := append([]byte{0, 3, 0, 0}, []byte("user\x00")...)
			body = append(append(body, val...), 0, 0)
			pkt = append([]byte{byte((k.Size + 4) >> 24), byte((k.Size + 4) >> 16), byte((k.Size + 4) >> 8), byte(k.Size + 4)}, body...)
		default:
			pkt = msg[1:] // untyped: declared length + few bytes
			if strings.HasPrefix(k.SizeN, "magic") {
				// what follows the length word is the rest of such a protocol's first line, then a complete
				// start-up packet and a query: all of it inside the oversized packet
				pkt = append(append([]byte(nil), pkt[:4]...), []string{"Y TCP4 192.0.2.1 192.0.2.2 56324 5432\r\n", "/ HTTP/1.1\r\nHost: db\r\n\r\n", "2.0-OpenSSH_9.6\r\n", " db.example.org\n", "\n"}[idx%5]...)
				pkt = append(append(pkt, pg.Startup([][2]string{{"user", "u"}})...), pg.Query("smuggled-behind-a-preface")...)
				c.Count("startup_lengths_spelling_other_protocols", 1)
			}
		}
		cl := hs.NewClient(envPlain.Dial(sess))
		stalled := over && k.Mode == "body" && idx%3 == 1 && len(pkt) > 24
		if stalled {
			// only the length word, the version and a few more bytes arrive, then the client waits: the
			// declared length alone condemns the packet
			pkt = pkt[:8+idx%12]
			c.Count("oversized_startup_client_stalls", 1)
		}
		cl.C.Send(pkt)
		if k.Mode != "body" {
			cl.C.CloseWrite()
		}
		closed, _ := cl.C.Quiesce()
		if hangCheck(c, cl, cs) {
			return
		}
		out := cl.C.Out()
		if over {
			if !closed || bytes.ContainsAny(out, "RZ") && strings.Contains(replyKinds(out), "Z") {
				viol("startup-oversize", "oversized/invalid startup packet did not end the connection", fmt.Sprintf("closed=%v reply=%s", closed, replyKinds(out)))
			}
			c.Count("over_limit_skipped", 1)
		} else {
			if closed || !strings.HasSuffix(replyKinds(out), "ZI") {
				viol("at-limit", "startup packet of size <= L not processed", fmt.Sprintf("closed=%v reply=%s", closed, replyKinds(out)))
			} else {
				c.Count("at_limit_processed", 1)
			}
			cl.Finish()
		}
		c.Eval(k.sig(), nt)
		return
	}
	if k.Pos == "password" {
		if k.Eff < 12 {
			return
		}
		c.Count("startup_or_auth_oversize", 1)
		cl := hs.NewClient(envAuth.Dial(sess))
		cl.C.Send(pg.Startup([][2]string{{"user", "u"}}))
		cl.C.Quiesce()
		cl.C.Send(msg)
		if k.Mode != "body" && !(k.Mode == "declared" && idx%2 == 0) {
			cl.C.CloseWrite()
		} else if k.Mode == "declared" {
			// the client has sent the head of a huge password message and waits: the connection ends on the
			// declared length, not after the declared number of bytes has been read
			c.Count("stalled_oversized_password_messages", 1)
		}
		closed, _ := cl.C.Quiesce()
		if hangCheck(c, cl, cs) {
			return
		}
		out := cl.C.Out()
		validated := false
		for _, e := range cl.C.Events() {
			if e.Kind == "cb" && e.Name == "validate" {
				validated = true
				if !over && e.Data.(int) != int(k.Size)-1 {
					viol("at-limit", "password of size <= L truncated", fmt.Sprintf("validator saw %d bytes", e.Data.(int)))
				}
			}
		}
		if over {
			if !closed || validated || strings.Contains(replyKinds(out), "Z") || strings.Contains(replyKinds(out), "R(0)") {
				viol("auth-oversize", "oversized/invalid password message did not end the connection", fmt.Sprintf("closed=%v validated=%v reply=%s", closed, validated, replyKinds(out)))
			}
			c.Count("over_limit_skipped", 1)
		} else if closed || !validated || !strings.HasSuffix(replyKinds(out), "ZI") {
			viol("at-limit", "password message of size <= L not processed", fmt.Sprintf("closed=%v validated=%v reply=%s", closed, validated, replyKinds(out)))
		} else {
			c.Count("at_limit_processed", 1)
			cl.Finish()
		}
		c.Eval(k.sig(), nt)
		return
	}
	// ---- in-session positions ----
	if k.Eff < 12 {
		return // no session possible: the startup packet itself exceeds the limit (covered above)
	}
	cl := hs.NewClient(envPlain.Dial(sess))
	if err := cl.StartupOK("u"); err != nil {
		viol("startup", "startup failed", err.Error())
		return
	}
	defer cl.Finish()
	expect := func(what string, in []byte, want ...string) (string, bool) {
		var out []byte
		var closed bool
		if len(k.Cuts) > 0 && (what == "oversized message" || what == "message at or below the limit") {
			cl.C.SendCut(in, k.Cuts)
			out, closed = cl.Wait()
		} else {
			out, closed = cl.Step(in)
		}
		if hangCheck(c, cl, cs) {
			return "", false
		}
		msgs, err := parseAll(out)
		if err != nil {
			viol("grammar", "reply not well-formed after "+what, err.Error())
			return "", false
		}
		got := pg.Types(msgs)
		if closed {
			viol("dropped", "connection dropped after "+what, "reply "+got)
			return got, false
		}
		for _, w := range want {
			if got == w {
				for _, m := range msgs {
					if m.T == 'E' && what == "oversized message" && (m.Err['C'] != "54000" || m.Err['S'] != "ERROR") {
						viol("oversize-error", "oversized message not reported as ERROR/54000", fmt.Sprint(m.Err))
						return got, false
					}
				}
				return got, true
			}
		}
		viol("reply", fmt.Sprintf("after %s (type %c pos %s mode %s size %s): got %q", what, k.Type, k.Pos, k.Mode, k.SizeN, got), fmt.Sprintf("want one of %q", want))
		return got, false
	}
	q := func(text string) []byte { return pg.Query(text) }
	small := k.Eff >= 16 // room for "x\0"-sized queries only when tiny
	_ = small
	inCopy := false
	switch k.Pos {
	case "between":
		// the message before the one under test: a few bytes, or a body around the 4 KiB granule, or one
		// that fills the limit
		first := "a"
		if n := []int{0, 0, 4094, 4095, 4096, 5000, 8191, 8192, k.Eff - 1}[idx%9]; n > 0 && n < k.Eff && n <= 1<<20 {
			first = "a" + strings.Repeat(" ", n-1)
			c.Count("large_message_before_the_message_under_test", 1)
		}
		if _, ok := expect("first query", q(first), "TDCZ"); !ok {
			return
		}
	case "batch":
		if _, ok := expect("Parse", pg.Parse("s", "a", nil), "1"); !ok {
			return
		}
	case "skipping":
		if _, ok := expect("failing Parse", pg.Parse("s", "e", nil), "E"); !ok {
			return
		}
	case "copy":
		if over && idx%3 == 1 {
			// the handler reads rows through the binary row reader, and the oversized message is the first one
			// of the stream or follows the first bytes of the file header
			if _, ok := expect("COPY query (binary row reader)", q("cb"), "TG"); !ok {
				return
			}
			// ... or the file header and the beginning of a row: its field count, part of a field
			hdr := append([]byte("PGCOPY\n\xff\r\n\x00"), make([]byte, 8)...)
			lead := [][]byte{nil, []byte("PGCOP"), append(append([]byte{}, hdr...), 0, 1), append(append([]byte{}, hdr...), 0, 1, 0, 0, 0, 4, 0, 0)}[(idx/3)%4]
			if len(lead) > 0 && k.Eff >= len(lead) {
				if _, ok := expect("beginning of the binary COPY stream", pg.CopyData(lead), ""); !ok {
					return
				}
			}
			c.Count("oversized_message_at_the_start_of_a_binary_copy_stream", 1)
		} else if _, ok := expect("COPY query", q("c"), "TG"); !ok {
			return
		}
		inCopy = true
	}
	evStart := len(cl.C.Events())
	if !over {
		// processed normally
		want := map[byte][]string{'Q': {"TDCZ"}, 'P': {"1"}, 'B': {"E"}, 'd': {""}, 'f': {""}, 'p': {"E", "EZ"}}[k.Type]
		if k.Type == 'Q' && k.Size == 1 {
			want = []string{"IZ"} // the empty query
		}
		if k.Pos == "skipping" && k.Type != 'd' {
			want = []string{""}
		}
		if k.Pos == "skipping" && k.Type == 'Q' {
			want = []string{""}
		}
		if inCopy {
			switch k.Type {
			case 'd':
				want = []string{""}
			case 'f':
				want = []string{"EZ"}
			default:
				want = []string{"EZ"} // a non-COPY message aborts the COPY
			}
		}
		if k.Type == 'B' && k.Pos == "batch" {
			want = []string{"E"} // Bind to the unknown unnamed statement
		}
		if _, ok := expect("message at or below the limit", msg, want...); !ok {
			return
		}
		// content reached the callback exactly
		for _, e := range cl.C.Events()[evStart:] {
			if e.Kind != "cb" {
				continue
			}
			switch e.Name {
			case "parse":
				if n := len(e.Data.(hs.ParseRec).Query); (k.Type == 'Q' && n != int(k.Size)-1) || (k.Type == 'P' && n != int(k.Size)-4) {
					viol("at-limit", "message of size <= L truncated", fmt.Sprintf("parser saw %d bytes", n))
				}
			case "copyread":
				if r := e.Data.(hs.CopyRec); r.ErrNil && len(r.Chunk) != int(k.Size) {
					viol("at-limit", "CopyData of size <= L truncated", fmt.Sprintf("handler saw %d bytes", len(r.Chunk)))
				}
			}
		}
		c.Count("at_limit_processed", 1)
	} else {
		switch k.Mode {
		case "declared":
			// little data then EOF: the connection must simply end (no crash, no huge allocation)
			c.Count("declared_only_huge", 1)
			cl.C.Send(msg)
			cl.C.CloseWrite()
			if ok := cl.C.WaitClosed(); !ok {
				cl.Hung = true
				hangCheck(c, cl, cs)
			}
			for _, e := range cl.C.Events()[evStart:] {
				if e.Kind == "cb" && (e.Name == "parse" || e.Name == "exec") {
					viol("fabricated", "callback from a truncated oversized message", e.Name)
				}
			}
			c.Eval(k.sig(), nt)
			return
		case "submin":
			c.Count("sub_minimum_lengths", 1)
			cl.C.Send(msg)
			cl.C.Quiesce()
			if hangCheck(c, cl, cs) {
				return
			}
			for _, e := range cl.C.Events()[evStart:] {
				if e.Kind == "cb" && (e.Name == "parse" || e.Name == "exec") {
					viol("fabricated", "callback from a message with a declared length below 4", e.Name)
				}
			}
			if _, err := parseAll(cl.C.Out()); err != nil {
				viol("grammar", "reply not well-formed after sub-minimum length", err.Error())
			}
			c.Eval(k.sig(), nt)
			return
		}
		want := []string{"E", "EZ"}
		if k.Type == 'Q' && (k.Pos == "first" || k.Pos == "between") {
			want = []string{"EZ"}
		}
		if k.Pos == "skipping" {
			want = []string{"", "E", "EZ"}
		}
		if inCopy {
			want = []string{"EZ"}
			c.Count("copy_mode_oversize", 1)
		}
		if idx%5 == 1 && len(k.Cuts) == 0 {
			// the messages after the oversized one arrive together with it (a pipelining client: one write,
			// one segment): skipped is the declared size and not a byte more
			var wants []string
			for _, w := range want {
				wants = append(wants, w+"Z"+"TDCZ")
			}
			in := append(append(append([]byte{}, msg...), pg.Sync()...), q("probe-after")...)
			if _, ok := expect("oversized message with Sync and a query behind it in the same segment", in, wants...); !ok {
				return
			}
			probed := false
			for _, e := range cl.C.Events()[evStart:] {
				if e.Kind == "cb" && e.Name == "parse" && e.Data.(hs.ParseRec).Query == "probe-after" {
					probed = true
				} else if e.Kind == "cb" && (e.Name == "parse" || e.Name == "exec" && !probed) {
					viol("fabricated", "callback from an oversized message", e.Name)
				}
			}
			c.Count("over_limit_skipped", 1)
			c.Count("pipelined_behind_oversize", 1)
			c.Eval(k.sig()+" pipelined", nt)
			return
		}
		if idx%5 == 3 && len(k.Cuts) == 0 {
			// a transport without a buffer of its own and a client that writes the whole message before it
			// reads: the answer can only be written once the message has been consumed
			cl.C.SyncWrites = true
			c.Count("oversized_over_unbuffered_transport", 1)
		}
		_, ok := expect("oversized message", msg, want...)
		if cl.C.Deadlocked() {
			viol("wedge", "oversized message answered before it was consumed: over a transport without buffering the server waits for the client to read while the client waits for the server to take the rest of the message", fmt.Sprintf("type %c size %s position %s", k.Type, k.SizeN, k.Pos))
			cl.C.Unstick()
			return
		}
		cl.C.SyncWrites = false
		if !ok {
			return
		}
		for _, e := range cl.C.Events()[evStart:] {
			if e.Kind == "cb" && (e.Name == "parse" || e.Name == "exec") {
				viol("fabricated", "callback from an oversized message", e.Name)
			}
		}
		c.Count("over_limit_skipped", 1)
	}
	// resynchronisation probe: the following messages must be framed correctly
	if inCopy && !over && k.Type == 'd' {
		if _, ok := expect("CopyDone", pg.CopyDone(), "CZ"); !ok {
			return
		}
	}
	// "the message after it is processed normally": in half of the oversized cases the next message
	// follows at once, with no Sync in between (not while the server is already discarding until Sync)
	if over && idx%3 == 0 {
		// the client stays silent for a long while after the oversized message (virtual time: a read
		// deadline left pending by the server fires); the session must simply go on afterwards
		cl.C.Pause()
		if _, ok := expect("a long client pause after the oversized message", nil, ""); !ok {
			return
		}
		c.Count("pauses_after_oversize", 1)
	}
	direct := over && k.Pos != "skipping" && idx%2 == 0
	if direct && k.Pos == "batch" && idx%4 == 0 {
		// the statement prepared before the oversized message is still there and can be described
		if _, ok := expect("Describe right after the oversized message", pg.Describe('S', "s"), "tT"); !ok {
			return
		}
		c.Count("next_message_without_sync", 1)
		direct = false
	}
	if !direct {
		if _, ok := expect("Sync after the message", pg.Sync(), "Z"); !ok {
			return
		}
	} else {
		c.Count("next_message_without_sync", 1)
	}
	if _, ok := expect("probe query", q("probe-after"), "TDCZ"); !ok {
		return
	}
	if over {
		c.Count("probe_after_oversize_ok", 1)
	}
	if over && !inCopy && idx%6 == 2 && k.Eff >= 64 && k.Eff < 1<<22 {
		// what is bound after an oversized message stays what it is when another oversized message (here, or
		// on a neighbour connection) is skipped before it is executed
		marker := fmt.Sprintf("kept across a skipped message %d", idx)
		if _, ok := expect("Parse + Bind after the oversized message", append(append(pg.Parse("keep", "probe-after", nil), pg.Bind("kp", "keep", nil, [][]byte{[]byte(marker)}, nil)...), pg.Sync()...), "12Z"); !ok {
			return
		}
		big := pg.Raw('Q', append(bytes.Repeat([]byte{'x'}, k.Eff+1), 0))
		nb := hs.NewClient(envPlain.Dial(sess))
		if nb.StartupOK("neighbour") == nil {
			nb.Step(big)
			nb.Finish()
		}
		if _, ok := expect("oversized message", big, "EZ"); !ok {
			return
		}
		evs := len(cl.C.Events())
		if _, ok := expect("Execute of the portal bound before the second oversized message", append(pg.Execute("kp", 0), pg.Sync()...), "DCZ"); !ok {
			return
		}
		for _, e := range cl.C.Events()[evs:] {
			if e.Kind == "cb" && e.Name == "exec" {
				if r := e.Data.(hs.ExecRec); len(r.Params) != 1 || string(r.Params[0]) != marker {
					viol("next-message", "a portal bound after an oversized message runs with other parameter bytes once another oversized message was skipped", fmt.Sprintf("statement saw %q, bound %q", r.Params, marker))
					return
				}
				c.Count("portals_kept_across_a_second_oversized_message", 1)
			}
		}
		// the same for the unnamed portal. Whether it outlives a Sync at all is this server's business: it is
		// bound and executed across a Sync once without and once with an oversized message in between, and the
		// two Executes are answered alike (a refused message has no effect on what the session holds)
		bindU := append(pg.Bind("", "keep", nil, [][]byte{[]byte(marker)}, nil), pg.Sync()...)
		if _, ok := expect("Bind of the unnamed portal", bindU, "2Z"); !ok {
			return
		}
		plain, ok := expect("Execute of the unnamed portal after a Sync", append(pg.Execute("", 0), pg.Sync()...), "DCZ", "EZ")
		if !ok {
			return
		}
		if _, ok := expect("Bind of the unnamed portal", bindU, "2Z"); !ok {
			return
		}
		if _, ok := expect("oversized message", big, "EZ"); !ok {
			return
		}
		if _, ok := expect("Execute of the unnamed portal bound before an oversized message (answered "+plain+" without that message in between)", append(pg.Execute("", 0), pg.Sync()...), plain); !ok {
			return
		}
		c.Count("unnamed_portals_used_across_an_oversized_message", 1)
	}
	if inCopy && k.Eff < 1<<22 {
		// whatever ended the COPY (the client, or the server on an oversized / foreign message): the
		// configured limit is the limit of the session afterwards as before
		if _, ok := expect("oversized message", pg.Raw('Q', append(bytes.Repeat([]byte{'o'}, k.Eff), 0)), "EZ"); !ok {
			return
		}
		c.Count("limit_checked_after_copy", 1)
	}
	c.Eval(k.sig(), nt)
	if idx%97 == 0 {
		c.Sample(map[string]any{"case": k.sig(), "server_output": trim(replyKinds(cl.C.Out()), 200)})
	}
}

var _ = oid.T_text

// backToBack: refused messages that follow each other directly - oversized then oversized, a length word
// below the minimum then oversized, an oversized chunk during COPY then another oversized message - the
// later ones made of well-formed Query messages. Each is skipped in full: nothing inside them reaches the
// parser, and the probe behind them is answered.
func (ch c10) backToBack(c *core.Ctx, env *hs.Env, eff int) {
	if eff > 1<<20 || eff < 100 {
		return // (below that the start-up packet and the probe do not fit either)
	}
	inner := pg.Query("smuggled inside the second of two refused messages")
	train := func(n int) []byte {
		var b []byte
		for len(b) < n {
			b = append(b, inner...)
		}
		return b[:n]
	}
	probe := &hs.Prog{Stmts: []*hs.Stmt{{ID: "probe", Cols: textCols(1), Ops: []hs.Op{{K: "row", Vals: []any{"p"}}, {K: "complete", Tag: "SELECT 1"}}}}}
	copyProg := &hs.Prog{Stmts: []*hs.Stmt{{ID: "copy", Cols: textCols(1), Ops: []hs.Op{{K: "copy", Copy: &hs.CopyPlan{Format: wire.TextFormat, MaxReads: -1, OnErr: "propagate"}}}}}}
	for v := 0; v < 6; v++ {
		sess := &hs.Sess{Default: func(q string) *hs.Prog {
			if q == "c" {
				return copyProg
			}
			return probe
		}}
		cl := hs.NewClient(env.Dial(sess))
		if err := cl.StartupOK("u"); err != nil {
			c.Violate("startup", "startup failed", err.Error(), nil)
			return
		}
		big := func(t byte, n int) []byte { return pg.Raw(t, train(n)) }
		var in []byte
		switch v {
		case 0:
			in = append(big('Q', eff+1), big('Q', eff+7)...)
		case 1:
			in = append(append(big('P', 2*eff), big('B', eff+1)...), big('Q', 3*eff+5)...)
		case 2:
			in = append(pg.Sync(), append(big('D', eff+2), big('Q', eff+1)...)...)
		case 3:
			in = append(append(pg.Query("c"), pg.CopyData([]byte("a\n"))...), append(big('d', eff+1), big('d', eff+9)...)...)
		case 4:
			in = append(append(pg.Query("c"), big('d', eff+3)...), big('Q', 2*eff+1)...)
		case 5:
			in = append(append(big('Q', eff+1), pg.Flush()...), big('Q', eff+2)...)
		}
		in = append(append(in, pg.Sync()...), pg.Query("probe behind refused messages")...)
		out, closed := cl.Step(in)
		if hangCheck(c, cl, nil) {
			return
		}
		var parsed []string
		for _, e := range cl.C.Events() {
			if e.Kind == "cb" && e.Name == "parse" {
				parsed = append(parsed, e.Data.(hs.ParseRec).Query)
			}
		}
		cl.Finish()
		c.Count("refused_messages_back_to_back", 1)
		c.Eval(fmt.Sprintf("back to back %d", v), true)
		cs := map[string]any{"workload": "refused messages back to back", "variant": v, "limit": eff}
		for _, q := range parsed {
			if strings.HasPrefix(q, "smuggled") {
				c.Violate("smuggled", "bytes inside a refused message reached the parser (refused messages back to back)", fmt.Sprintf("variant %d: parser saw %q; reply %s", v, parsed, trim(replyKinds(out), 300)), cs)
				return
			}
		}
		if closed || len(parsed) == 0 || parsed[len(parsed)-1] != "probe behind refused messages" || !strings.HasSuffix(pg.Types(mustMsgs(out)), "TDCZ") {
			c.Violate("reply", "the query behind refused messages that follow each other directly is not served", fmt.Sprintf("variant %d: closed=%v parser saw %q; reply %s", v, closed, parsed, trim(replyKinds(out), 300)), cs)
			return
		}
	}
}
