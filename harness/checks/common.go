// Package checks holds one monitor/oracle per property.
package checks

import (
	"fmt"
	"strings"

	wire "github.com/jeroenrinzema/psql-wire"
	"github.com/lib/pq/oid"

	"verifharness/core"
	"verifharness/hs"
	"verifharness/pg"
	"verifharness/tr"
)

type trEvent = tr.Event

type base struct {
	id          string
	race        bool
	level       string
	rule        string
	need        []string
	assumptions []string
	quickB      int
	thoroughB   int
}

func (b base) ID() string            { return b.id }
func (b base) Race() bool            { return b.race }
func (b base) Level() string         { return b.level }
func (b base) Rule() string          { return b.rule }
func (b base) Need() []string        { return b.need }
func (b base) Assumptions() []string { return b.assumptions }
func (b base) Batches(tier string) int {
	if tier == "thorough" {
		return b.thoroughB
	}
	return b.quickB
}

var commonAssumptions = []string{
	"verdict covers only the executions produced by this run (seeded generators/enumerators); nothing is claimed about inputs, configurations or interleavings not produced",
	"the in-memory transport (harness/tr) faithfully presents net.Conn semantics to the library; one goroutine serves one connection",
	"the independent codec (harness/pg) implements the PostgreSQL v3 message grammar correctly",
}

func textCols(n int) wire.Columns {
	cols := wire.Columns{}
	for i := 0; i < n; i++ {
		cols = append(cols, wire.Column{Name: fmt.Sprintf("c%d", i), Oid: oid.T_text, Width: -1})
	}
	return cols
}

// hangCheck reports a wedged connection: quiescence never reached.
func hangCheck(c *core.Ctx, cl *hs.Client, cs any) bool {
	if !cl.Hung {
		return false
	}
	dump, lib := core.ClassifyHang()
	if len(lib) > 0 {
		c.Violate("wedge", "goroutine blocked or spinning inside library: "+strings.Join(lib, "; "), "the serving goroutine neither answered, nor blocked for input, nor closed the connection\n"+trim(dump, 3000), cs)
	} else if cl.C.Abandoned(dump) {
		c.Violate("abandoned", "the goroutine that served the connection has ended without closing it: the client waits for ever", "no goroutine is left that reads this connection, and the server side was never closed\n"+trim(replyKinds(cl.C.Out()), 300), cs)
	} else if _, ok := cl.C.Quiesce(); ok {
		// nothing is stuck and the connection has come to rest after all: the step merely took longer than
		// the watchdog allows (a machine with far more runnable threads than cores). The case is not judged.
		c.Count("cases_not_judged_on_a_slow_machine", 1)
		cl.Hung = false
		return true
	} else {
		c.Inconclusive("watchdog fired without a library-blocked goroutine")
	}
	c.Finish() // a wedged goroutine would also wedge Server.Close: end the child now
	return true
}

func trim(s string, n int) string {
	if len(s) > n {
		return s[:n] + "..."
	}
	return s
}

// parseAll strictly parses server output that must end on a message boundary.
func parseAll(out []byte) ([]pg.BMsg, error) {
	msgs, rest, err := pg.ParseStream(out)
	if err != nil {
		return msgs, err
	}
	if rest != 0 {
		return msgs, fmt.Errorf("output ends with a partial message of %d byte(s)", rest)
	}
	return msgs, nil
}

func hexs(b []byte) string {
	if len(b) > 64 {
		return fmt.Sprintf("%x...(%d bytes)", b[:64], len(b))
	}
	return fmt.Sprintf("%x", b)
}

// expMsg is one expected backend message (only the populated fields are compared).
type expMsg struct {
	T       byte
	Tag     string
	NCols   int
	Vals    [][]byte
	Code    string
	Msg     string
	Names   []string
	Fmts    []int16
	OIDs    []uint32
	NParams int
	POIDs   []oid.Oid
}

func init() {
	// servers of odd batches log at every level (into nowhere): behaviour must not depend on it
	core.BeforeRun = func(c *core.Ctx) {
		hs.LogAll = c.Batch%2 == 1
		if hs.LogAll {
			c.Count("batches_with_debug_logging", 1)
		}
	}
}
