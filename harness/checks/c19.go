package checks

import (
	"context"
	"errors"
	"fmt"
	"io"
	"os"
	"runtime"
	"strings"
	"sync"
	"sync/atomic"
	"time"

	wire "github.com/jeroenrinzema/psql-wire"
	"github.com/jeroenrinzema/psql-wire/codes"
	psqlerr "github.com/jeroenrinzema/psql-wire/errors"

	"verifharness/core"
	"verifharness/hs"
	"verifharness/pg"
	"verifharness/tr"
)

// C19 - Session lifecycle: middleware order, context propagation, terminate hook.

type c19 struct{ base }

func init() {
	core.Register(c19{base{id: "C19", level: "exploration", quickB: 16, thoroughB: 32,
		rule:        "all (n, failing position) pairs for n = 0..6 session middlewares (each adds context key i, asserts keys 0..i-1, records the transport write offset at invocation) x {with, without password auth} x {with, without terminate hook} x {transport whose Close succeeds / reports an error} x ending {Terminate, EOF, Terminate pipelined after a query} x generated command histories (simple queries incl. padded ones of 4 KiB, Parse/Bind/Execute batches, failing queries; 0-5 commands, one connection in ten 120-320 commands); parser and statement callbacks capture their context: Err()==nil on entry and exit, all middleware keys, client/server parameters, remote address and type map present; every captured per-command context must report context.Canceled once the next command is served and at connection end; a failing middleware must end the connection with no command served; the terminate hook runs exactly once iff Terminate was sent, and the server closes the connection. Non-trivial = n >= 2 or a failing position or a Terminate ending; distinct = (n, failing position, auth, hook, ending, history shape).",
		need:        []string{"connections", "middleware_invocations", "callback_contexts_checked", "command_contexts_cancelled", "middleware_failures", "terminate_hook_runs", "eof_endings"},
		assumptions: commonAssumptions}})
}

type c19key int

// who returns the user and database the connection has announced (default: lifecycle / db).
func (s *c19conn) who() (string, string) {
	if s.user == "" {
		return "lifecycle", "db"
	}
	return s.user, s.db
}

type c19conn struct {
	app       string
	user, db  string
	mwOrder   []int
	mwOffsets []int
	problems  []string
	ctxs      []context.Context
	term      atomic.Int32
	parses    int
	execs     int
	// a slow terminate hook / a statement held by the harness (both optional)
	hookGate, hookEntered chan struct{}
	stmtGate, stmtEntered chan struct{}
}

type c19cfg struct {
	N      int
	FailAt int // -1 none
	Auth   bool
	Hook   bool
	// Rests: the server has every timeout this tree offers set to 25 ms (exported duration fields; none on the
	// pinned tree) and the client rests for several such periods before its first command
	Rests bool
}

// c19lost: a callback whose context does not lead back to its connection (the remote address in it is not
// the address the connection was accepted from).
var c19lost atomic.Pointer[string]

func c19connOf(ctx context.Context) *tr.Conn {
	if cn := hs.ConnOf(ctx); cn != nil {
		return cn
	}
	msg := fmt.Sprintf("the remote address in a callback's context is %v (%T): not the address of any accepted connection", wire.RemoteAddress(ctx), wire.RemoteAddress(ctx))
	c19lost.CompareAndSwap(nil, &msg)
	return tr.NewConn(&c19conn{})
}

func (ch c19) server(cfg c19cfg) *hs.Env {
	var opts []wire.OptionFn
	for i := 0; i < cfg.N; i++ {
		i := i
		opts = append(opts, wire.SessionMiddleware(func(ctx context.Context) (context.Context, error) {
			conn := c19connOf(ctx)
			st := conn.User.(*c19conn)
			st.mwOrder = append(st.mwOrder, i)
			st.mwOffsets = append(st.mwOffsets, conn.WOff())
			for j := 0; j < cfg.N; j++ {
				v := ctx.Value(c19key(j))
				if j < i && v != j {
					st.problems = append(st.problems, fmt.Sprintf("middleware %d does not see the value of middleware %d", i, j))
				}
				if j >= i && v != nil {
					st.problems = append(st.problems, fmt.Sprintf("middleware %d already sees the value of middleware %d", i, j))
				}
			}
			if cfg.FailAt == i {
				// whatever severity or code the error carries, a middleware error ends the connection
				err := errors.New("middleware refuses the session")
				switch (cfg.N + 3*i) % 11 {
				case 7:
					// errors of the "try again later" kind: a middleware error is a middleware error
					return ctx, fmt.Errorf("session store: %w", context.DeadlineExceeded)
				case 8:
					return ctx, tr.ErrTemporary
				case 9:
					return ctx, psqlerr.WithCode(fmt.Errorf("lookup: %w", os.ErrDeadlineExceeded), codes.ConnectionFailure)
				case 10:
					return ctx, fmt.Errorf("backend: %w", io.ErrUnexpectedEOF)
				case 1:
					return ctx, psqlerr.WithSeverity(err, psqlerr.LevelWarning)
				case 2:
					return ctx, psqlerr.WithSeverity(psqlerr.WithCode(err, codes.Warning), psqlerr.LevelNotice)
				case 3:
					return ctx, psqlerr.WithSeverity(err, psqlerr.LevelInfo)
				case 4:
					return ctx, psqlerr.WithSeverity(err, psqlerr.LevelLog)
				case 5:
					return ctx, psqlerr.WithSeverity(psqlerr.WithHint(err, "try later"), psqlerr.LevelDebug)
				case 6:
					return ctx, psqlerr.WithSeverity(err, psqlerr.LevelFatal)
				}
				return ctx, err
			}
			return context.WithValue(ctx, c19key(i), i), nil
		}))
	}
	if cfg.Auth {
		opts = append(opts, wire.SessionAuthStrategy(wire.ClearTextPassword(func(ctx context.Context, db, user, pw string) (context.Context, bool, error) {
			if pw == "late-failure" {
				// the password matched but a later step of the validator failed: not a successful authentication
				return ctx, true, errors.New("validator: role lookup failed after the password matched")
			}
			return ctx, true, nil
		})))
	}
	if cfg.Hook {
		opts = append(opts, wire.TerminateConn(func(ctx context.Context) error {
			st := c19connOf(ctx).User.(*c19conn)
			st.term.Add(1)
			if st.hookGate != nil {
				st.hookEntered <- struct{}{}
				select {
				case <-st.hookGate:
				case <-time.After(60 * time.Second):
				}
			}
			return nil
		}))
	}
	if cfg.Hook && cfg.N%2 == 0 {
		// a second, different hook option registered behind it must not take its place
		opts = append(opts, wire.CloseConn(func(ctx context.Context) error { return nil }))
	}
	gp := wire.Parameters{"application_name": "verif", "search_path": "tenant_7, public", "tenant.region": "eu-west", "datestyle": "ISO, DMY", "crdb_version": "verif 1.0"}
	// (the number of configured parameters varies with the configuration: 5 .. 11)
	extra := cfg.N
	if cfg.Hook {
		extra += 3
	}
	for j := 0; j < extra%7; j++ {
		gp[wire.ParameterStatus(fmt.Sprintf("tenant.setting_%d", j))] = fmt.Sprintf("value %d", j)
	}
	opts = append(opts, wire.GlobalParameters(gp))
	check := func(ctx context.Context, where string) {
		st := c19connOf(ctx).User.(*c19conn)
		if ctx.Err() != nil {
			st.problems = append(st.problems, where+": context already cancelled while the command is running")
		}
		for j := 0; j < cfg.N; j++ {
			if ctx.Value(c19key(j)) != j {
				st.problems = append(st.problems, fmt.Sprintf("%s: value of middleware %d missing from the command context", where, j))
			}
		}
		user, db := st.who()
		if cp := wire.ClientParameters(ctx); cp["user"] != user || cp["database"] != db || cp["options"] != "" || cp["application_name"] != st.app || len(cp) != 4 {
			st.problems = append(st.problems, fmt.Sprintf("%s: client parameters in the command context are %v, sent: options=\"\" user=%s application_name=%q database=%s", where, cp, user, st.app, db))
		}
		if sp := wire.ServerParameters(ctx); sp["application_name"] != "verif" || sp["server_encoding"] != "UTF8" || sp["search_path"] != "tenant_7, public" || sp["tenant.region"] != "eu-west" || sp["datestyle"] != "ISO, DMY" || sp["crdb_version"] != "verif 1.0" {
			st.problems = append(st.problems, where+": server parameters missing from the command context")
		} else if sa := sp["session_authorization"]; sa != user {
			st.problems = append(st.problems, fmt.Sprintf("%s: session_authorization in this connection's context is %q, the connection belongs to %q", where, sa, user))
		}
		if ra := wire.RemoteAddress(ctx); ra == nil {
			st.problems = append(st.problems, where+": remote address missing from the command context")
		} else if cn := tr.FromAddr(ra); cn == nil || cn.User != any(st) {
			st.problems = append(st.problems, fmt.Sprintf("%s: the remote address in the command context is %v, not the address the connection was accepted from", where, ra))
		}
		if wire.TypeMap(ctx) == nil {
			st.problems = append(st.problems, where+": type map missing from the command context")
		}
	}
	parse := func(ctx context.Context, query string) (wire.PreparedStatements, error) {
		st := c19connOf(ctx).User.(*c19conn)
		st.parses++
		st.ctxs = append(st.ctxs, ctx)
		check(ctx, "parser entry")
		defer check(ctx, "parser exit")
		if query == "fail" {
			return nil, errors.New("scripted failure")
		}
		mk := func() *wire.PreparedStatement {
			return wire.NewStatement(func(ctx context.Context, w wire.DataWriter, _ []wire.Parameter) error {
				st.execs++
				st.ctxs = append(st.ctxs, ctx)
				check(ctx, "statement entry (one of several statements of a Query)")
				defer check(ctx, "statement exit (one of several statements of a Query)")
				return w.Complete("OK")
			})
		}
		if strings.HasPrefix(query, "several") {
			return wire.PreparedStatements{mk(), mk(), mk()}, nil
		}
		return wire.Prepared(wire.NewStatement(func(ctx context.Context, w wire.DataWriter, _ []wire.Parameter) error {
			st.execs++
			st.ctxs = append(st.ctxs, ctx)
			check(ctx, "statement entry")
			defer check(ctx, "statement exit")
			if query == "stmtfail" {
				return errors.New("scripted statement failure")
			}
			if query == "held" && st.stmtGate != nil {
				st.stmtEntered <- struct{}{}
				select {
				case <-st.stmtGate:
				case <-time.After(60 * time.Second):
				}
			}
			return w.Complete("OK")
		})), nil
	}
	return hs.Start(parse, opts...)
}

func (ch c19) Run(c *core.Ctx) {
	nb := ch.Batches(c.Tier)
	var cfgs []c19cfg
	for n := 0; n <= 6; n++ {
		for f := -1; f < n; f++ {
			for _, a := range []bool{false, true} {
				for _, h := range []bool{false, true} {
					cfgs = append(cfgs, c19cfg{N: n, FailAt: f, Auth: a, Hook: h})
				}
			}
		}
	}
	hist := 25
	if c.Tier == "thorough" {
		hist = 1500
	}
	if c.Batch == 0 {
		c.Count("exhaustive_parts", 1)
	}
	idx := 0
	for ci, cfg := range cfgs {
		if ci%nb != c.Batch {
			continue
		}
		env := ch.server(cfg)
		for e, ending := range []string{"terminate", "eof", "terminate-pipelined", "terminate-while-skipping"} {
			for hi := 0; hi < hist; hi++ {
				idx++
				if !c.Begin(ci*10000+e*1000+hi) || c.NViol() >= 10 {
					continue
				}
				rng := core.NewRng(c.Seed, "C19", ci, e*1000+hi)
				ch.runConn(c, env, cfg, ending, rng)
			}
		}
		// sixteen users start up on this server at the same moment, round after round (the transport yields at
		// every read and write): each is told its own session_authorization and finds it in its contexts
		if ci%3 == 1 && cfg.FailAt < 0 && !cfg.Auth && c.Begin(ci*10000+9100) && c.NViol() < 10 {
			ch.startupStorm(c, env, cfg, ci)
		}
		// the same on a server with its timeouts set short, for clients that rest before their first command:
		// the context a command gets is live while the command runs, however old the connection is
		if ci%5 == 2 && cfg.FailAt < 0 && !cfg.Auth {
			rcfg := cfg
			rcfg.Rests = true
			hs.ShortTimeouts = true
			renv := ch.server(rcfg)
			hs.ShortTimeouts = false
			for e := 0; e < 2; e++ {
				if c.Begin(ci*10000+9500+e) && c.NViol() < 10 {
					ch.restConn(c, renv, rcfg, e)
				}
			}
			renv.Stop()
		}
		// several connections at the same time on this server (accepted within the same moment): every
		// callback of a connection sees that connection's context - its parameters, its address, its type map
		if ci%3 == 0 && cfg.FailAt < 0 && c.Begin(ci*10000+9000) && c.NViol() < 10 {
			var wg sync.WaitGroup
			for k := 0; k < 8; k++ {
				wg.Add(1)
				go func(k int) {
					defer wg.Done()
					ch.runConn(c, env, cfg, []string{"terminate", "eof"}[k%2], core.NewRng(c.Seed, "C19g", ci, k))
				}(k)
			}
			wg.Wait()
			c.Count("connections_served_at_the_same_time", 8)
		}
		env.Stop()
	}
}

// restConn: a connection on a server with short timeouts starts up in one step (no authentication: the
// server never waits for the client), rests for several timeout periods, then sends three Queries and a
// Terminate in one segment. A server with an idle or start-up timeout may have ended the connection by
// then - that is its business and nothing is judged; for every callback that does run, the context it
// received is live while it runs and carries what the session middlewares put in.
func (ch c19) restConn(c *core.Ctx, env *hs.Env, cfg c19cfg, variant int) {
	st := &c19conn{app: "rests"}
	conn := env.Dial(st)
	user, db := st.who()
	conn.Send(pg.Startup([][2]string{{"options", ""}, {"user", user}, {"application_name", st.app}, {"database", db}}))
	time.Sleep(90 * time.Millisecond) // detection power only: whatever the start-up armed has passed
	in := append(append(pg.Query("after the rest"), pg.Query("several after the rest")...), pg.Query("once more")...)
	if variant == 1 {
		in = append(append(pg.Parse("", "after the rest", nil), pg.Bind("", "", nil, nil, nil)...), append(pg.Execute("", 0), pg.Sync()...)...)
	}
	conn.Send(append(in, pg.Terminate()...))
	conn.CloseWrite()
	if !conn.WaitClosed() {
		c.Inconclusive("C19 resting connection did not close")
		return
	}
	c.Count("connections_resting_on_a_server_with_short_timeouts", 1)
	c.Count("callbacks_after_a_rest", int64(st.parses+st.execs))
	c.Eval(fmt.Sprintf("%+v rest %d", cfg, variant), true)
	if len(st.problems) > 0 {
		c.Violate("context", st.problems[0]+" (a connection older than the server's timeouts)", fmt.Sprint(st.problems), map[string]any{"config": fmt.Sprintf("%+v", cfg)})
	}
}

func (ch c19) startupStorm(c *core.Ctx, env *hs.Env, cfg c19cfg, ci int) {
	rounds := 12
	if c.Tier == "thorough" {
		rounds = 300
	}
	for r := 0; r < rounds && c.NViol() < 10; r++ {
		var wg sync.WaitGroup
		start := make(chan struct{})
		for k := 0; k < 16; k++ {
			wg.Add(1)
			go func(k int) {
				defer wg.Done()
				st := &c19conn{app: "storm", user: fmt.Sprintf("storm-%d-%d-%d", ci, r, k), db: "db"}
				conn := tr.NewConn(st)
				conn.Yield = tr.YieldFn(uint64(c.Seed)*7919 + uint64(ci*100000+r*100+k))
				env.L.DialConn(conn)
				<-start
				conn.Send(append(pg.Startup([][2]string{{"options", ""}, {"user", st.user}, {"application_name", st.app}, {"database", st.db}}), pg.Query("ok")...))
				conn.CloseWrite()
				if !conn.WaitClosed() {
					c.Inconclusive("C19 start-up storm: connection did not close")
					return
				}
				msgs, _, _ := pg.ParseStream(conn.Out())
				told := "<not announced>"
				for _, m := range msgs {
					if m.T == 'S' && m.Key == "session_authorization" {
						told = m.Val
					}
				}
				c.Count("simultaneous_startups_of_distinct_users", 1)
				if told != st.user {
					c.Violate("context", "a connection starting up next to others is told another session_authorization than its user", fmt.Sprintf("user %s was told %q; config %+v", st.user, told, cfg), nil)
				} else if len(st.problems) > 0 {
					c.Violate("context", normDigits(st.problems[0]), fmt.Sprint(st.problems), map[string]any{"config": fmt.Sprintf("%+v", cfg)})
				}
			}(k)
		}
		close(start)
		wg.Wait()
	}
	c.Eval(fmt.Sprintf("%+v startup storm", cfg), true)
}

func (ch c19) runConn(c *core.Ctx, env *hs.Env, cfg c19cfg, ending string, rng *core.Rng) {
	st := &c19conn{}
	cs := map[string]any{"config": fmt.Sprintf("%+v", cfg), "ending": ending}
	viol := func(rule, sig, detail string) {
		c.Violate(rule, sig, fmt.Sprintf("config %+v ending %s: %s", cfg, ending, detail), cs)
	}
	conn := tr.NewConn(st)
	if rng.Intn(4) == 0 {
		// a transport whose Close reports an error (as a TLS connection does when the peer is gone)
		conn.CloseErr = errors.New("close: peer already gone")
		c.Count("connections_with_failing_close", 1)
	}
	env.L.DialConn(conn)
	cl := hs.NewClient(conn)
	if rng.Intn(5) == 0 {
		// names longer than an identifier of the database would be (64-120 bytes, a multi-byte character
		// across byte 63): a start-up parameter value is a string, the context carries the string sent
		st.user = strings.Repeat("u", 60+rng.Intn(4)) + "é" + strings.Repeat("r", rng.Intn(50))
		st.db = core.Pick(rng, []string{"db", strings.Repeat("d", 64), strings.Repeat("d", 63) + "ß" + strings.Repeat("b", 30)})
		c.Count("connections_with_long_user_or_database_names", 1)
	}
	if st.user == "" && rng.Intn(2) == 0 {
		st.user, st.db = fmt.Sprintf("usr%d", rng.Intn(1000000)), "db" // (connections served at the same time differ in their users)
	}
	if rng.Intn(5) == 1 {
		// a connection from a local TCP peer whose application name ends in an address (what
		// PgBouncer's application_name_add_host appends): free text - the remote address of a connection is
		// the peer it was accepted from
		st.app = core.Pick(rng, []string{"reports - 203.0.113.7:4242", "psql - [2001:db8::1]:5432", "app - 127.0.0.1:1", "worker - 10.0.0.9:65535"})
		tr.LoopbackAddrs.Store(true)
		defer tr.LoopbackAddrs.Store(false)
		c.Count("connections_announcing_an_address_in_their_application_name", 1)
	}
	user, db := st.who()
	cl.C.Send(pg.Startup([][2]string{{"options", ""}, {"user", user}, {"application_name", st.app}, {"database", db}}))
	cl.C.Quiesce()
	authFails := cfg.Auth && rng.Intn(6) == 0
	if cfg.Auth {
		if authFails {
			cl.C.Send(pg.Password("late-failure"))
		} else {
			cl.C.Send(pg.Password("x"))
		}
		cl.C.Quiesce()
	}
	closed, _ := cl.C.Quiesce()
	if hangCheck(c, cl, cs) {
		return
	}
	if authFails {
		c.Count("connections_whose_authentication_failed", 1)
		c.Eval(fmt.Sprintf("auth fails n=%d", cfg.N), true)
		if k := replyKinds(cl.C.Out()); len(st.mwOrder) != 0 || !closed || strings.Contains(k, "Z") {
			viol("middleware-before-auth", "session middlewares ran (or the connection was served) although authentication did not succeed", fmt.Sprintf("middlewares run: %v, closed=%v, reply %s", st.mwOrder, closed, trim(k, 200)))
		}
		return
	}
	out := cl.C.Out()
	msgs, err := parseAll(out)
	if err != nil {
		viol("grammar", "startup reply not well-formed", err.Error())
		return
	}
	c.Count("connections", 1)
	c.Count("middleware_invocations", int64(len(st.mwOrder)))
	nhist := 0
	// middleware order / once / position
	wantRuns := cfg.N
	if cfg.FailAt >= 0 {
		wantRuns = cfg.FailAt + 1
	}
	if len(st.mwOrder) != wantRuns {
		viol("middleware-count", "middlewares did not run exactly once each, up to the failing one", fmt.Sprintf("ran %v, expected the first %d", st.mwOrder, wantRuns))
		return
	}
	for i, m := range st.mwOrder {
		if m != i {
			viol("middleware-order", "middlewares ran out of registration order", fmt.Sprint(st.mwOrder))
			return
		}
		pre, _, _ := pg.ParseStream(out[:st.mwOffsets[i]])
		okAuth, ready := false, false
		for _, pm := range pre {
			if pm.T == 'R' && pm.Auth == 0 {
				okAuth = true
			}
			if pm.T == 'Z' {
				ready = true
			}
		}
		if !okAuth || ready {
			viol("middleware-position", "middleware ran before AuthenticationOk or after the first ReadyForQuery", fmt.Sprintf("middleware %d invoked when the server had written %q", i, pg.Kinds(pre)))
			return
		}
	}
	if cfg.FailAt >= 0 {
		c.Count("middleware_failures", 1)
		if !closed {
			viol("middleware-error", "a failing middleware did not end the connection", "reply "+pg.Kinds(msgs))
			return
		}
		for _, m := range msgs {
			if m.T == 'Z' {
				viol("middleware-error", "ReadyForQuery sent although a middleware failed", pg.Kinds(msgs))
				return
			}
			if m.T != 'R' && m.T != 'S' && m.T != 'E' {
				viol("middleware-error", "unexpected message while a middleware failed", pg.Kinds(msgs))
				return
			}
		}
		cl.C.Send(pg.Query("never"))
		cl.C.WaitClosed()
		if st.parses > 0 {
			viol("middleware-error", "a command was served after a middleware error", "")
		}
		c.Eval(fmt.Sprintf("%+v", cfg), true)
		return
	}
	if closed || len(msgs) == 0 || msgs[len(msgs)-1].T != 'Z' {
		viol("startup", "session did not reach ReadyForQuery", pg.Kinds(msgs))
		return
	}
	// another user connects (and stays connected) while this connection lives: its per-connection
	// values must not show up in this connection's context
	if rng.Intn(3) == 0 && !cfg.Auth {
		other := hs.NewClient(env.Dial(&c19conn{}))
		other.C.Send(pg.Startup([][2]string{{"user", "somebody-else"}}))
		other.C.Quiesce()
		defer func() { other.C.CloseWrite(); other.C.WaitClosed() }()
		c.Count("other_user_connected_meanwhile", 1)
	}
	// command history
	checkCancelled := func(upTo int, when string) bool {
		for i := 0; i < upTo; i++ {
			c.Count("command_contexts_cancelled", 1)
			if !errors.Is(st.ctxs[i].Err(), context.Canceled) {
				viol("context-not-cancelled", "per-command context not cancelled after its command ended", fmt.Sprintf("context %d still live %s", i, when))
				return false
			}
			// cancelled is cancelled for everybody: a holder that waits on Done() - for the first time only now,
			// or through a context it derives now - is released
			select {
			case <-st.ctxs[i].Done():
			default:
				viol("context-not-cancelled", "per-command context reports an error after its command ended, but its Done channel is not closed", fmt.Sprintf("context %d %s: Err() = %v", i, when, st.ctxs[i].Err()))
				return false
			}
			if i%4 == 0 {
				d, stop := context.WithCancel(st.ctxs[i])
				select {
				case <-d.Done():
				default:
					stop()
					viol("context-not-cancelled", "a context derived from a per-command context after its command ended is not cancelled", fmt.Sprintf("context %d %s", i, when))
					return false
				}
				stop()
			}
		}
		return true
	}
	n := rng.Intn(6)
	if rng.Intn(10) == 0 {
		n = 120 + rng.Intn(200) // a long-lived connection: well beyond 4 KiB / 8 KiB of client messages
		c.Count("long_histories", 1)
	}
	for i := 0; i < n; i++ {
		before := len(st.ctxs)
		var in []byte
		switch rng.Intn(7) {
		case 6:
			in = pg.Query("several; statements; in one query") // every one of them runs under a live context
			c.Count("multi_statement_queries", 1)
		case 5:
			in = pg.Query("ok /* " + strings.Repeat("pad ", core.Pick(rng, []int{10, 60, 1000, 1100})) + "*/")
		case 0:
			in = pg.Query("ok")
		case 1:
			in = pg.Query("fail")
		case 2:
			in = pg.Query("stmtfail")
		case 3:
			in = append(append(append(pg.Parse("", "ok", nil), pg.Bind("", "", nil, nil, nil)...), pg.Execute("", 0)...), pg.Sync()...)
		default:
			in = append(append(append(pg.Parse("s", "stmtfail", nil), pg.Bind("", "s", nil, nil, nil)...), pg.Execute("", 0)...), pg.Sync()...)
		}
		nhist++
		_, cl2 := cl.Step(in)
		if hangCheck(c, cl, cs) {
			return
		}
		if cl2 {
			viol("dropped", "connection dropped during the history", "")
			return
		}
		c.Count("callback_contexts_checked", int64(len(st.ctxs)-before))
		// everything captured so far belongs to finished commands now
		if !checkCancelled(len(st.ctxs), "after the command was answered") {
			return
		}
	}
	// ending
	if ending == "terminate" && cfg.Hook && !cfg.Auth && rng.Intn(3) == 0 {
		// the terminate hook takes its time; meanwhile another connection is accepted and served: it
		// keeps its own traffic, its callbacks keep their own context, also once the hook has returned
		st.hookGate, st.hookEntered = make(chan struct{}), make(chan struct{}, 1)
		cl.C.Send(pg.Terminate())
		select {
		case <-st.hookEntered:
		case <-time.After(60 * time.Second):
			viol("terminate-hook", "terminate hook not invoked for a Terminate message", "")
			return
		}
		stB := &c19conn{stmtGate: make(chan struct{}), stmtEntered: make(chan struct{}, 1)}
		b := hs.NewClient(env.Dial(stB))
		b.C.Send(pg.Startup([][2]string{{"options", ""}, {"user", "lifecycle"}, {"application_name", ""}, {"database", "db"}}))
		b.C.Quiesce()
		b.C.Send(pg.Query("held"))
		select {
		case <-stB.stmtEntered:
		case <-time.After(60 * time.Second):
			viol("neighbour", "a connection accepted while another connection's terminate hook runs is not served", replyKinds(b.C.Out()))
			close(st.hookGate)
			return
		}
		parsesA := st.parses
		close(st.hookGate) // the hook of the terminated connection returns
		for i := 0; i < 50; i++ {
			runtime.Gosched()
		}
		time.Sleep(2 * time.Millisecond)
		b.C.Send(pg.Query("ok")) // pipelined behind the statement that is still running
		close(stB.stmtGate)
		b.C.Quiesce()
		if k := pg.Types(mustMsgs(b.C.OutFrom(0))); !strings.HasSuffix(k, "CZCZ") || stB.parses != 2 || st.parses != parsesA {
			viol("neighbour", "a connection served while another connection terminates lost a message or had it handled under the other connection", fmt.Sprintf("its reply: %s; its parser calls: %d (2 sent); parser calls under the terminated connection since Terminate: %d", replyKinds(b.C.Out()), stB.parses, st.parses-parsesA))
		}
		if len(stB.problems) > 0 {
			viol("context", stB.problems[0], fmt.Sprint(stB.problems))
		}
		b.C.CloseWrite()
		b.C.WaitClosed()
		c.Count("connections_served_during_terminate_hook", 1)
	} else {
		// in a third of the connections the Read that delivers the Terminate message reports the end of the
		// stream with it (as io.Reader allows, and as crypto/tls does when the closure alert follows directly)
		send := cl.C.Send
		if ending != "eof" && rng.Intn(3) == 0 {
			send = func(b []byte) { cl.C.SendCutEOF(b, nil) }
			c.Count("terminate_delivered_together_with_end_of_stream", 1)
		}
		switch ending {
		case "terminate":
			send(pg.Terminate())
		case "terminate-pipelined":
			send(append(pg.Query("ok"), pg.Terminate()...))
		case "terminate-while-skipping":
			// a failed extended message leaves the session discarding until Sync; Terminate must still work
			send(append(append(pg.Parse("", "fail", nil), pg.Bind("", "", nil, nil, nil)...), pg.Terminate()...))
		case "eof":
			cl.C.CloseWrite()
			c.Count("eof_endings", 1)
		}
	}
	if closed, ok := cl.C.Quiesce(); !ok {
		cl.Hung = true
		if !hangCheck(c, cl, cs) {
			viol("not-closed", "connection not closed after "+ending, "")
		}
		return
	} else if !closed {
		viol("not-closed", "connection not closed after "+ending, fmt.Sprintf("the server is waiting for more input; terminate hook ran %d time(s)", st.term.Load()))
		return
	}
	if !checkCancelled(len(st.ctxs), "at connection end") {
		return
	}
	wantTerm := int32(0)
	if ending != "eof" && cfg.Hook {
		wantTerm = 1
	}
	// the property speaks about Terminate messages only: what the hook does when a connection ends
	// without one (EOF) is not judged
	if got := st.term.Load(); got != wantTerm && ending != "eof" {
		viol("terminate-hook", fmt.Sprintf("terminate hook ran %d time(s), expected %d (%s)", got, wantTerm, ending), "")
		return
	}
	c.Count("terminate_hook_runs", int64(wantTerm))
	if p := c19lost.Swap(nil); p != nil {
		viol("context", "the remote address in a callback's context is not the connection's", *p)
		return
	}
	if len(st.problems) > 0 {
		viol("context", st.problems[0], fmt.Sprint(st.problems))
		return
	}
	c.Eval(fmt.Sprintf("%+v %s h%d", cfg, ending, nhist), cfg.N >= 2 || ending != "eof")
	if (cfg.N == 3 && ending == "terminate") || c.Evals < 2 {
		c.Sample(map[string]any{"config": fmt.Sprintf("%+v", cfg), "ending": ending, "middleware_offsets": st.mwOffsets, "contexts_captured": len(st.ctxs)})
	}
}
