package checks

import (
	"fmt"
	"github.com/lib/pq/oid"
	"math/big"
	"runtime/metrics"
	"strings"
	"sync"
	"time"

	wire "github.com/jeroenrinzema/psql-wire"

	"verifharness/core"
	"verifharness/hs"
	"verifharness/pg"
	"verifharness/tr"
)

// C20 - ParseParameters is total and counts placeholders correctly.

type c20 struct{ base }

func init() {
	core.Register(c20{base{id: "C20", level: "exploration", quickB: 8, thoroughB: 32,
		rule:        "query strings: exhaustive over all marker sequences of length <= 4 from {$0,$1,$2,$3,$5,$9,$10,?} with 3 separators; huge indexes {65534,65535,65536,2^31,2^32,2^63-1,2^63,2^64,40 digits}; queries with 60000-140000 marker occurrences (more than the limit) whose highest index appears anywhere, including after the 65535th occurrence; random SQL-like text with quotes, $$, $x, $1a, unicode. ParseParameters is called directly in an isolated child process (crash oracle) with a TotalAlloc delta bound, compared with an independent hand-written scanner (big-integer indexes), and through the wire: Parse + Describe-statement must announce exactly the returned length. Non-trivial = has a gap, descending or repeated index, index above marker count, huge index or mixed styles; distinct = normalised marker sequence.",
		need:        []string{"direct_calls", "dollar_only_compared", "question_only_compared", "huge_index_queries", "describe_counts_compared", "gap_or_descending", "concurrent_call_rounds"},
		assumptions: append([]string{"mixed $n/? queries and indexes above 65535 are judged for totality, result size <= 65535, zero OIDs and bounded allocation only"}, commonAssumptions...)}})
}

type c20marker struct {
	Dollar bool
	Index  *big.Int
}

// c20scan is the independent scanner: '$' followed by one or more ASCII digits,
// or '?'; leftmost-first, non-overlapping.
func c20scan(q string) []c20marker {
	var ms []c20marker
	for i := 0; i < len(q); i++ {
		switch q[i] {
		case '?':
			ms = append(ms, c20marker{})
		case '$':
			j := i + 1
			for j < len(q) && q[j] >= '0' && q[j] <= '9' {
				j++
			}
			if j > i+1 {
				n, _ := new(big.Int).SetString(q[i+1:j], 10)
				ms = append(ms, c20marker{Dollar: true, Index: n})
				i = j - 1
			}
		}
	}
	return ms
}

func c20norm(q string) string {
	var sb strings.Builder
	for _, m := range c20scan(q) {
		if !m.Dollar {
			sb.WriteByte('?')
		} else if m.Index.BitLen() > 17 {
			sb.WriteString("$HUGE")
		} else {
			sb.WriteString("$" + m.Index.String())
		}
	}
	return sb.String()
}

func (ch c20) queries(c *core.Ctx) []string {
	var qs []string
	toks := []string{"$0", "$1", "$2", "$3", "$5", "$9", "$10", "?"}
	seps := []string{" ", ", ", " AND x="}
	var rec func(cur []string)
	rec = func(cur []string) {
		if len(cur) > 0 {
			for _, sep := range seps {
				qs = append(qs, "select "+strings.Join(cur, sep))
			}
		}
		if len(cur) == 4 {
			return
		}
		for _, t := range toks {
			rec(append(cur, t))
		}
	}
	rec(nil)
	for _, h := range []string{"65534", "65535", "65536", "65537", "2147483647", "2147483648", "4294967295", "4294967296", "9223372036854775807", "9223372036854775808", "18446744073709551615", "18446744073709551616", strings.Repeat("9", 40), "00000000000000000000000000000000000000005", "0065535"} {
		for _, pre := range []string{"", "$1 ", "? ", "$3 $2 "} {
			for _, post := range []string{"", " $2", " ?"} {
				qs = append(qs, "select "+pre+"$"+h+post)
			}
		}
	}
	for n := 0; n <= 40; n++ {
		qs = append(qs, "values ("+strings.Repeat("?, ", n)+"?)", strings.Repeat("?", n))
	}
	qs = append(qs, "$65535 ?", "? $65535", "select $65536, $2", "select $1, $99999999999999999999, $5", "select $4294967296 $3 $65537 $7", "select $70000 $65535", "$65534 ? ?", "$65535 $65535 ? ? ?", strings.Repeat("?", 65535), strings.Repeat("?", 65536), "$1 "+strings.Repeat("?", 65535))
	qs = append(qs, "a = ? AND b = ?0", "?1", "?0?1?2", "select ?9999, ?", "x ?65535", "?1 $1", "$2 ?1",
		"", "$", "$$", "$$ $1 $$", "?", "??", "$1$2", "$1a", "$a1", "'$1'", "\"?\"", "$-1", "$+1", "$ 1", "$１", "ü$1é?", "$1?$2?", strings.Repeat("?", 70000), strings.Repeat("$1 ", 30000), strings.Repeat("$", 5000)+"7")
	// more marker occurrences than the parameter limit, the highest index first seen late
	qs = append(qs, strings.Repeat("$1 ", 70000)+"$3", strings.Repeat("$2,$1,", 40000)+"$7", "$5 "+strings.Repeat("$1 ", 65535),
		strings.Repeat("$1 ", 65534)+"$2", strings.Repeat("$1 ", 65535)+"$2", strings.Repeat("$1 ", 65536)+"$2", strings.Repeat("$1 ", 65536)+"$65535",
		strings.Repeat("$1 ", 65535)+"$2 $1 $4", strings.Repeat("(?,?),", 32767)+"(?)", strings.Repeat("(?,?),", 32768)+"(?)")
	// markers at and around the offsets a scanner working in blocks would cut at (4 KiB ... 256 KiB): the
	// marker with the highest index begins 6 bytes before ... 2 bytes behind the block boundary, in a long
	// statement without any other marker near it
	for _, base := range []int{4096, 8192, 32768, 65536, 131072, 262144} {
		for d := -6; d <= 2; d++ {
			pad := strings.Repeat("col = 1 and ", (base+d)/12+1)[:base+d-1] + " "
			qs = append(qs, pad+"$12345 and b = $3", "select $2 where "+pad[16:]+"$777", pad+"? and b = ?")
		}
	}
	nrand := 120000
	if c.Tier == "thorough" {
		nrand = 3000000
	}
	rng := core.NewRng(c.Seed, "C20gen", 0, 0)
	for i := 0; i < nrand/10000; i++ {
		n := 60000 + rng.Intn(80000)
		unit := core.Pick(rng, []string{"$1 ", "$2,$1,", "($1,$2,$3),", "$4 "})
		q := strings.Repeat(unit, n/strings.Count(unit, "$"))
		at := rng.Intn(len(q)/len(unit)+1) * len(unit)
		qs = append(qs, q[:at]+fmt.Sprintf("$%d ", 5+rng.Intn(60))+q[at:])
	}
	frag := []string{"select ", "from t ", "where a=", " and ", "'", "\"", "$$", "$x", "$1a", "ü", "😀", "?", "?", "$", "-- c\n", "/*", "*/", "::int", "\\", ";", "\n", "||", "|", "&", "?|", "?&", "?||' '||?", "@>", "#", "?::int", "(?)", "[?]", "?1", "?0", "?12 ", "?9999", "?007", "?1?2"}
	for i := 0; i < nrand; i++ {
		var sb strings.Builder
		for n := 1 + rng.Intn(12); n > 0; n-- {
			switch rng.Intn(4) {
			case 0:
				fmt.Fprintf(&sb, "$%d", rng.Intn(12))
			case 1:
				if rng.Intn(30) == 0 {
					fmt.Fprintf(&sb, "$%d", core.Pick(rng, []uint64{255, 256, 1000, 4096, 65535, 65536, 1 << 20, 1 << 40, 1<<63 - 1}))
				} else {
					fmt.Fprintf(&sb, "$%d", 1+rng.Intn(4))
				}
			default:
				sb.WriteString(core.Pick(rng, frag))
			}
		}
		qs = append(qs, sb.String())
	}
	return qs
}

func (ch c20) Run(c *core.Ctx) {
	nb := ch.Batches(c.Tier)
	qs := ch.queries(c)
	env := hs.Start(hs.Parse, wire.MessageBufferSize(1<<20))
	defer env.Stop()
	if c.Batch == 0 {
		c.Count("exhaustive_parts", 1)
	}
	stmtProg := &hs.Prog{Stmts: []*hs.Stmt{{ID: "pp", ParseParams: true, Ops: []hs.Op{{K: "complete", Tag: "OK"}}}}}
	sess := &hs.Sess{Default: func(string) *hs.Prog { return stmtProg }}
	cl := hs.NewClient(env.Dial(sess))
	if err := cl.StartupOK("u"); err != nil {
		c.Violate("startup", "startup failed", err.Error(), nil)
		return
	}
	max16 := big.NewInt(65535)
	// cumulative heap allocation in bytes, read without stopping the world
	sample := []metrics.Sample{{Name: "/gc/heap/allocs:bytes"}}
	allocated := func() uint64 {
		metrics.Read(sample)
		return sample[0].Value.Uint64()
	}
	for idx := c.Batch; idx < len(qs); idx += nb {
		if !c.Begin(idx) || c.NViol() >= 10 {
			continue
		}
		q := qs[idx]
		cs := map[string]any{"query": trim(q, 300), "markers": trim(c20norm(q), 200)}
		markers := c20scan(q)
		nd, nq, huge, gap := 0, 0, false, false
		maxIdx := big.NewInt(0)
		prev := big.NewInt(0)
		seen := map[string]bool{}
		for _, m := range markers {
			if m.Dollar {
				nd++
				if m.Index.Cmp(max16) > 0 {
					huge = true
				}
				if m.Index.Cmp(maxIdx) > 0 {
					maxIdx = m.Index
				}
				if m.Index.Cmp(prev) < 0 || seen[m.Index.String()] {
					gap = true
				}
				seen[m.Index.String()] = true
				prev = m.Index
			} else {
				nq++
			}
		}
		if nd > 0 && !huge && maxIdx.Cmp(big.NewInt(int64(nd))) > 0 {
			gap = true
		}
		// direct call with allocation accounting (crash oracle = this child process)
		before := allocated()
		res := wire.ParseParameters(q)
		delta := allocated() - before
		c.Count("direct_calls", 1)
		c.Eval(c20norm(q), gap || huge || (nd > 0 && nq > 0))
		if idx < 3*nb {
			c.Sample(map[string]any{"query": trim(q, 100), "returned_length": len(res)})
		}
		if gap {
			c.Count("gap_or_descending", 1)
		}
		if huge {
			c.Count("huge_index_queries", 1)
		}
		bound := uint64(512*len(q) + 4<<20) // linear in the query (regexp match lists) plus room for 65535 placeholders
		// the runtime accounts small allocations when a span is exchanged, so one reading may include
		// allocations made earlier (by anyone): on an excess the call is measured again and the
		// smallest reading counts - the cost of a call is deterministic, the noise only adds
		for rep := 0; rep < 6 && delta > bound; rep++ {
			before = allocated()
			wire.ParseParameters(q)
			if d := allocated() - before; d < delta {
				delta = d
			}
			c.Count("alloc_remeasurements", 1)
		}
		if delta > bound {
			c.Violate("alloc", "allocation not bounded by the 65535-parameter limit", fmt.Sprintf("query %q allocated %d bytes (bound %d)", trim(q, 100), delta, bound), cs)
			continue
		}
		if len(res) > 65535 { // the protocol cannot count more parameters
			c.Violate("size", "result longer than the protocol's 65535-parameter limit", fmt.Sprintf("query %q: %d parameters", trim(q, 100), len(res)), cs)
			continue
		}
		nonzero := false
		for _, o := range res {
			if o != 0 {
				nonzero = true
			}
		}
		if nonzero {
			c.Violate("oid", "placeholder with a specified type (the list is the caller's own: an earlier caller typed its list in place)", fmt.Sprintf("query %q", trim(q, 100)), cs)
			continue
		}
		// the returned list belongs to the caller, who may go on to type it in place; no later result
		// may be affected (checked by the zero-OID rule above on every following call)
		if idx%3 == 0 {
			for i := range res {
				res[i] = oid.Oid(20 + i%7)
			}
			c.Count("results_typed_in_place", 1)
		}
		switch {
		case nd > 0 && nq == 0 && huge:
			// some marker is beyond the protocol limit: the others still count - the result is the
			// highest in-range index (markers beyond the limit ignored) or the limit itself (clamped)
			inRange := int64(0)
			for _, m := range markers {
				if m.Index.Cmp(max16) <= 0 && m.Index.Int64() > inRange {
					inRange = m.Index.Int64()
				}
			}
			c.Count("out_of_range_mixed_compared", 1)
			if int64(len(res)) != inRange && len(res) != 65535 {
				c.Violate("count-positional", "markers after an out-of-range marker are lost", fmt.Sprintf("query %q: returned %d parameters, highest in-range index %d", trim(q, 100), len(res), inRange), cs)
				continue
			}
		case nd > 0 && nq == 0 && !huge:
			c.Count("dollar_only_compared", 1)
			if int64(len(res)) != maxIdx.Int64() {
				c.Violate("count-positional", fmt.Sprintf("length != highest index (markers %s)", trim(c20norm(q), 60)), fmt.Sprintf("query %q: returned %d parameters, highest index %s", trim(q, 100), len(res), maxIdx), cs)
				continue
			}
		case nq > 0 && nd == 0:
			c.Count("question_only_compared", 1)
			if len(res) != min(nq, 65535) {
				c.Violate("count-anonymous", "length != number of ? markers", fmt.Sprintf("query %q: returned %d parameters, %d markers", trim(q, 100), len(res), nq), cs)
				continue
			}
		}
		// through the wire: Describe announces the returned length
		if len(q) < 60000 && !strings.ContainsRune(q, 0) && strings.TrimSpace(q) != "" && len(res) <= 65535 {
			// the client may prespecify any number of parameter types; the count announced by
			// Describe is still the handler's (ParseParameters) list length
			var oids []uint32
			for k := idx % 6; k > 0; k-- {
				oids = append(oids, []uint32{23, 25, 0, 1043, 20}[(idx+k)%5])
			}
			// statement names from a small pool: the same name is re-parsed with other queries
			name := []string{"", "a", "b", "a"}[idx%4]
			out, closed := cl.Step(append(append(pg.Parse(name, q, oids), pg.Describe('S', name)...), pg.Sync()...))
			if hangCheck(c, cl, cs) {
				return
			}
			msgs, err := parseAll(out)
			if err != nil || closed || pg.Types(msgs) != "1tnZ" {
				c.Violate("describe", "Parse/Describe cycle failed", fmt.Sprintf("query %q: %v closed=%v reply %s", trim(q, 100), err, closed, trim(replyKinds(out), 200)), cs)
				return
			}
			c.Count("describe_counts_compared", 1)
			if len(msgs[1].OIDs) != len(res) {
				c.Violate("describe-count", "ParameterDescription count differs from ParseParameters length", fmt.Sprintf("query %q: announced %d, returned %d", trim(q, 100), len(msgs[1].OIDs), len(res)), cs)
			}
			if idx%3 == 0 && len(res) < 8 {
				// the statement is bound - with the number of values it declares, or fewer, or more (a server
				// may refuse those) - and described again: what it announces is still what it declares
				nv := []int{len(res), len(res) + 1 + idx%3, max(0, len(res)-1), 2}[(idx/3)%4]
				vals := make([][]byte, nv)
				for j := range vals {
					vals[j] = []byte(fmt.Sprint(j))
				}
				out, closed := cl.Step(append(append(append(pg.Bind("", name, nil, vals, nil), pg.Sync()...), pg.Describe('S', name)...), pg.Sync()...))
				if hangCheck(c, cl, cs) {
					return
				}
				msgs, err := parseAll(out)
				k := pg.Types(msgs)
				if err != nil || closed || !strings.HasSuffix(k, "ZtnZ") {
					c.Violate("describe", "Bind/Sync/Describe cycle failed", fmt.Sprintf("query %q, %d values bound: %v closed=%v reply %s", trim(q, 100), nv, err, closed, trim(replyKinds(out), 200)), cs)
					return
				}
				c.Count("describe_counts_compared_after_a_bind", 1)
				if got := len(msgs[len(msgs)-3].OIDs); got != len(res) {
					c.Violate("describe-count", "ParameterDescription count differs from ParseParameters length after the statement was bound", fmt.Sprintf("query %q: %d values bound, announced %d, returned %d", trim(q, 100), nv, got, len(res)), cs)
				}
			}
		}
	}
	cl.Finish()
	// a parser that keeps one statement object per session and reconfigures it for every Parse: the
	// statement defined first still describes with its own number of parameters after others were parsed
	if c.Batch == 1%nb && c.Begin(39000000) {
		sess2 := &hs.Sess{Default: func(string) *hs.Prog { return stmtProg }, ReuseStmt: true}
		cl2 := hs.NewClient(env.Dial(sess2))
		if err := cl2.StartupOK("u"); err == nil {
			qs2 := []string{"select $1, $2", "select $5", "select 1", "select ?, ?, ?", "select $2 ?"}
			var in []byte
			for i, q := range qs2 {
				in = append(in, pg.Parse(fmt.Sprintf("t%d", i), q, nil)...)
			}
			for i := range qs2 {
				in = append(in, pg.Describe('S', fmt.Sprintf("t%d", i))...)
			}
			out, _ := cl2.Step(append(in, pg.Sync()...))
			msgs := mustMsgs(out)
			j := 0
			for _, m := range msgs {
				if m.T != 't' {
					continue
				}
				if want := len(wire.ParseParameters(qs2[j])); len(m.OIDs) != want {
					c.Violate("describe-count", "a statement describes with another statement's number of parameters (parser re-using one statement object)", fmt.Sprintf("statement %d %q: announced %d, ParseParameters returned %d; reply %s", j, qs2[j], len(m.OIDs), want, trim(pg.Kinds(msgs), 200)), nil)
					break
				}
				j++
				c.Count("describe_counts_compared", 1)
			}
			if j != len(qs2) && c.NViol() == 0 {
				c.Violate("describe", "Parse/Describe cycle failed (parser re-using one statement object)", trim(pg.Kinds(msgs), 300), nil)
			}
			c.Eval("reused statement object", true)
			cl2.Finish()
		}
	}
	// a Parse the handler rejects, sent a second and a third time under a name that is defined (drivers retry):
	// whenever a Parse is answered ParseComplete, Describe announces the count of *that* text
	if c.Batch == 4%nb && c.Begin(39700000) {
		failing := &hs.Prog{Err: &hs.ErrSpec{Base: "the handler rejects this statement"}}
		cl5 := hs.NewClient(env.Dial(&hs.Sess{Default: func(q string) *hs.Prog {
			if strings.HasPrefix(q, "/*rejected*/") {
				return failing
			}
			return stmtProg
		}}))
		if err := cl5.StartupOK("u"); err == nil {
			for _, name := range []string{"", "s1"} {
				good, bad := "select $1, $2", "/*rejected*/ select $1, $2, $3"
				cl5.Step(append(pg.Parse(name, good, nil), pg.Sync()...))
				for try := 0; try < 3; try++ {
					out, _ := cl5.Step(append(append(pg.Parse(name, bad, nil), pg.Describe('S', name)...), pg.Sync()...))
					msgs := mustMsgs(out)
					c.Eval(fmt.Sprintf("rejected parse retried %d %q", try, name), true)
					c.Count("rejected_parses_retried", 1)
					if len(msgs) > 0 && msgs[0].T == '1' {
						got := -1
						for _, m := range msgs {
							if m.T == 't' {
								got = len(m.OIDs)
							}
						}
						if want := len(wire.ParseParameters(bad)); got != want {
							c.Violate("describe-count", "a Parse is acknowledged, but Describe announces another statement's number of parameters (a Parse the handler had rejected, sent again)", fmt.Sprintf("name %q, attempt %d: reply %s; announced %d, ParseParameters of the text just acknowledged returns %d", name, try+1, replyKinds(out), got, want), nil)
							break
						}
					}
				}
			}
			cl5.Finish()
		}
	}
	// a handler that removes comments before it counts: what it declares is ParseParameters of what is left,
	// and that - none at all, for a statement whose only markers sit in a comment - is what Describe announces,
	// on this connection and, for a plain statement parsed afterwards, on the next
	if c.Batch == 3%nb && c.Begin(39600000) {
		strip := func(q string) string {
			for {
				i := strings.Index(q, "--")
				if i < 0 {
					break
				}
				j := strings.IndexByte(q[i:], '\n')
				if j < 0 {
					q = q[:i]
					break
				}
				q = q[:i] + q[i+j:]
			}
			for {
				i := strings.Index(q, "/*")
				j := strings.Index(q, "*/")
				if i < 0 || j < i {
					break
				}
				q = q[:i] + q[j+2:]
			}
			return q
		}
		stripProg := &hs.Prog{Stmts: []*hs.Stmt{{ID: "pp", ParseParams: true, Normalize: strip, Ops: []hs.Op{{K: "complete", Tag: "OK"}}}}}
		for round := 0; round < 2; round++ {
			cl4 := hs.NewClient(env.Dial(&hs.Sess{Default: func(string) *hs.Prog { return stripProg }}))
			if err := cl4.StartupOK("u"); err != nil {
				break
			}
			for _, q := range []string{"select 1 -- $1 $2", "select $1 /* and $2, $3 */", "select 1 /* ? ? */", "select ? -- ?\n, ?", "select 1", "select 2 -- $9"} {
				out, _ := cl4.Step(append(append(pg.Parse("", q, nil), pg.Describe('S', "")...), pg.Sync()...))
				want, got := len(wire.ParseParameters(strip(q))), -1
				for _, m := range mustMsgs(out) {
					if m.T == 't' {
						got = len(m.OIDs)
					}
				}
				c.Eval("comment-stripping handler "+q, true)
				if got != want {
					c.Violate("describe-count", "Describe does not announce the number of parameters the handler declared from its ParseParameters call (a handler that counts after removing comments)", fmt.Sprintf("query %q: the handler declared ParseParameters(%q) = %d parameter(s), Describe announced %d; reply %s", q, strip(q), want, got, replyKinds(out)), nil)
					break
				}
				c.Count("describe_counts_compared", 1)
			}
			cl4.Finish()
		}
	}
	// a server with every timeout this tree offers set short, and a parser that takes its time over some
	// statements (it does not watch its context): whatever the server makes of the slow Parse - it waits, or it
	// gives up and reports an error - the name belongs to the Parse that succeeded last, and Describe
	// announces that statement's number of parameters, also once the slow call has come back
	if c.Batch == 2%nb && c.Begin(39500000) {
		hs.ShortTimeouts = true
		envT := hs.Start(hs.Parse, wire.MessageBufferSize(1<<20))
		hs.ShortTimeouts = false
		slowSess := &hs.Sess{Default: func(q string) *hs.Prog {
			if strings.HasPrefix(q, "/*slow*/") {
				time.Sleep(80 * time.Millisecond)
			}
			return stmtProg
		}}
		cl3 := hs.NewClient(envT.Dial(slowSess))
		if err := cl3.StartupOK("u"); err == nil {
			for _, name := range []string{"", "s"} {
				slowQ, fastQ := "/*slow*/ select $1, $2, $3", "select $1"
				out1, _ := cl3.Step(append(pg.Parse(name, slowQ, nil), pg.Sync()...))
				out2, _ := cl3.Step(append(pg.Parse(name, fastQ, nil), pg.Sync()...))
				time.Sleep(200 * time.Millisecond) // detection power only: lets an abandoned slow call come back
				out3, closed := cl3.Step(append(pg.Describe('S', name), pg.Sync()...))
				if hangCheck(c, cl3, nil) {
					break
				}
				c.Eval("slow parse then re-parse "+name, true)
				c.Count("slow_parse_then_reparse_then_describe", 1)
				m2 := mustMsgs(out2)
				if len(m2) == 0 || m2[0].T != '1' {
					continue // the second Parse did not succeed: nothing to compare
				}
				want := len(wire.ParseParameters(fastQ))
				got := -1
				for _, m := range mustMsgs(out3) {
					if m.T == 't' {
						got = len(m.OIDs)
					}
				}
				if got != want {
					c.Violate("describe-count", "Describe does not announce the number of parameters of the statement parsed last under the name (a slower Parse of the same name came first)", fmt.Sprintf("name %q: Parse %q -> %s; Parse %q -> %s; Describe -> %s closed=%v: announced %d, ParseParameters returned %d", name, slowQ, replyKinds(out1), fastQ, replyKinds(out2), replyKinds(out3), closed, got, want), nil)
					break
				}
				c.Count("describe_counts_compared", 1)
			}
			cl3.Finish()
		}
		envT.Stop()
	}
	// Describe over a transport whose k-th Write is interrupted half-way with a temporary (timeout) error
	// (what a write deadline does to a message larger than the socket buffer - ParameterDescription is the
	// largest message of the exchange): whatever ParameterDescription the client gets announces the
	// returned length and unspecified types only
	if c.Begin(40000000) {
		for qi, q := range []string{"select 1", "select $1", "select ?, ?, ?", "select $40000", "select $65535", "select $3 ?", strings.Repeat("?,", 700)} {
			if qi%nb != c.Batch%nb || (c.Batch >= nb && qi < nb) {
				continue
			}
			n := len(wire.ParseParameters(q))
			for k := 1; k <= 12; k++ {
				conn := tr.NewConn(sess)
				conn.NoLog = true
				conn.TempWriteAt = k
				env.L.DialConn(conn)
				conn.Send(append(append(append(pg.Startup([][2]string{{"user", "u"}}), pg.Parse("", q, nil)...), pg.Describe('S', "")...), pg.Sync()...))
				conn.Quiesce()
				conn.CloseWrite()
				if !conn.WaitClosed() {
					c.Inconclusive("connection did not close (C20 interrupted-write workload)")
					return
				}
				out := conn.Out()
				msgs, rest, err := pg.ParseStream(out)
				cs := map[string]any{"query": trim(q, 100), "interrupted_write": k}
				c.Count("interrupted_write_describes", 1)
				if conn.TempFired() > 0 {
					c.Count("interrupted_writes_delivered", 1)
				}
				if err != nil {
					c.Violate("interrupted", "after an interrupted write: reply not well-formed", fmt.Sprintf("query %q, write %d interrupted half-way: %v after %s", trim(q, 100), k, err, trim(pg.Kinds(msgs), 200)), cs)
					break
				}
				bad := ""
				for _, m := range msgs {
					if m.T != 't' {
						continue
					}
					c.Count("interrupted_describe_counts_compared", 1)
					if len(m.OIDs) != n {
						bad = fmt.Sprintf("announced %d, returned %d", len(m.OIDs), n)
					}
					for _, o := range m.OIDs {
						if o != 0 {
							bad = fmt.Sprintf("announces type %d for an unspecified placeholder", o)
						}
					}
				}
				if tail := out[len(out)-rest:]; rest >= 7 && tail[0] == 't' {
					if got := int(tail[5])<<8 | int(tail[6]); got != n {
						bad = fmt.Sprintf("interrupted ParameterDescription announces %d, returned %d", got, n)
					}
					for j := 7; j < len(tail); j++ {
						if tail[j] != 0 {
							bad = "interrupted ParameterDescription announces a type for an unspecified placeholder"
						}
					}
				}
				if bad != "" {
					c.Violate("interrupted", "after an interrupted write: ParameterDescription differs from ParseParameters", fmt.Sprintf("query %q, write %d interrupted half-way: %s; reply %s + %d bytes", trim(q, 100), k, bad, trim(pg.Kinds(msgs), 200), rest), cs)
					break
				}
				c.Eval(fmt.Sprintf("interrupted describe %d %d", qi, k), true)
			}
		}
	}
	// concurrent callers (several connections preparing the same fresh text at once use the
	// function concurrently): every caller must get the full answer
	rounds := 150
	if c.Tier == "thorough" {
		rounds = 3000
	}
	for r := 0; r < rounds; r++ {
		if !c.Begin(50000000+r) || c.NViol() >= 10 {
			continue
		}
		n := 1 + (r*7+c.Batch)%40
		q := fmt.Sprintf("select fresh_%d_%d_%d where a = $%d and b = $1", c.Seed, c.Batch, r, n)
		if r%3 == 0 {
			q = fmt.Sprintf("select fresh_%d_%d_%d ", c.Seed, c.Batch, r) + strings.Repeat("?,", n)
		}
		var wg sync.WaitGroup
		got := make([]int, 8)
		start := make(chan struct{})
		for g := range got {
			wg.Add(1)
			go func(g int) {
				defer wg.Done()
				<-start
				got[g] = len(wire.ParseParameters(q))
			}(g)
		}
		close(start)
		wg.Wait()
		c.Count("concurrent_call_rounds", 1)
		c.Eval(fmt.Sprintf("concurrent n=%d style=%d", n, r%3), true)
		for g, l := range got {
			if l != n {
				c.Violate("concurrent", "concurrent callers get different answers for the same query text", fmt.Sprintf("query %q: caller %d of 8 got %d parameters, expected %d (all answers: %v)", q, g, l, n, got), map[string]any{"query": q})
				break
			}
		}
	}
}
