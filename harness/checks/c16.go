package checks

import (
	"context"
	"errors"
	"fmt"
	"net"
	"runtime"
	"strings"
	"sync"
	"sync/atomic"
	"time"

	wire "github.com/jeroenrinzema/psql-wire"
	"github.com/lib/pq/oid"

	"verifharness/core"
	"verifharness/hs"
	"verifharness/pg"
	"verifharness/tr"
)

// C16 - Close is graceful, final, idempotent and concurrency-safe.
//
// Oracles are built on happens-before edges the harness creates itself
// (channels, atomics), never on comparing clock readings:
//   - a callback that is running observes the flag "every Close call of this
//     scenario has returned": either it began after Close returned (finality)
//     or Close returned while it was running (wait) - both violate C16;
//   - Close returning while the harness still holds a started handler parked
//     inside its callback (wait);
//   - a panic (child exit), Serve returning non-nil, or Close never returning
//     after every gate was released and every client closed (deadlock).

type c16 struct{ base }

func init() {
	core.Register(c16{base{id: "C16", race: true, level: "exploration", quickB: 16, thoroughB: 32,
		rule:        "forced schedules = full product of connection state {idle, mid-message (header sent), a finished command followed in the same segment by part of the next message, parked at cmd:received, parked at cmd:admitted, inside parser, inside statement function, inside COPY read} x Close callers {1,2,3,8} x Close start {free, first arrivals parked at close:checked until all callers entered} x message kind {simple Query (single statement / three statements), Parse, Execute}, each on a fresh server (exhaustive in both tiers); after all Close calls returned a further query is sent on the same and on a new connection (boundary, no hooks). One slice per batch runs over real loopback sockets through the library's own ListenAndServe (session served, Close returns, ListenAndServe returns nil). Also 100-520 connections that stay open and idle while Close is called: Close and Serve must return while they are all still connected. Stress = rounds of 1-16 connections firing queries while 1-4 goroutines call Close at PRNG-chosen moments, with random yields at every schedule point and transport operation, under the race detector. Non-trivial = schedule where Close overlaps an in-flight command or another Close; distinct = schedule tuple, for stress the hash of the global (actor,event) order.",
		need:        []string{"forced_schedules", "close_overlaps_running_handler", "close_overlaps_admission", "concurrent_close_groups", "post_close_queries", "stress_rounds", "race_detector_active_batches", "serve_returned_nil"},
		assumptions: append([]string{"for several concurrent Close calls the wait/finality guarantees are asserted once all of them have returned; the settle period used before releasing a parked goroutine only affects detection power, never soundness"}, commonAssumptions...)}})
}

type c16hook struct {
	mu      sync.Mutex
	park    map[string]int // point -> how many arrivals to park
	parked  map[string]int
	arrived map[string]int
	release map[string]chan struct{}
	arr     chan string
	yield   func()
}

func newC16hook() *c16hook {
	return &c16hook{park: map[string]int{}, parked: map[string]int{}, arrived: map[string]int{}, release: map[string]chan struct{}{}, arr: make(chan string, 4096)}
}

func (h *c16hook) fn(point string) {
	if h.yield != nil {
		h.yield()
	}
	h.mu.Lock()
	h.arrived[point]++
	doPark := h.parked[point] < h.park[point]
	var rel chan struct{}
	if doPark {
		h.parked[point]++
		rel = h.release[point]
	}
	h.mu.Unlock()
	select {
	case h.arr <- point:
	default:
	}
	if doPark {
		<-rel
	}
}

func (h *c16hook) parkAt(point string, n int) {
	h.mu.Lock()
	h.park[point] = n
	h.release[point] = make(chan struct{})
	h.mu.Unlock()
}

func (h *c16hook) releaseAll(point string) {
	h.mu.Lock()
	if ch, ok := h.release[point]; ok && h.park[point] >= 0 {
		h.park[point] = -1
		close(ch)
	}
	h.mu.Unlock()
}

func (h *c16hook) count(point string) int {
	h.mu.Lock()
	defer h.mu.Unlock()
	return h.arrived[point]
}

// waitCount waits (bounded) until point was reached n times.
func (h *c16hook) waitCount(point string, n int, d time.Duration) bool {
	deadline := time.Now().Add(d)
	for h.count(point) < n {
		if time.Now().After(deadline) {
			return false
		}
		select {
		case <-h.arr:
		case <-time.After(time.Millisecond):
		}
	}
	return true
}

type c16sched struct {
	State   string // idle midmsg received admitted inparser instmt incopy
	Closers int
	CPark   bool
	Kind    string // query parse exec
}

func (s c16sched) sig() string {
	return fmt.Sprintf("%s/%s closers=%d cpark=%v", s.State, s.Kind, s.Closers, s.CPark)
}

const c16settle = 12 * time.Millisecond

// c16env holds the per-scenario oracle state shared with callbacks.
type c16env struct {
	closeReturned atomic.Bool // every Close call of the scenario has returned
	viol          atomic.Pointer[string]
	gateParser    chan struct{}
	gateStmt      chan struct{}
	entered       chan string
	running       atomic.Int32
}

func (e *c16env) observe(where string) {
	if e.closeReturned.Load() {
		s := where
		e.viol.CompareAndSwap(nil, &s)
	}
}

func (ch c16) parseFn(e *c16env) wire.ParseFn {
	return func(ctx context.Context, query string) (wire.PreparedStatements, error) {
		e.running.Add(1)
		defer e.running.Add(-1)
		e.observe("parser began/ran after every Close call had returned (query " + query + ")")
		if strings.HasPrefix(query, "gateparser") && e.gateParser != nil {
			e.entered <- "parser"
			<-e.gateParser
		}
		e.observe("Close returned while the parser was still running (query " + query + ")")
		cols := wire.Columns{{Name: "c", Oid: oid.T_text, Width: -1}}
		fn := func(ctx context.Context, w wire.DataWriter, _ []wire.Parameter) error {
			e.running.Add(1)
			defer e.running.Add(-1)
			e.observe("statement function began/ran after every Close call had returned (query " + query + ")")
			if strings.HasPrefix(query, "gatestmt") && e.gateStmt != nil {
				e.entered <- "stmt"
				<-e.gateStmt
			}
			if strings.HasPrefix(query, "panics") {
				var rows [][]any
				w.Row(rows[len(query)]) // index out of range: a bug of this statement
			}
			if strings.HasPrefix(query, "copy") {
				cr, err := w.CopyIn(wire.TextFormat)
				if err != nil {
					return err
				}
				e.entered <- "copy"
				for {
					if err := cr.Read(); err != nil {
						break
					}
				}
				e.observe("Close returned while the statement function was still reading COPY data")
				return w.Complete("COPY 0")
			}
			w.Row([]any{"x"})
			e.observe("Close returned while the statement function was still running (query " + query + ")")
			return w.Complete("SELECT 1")
		}
		if strings.HasSuffix(query, "+more") {
			// a multi-statement simple query: one command, two further statements behind the first
			more := func(ctx context.Context, w wire.DataWriter, _ []wire.Parameter) error {
				e.running.Add(1)
				defer e.running.Add(-1)
				e.observe("a later statement of a multi-statement query began/ran after every Close call had returned (query " + query + ")")
				w.Row([]any{"y"})
				e.observe("Close returned while a later statement of a multi-statement query was still running (query " + query + ")")
				return w.Complete("SELECT 1")
			}
			return wire.Prepared(wire.NewStatement(fn, wire.WithColumns(cols)), wire.NewStatement(more, wire.WithColumns(cols)), wire.NewStatement(more, wire.WithColumns(cols))), nil
		}
		return wire.Prepared(wire.NewStatement(fn, wire.WithColumns(cols))), nil
	}
}

func (ch c16) runForced(c *core.Ctx, s c16sched, idx int) {
	cs := map[string]any{"schedule": s.sig()}
	viol := func(rule, sig, detail string) {
		c.Violate(rule, sig, fmt.Sprintf("schedule %s: %s", s.sig(), detail), cs)
	}
	h := newC16hook()
	e := &c16env{gateParser: make(chan struct{}), gateStmt: make(chan struct{}), entered: make(chan string, 8)}
	wire.VerifSetHook(h.fn)
	defer wire.VerifSetHook(nil)
	// a third of the schedules: the client has said goodbye right behind its command (Terminate in the same
	// segment) and the server has a terminate hook that takes a moment
	goodbye := idx%3 == 1 && (s.State == "inparser" || s.State == "instmt")
	env := hs.Start(ch.parseFn(e), wire.TerminateConn(func(ctx context.Context) error {
		for i := 0; i < 200; i++ {
			runtime.Gosched()
		}
		time.Sleep(2 * time.Millisecond)
		return nil
	}))
	cl := hs.NewClient(env.Dial(nil))
	if err := cl.StartupOK("u"); err != nil {
		viol("startup", "startup failed", err.Error())
		return
	}
	if goodbye {
		c.Count("terminate_pipelined_behind_the_command_in_flight", 1)
	}
	// the message that will be in flight
	msgFor := func(q string) []byte {
		switch s.Kind {
		case "parse":
			return pg.Parse("s", q, nil)
		case "exec":
			return append(append(pg.Parse("s", q, nil), pg.Bind("", "s", nil, nil, nil)...), pg.Execute("", 0)...)
		}
		if idx%2 == 0 {
			c.Count("multi_statement_queries_in_flight", 1)
			return pg.Query(q + "+more")
		}
		return pg.Query(q)
	}
	var pendingBody []byte
	inflight := false // a handler has started and is held by the harness
	wait := func(what string, ch <-chan string) bool {
		select {
		case <-ch:
			return true
		case <-time.After(30 * time.Second):
			_, lib := core.ClassifyHang()
			viol("harness-wait", "connection never reached "+what, strings.Join(lib, "; "))
			return false
		}
	}
	switch s.State {
	case "idle":
	case "midmsg":
		m := msgFor("plain")
		cl.C.Send(m[:5])
		pendingBody = m[5:]
		cl.C.Quiesce()
	case "aftercmd-partial":
		// a complete command and the first bytes of the next message arrive together; the client stalls
		m := msgFor("plain")
		cut := 1 + len(m)/2
		cl.C.Send(append(append([]byte{}, pg.Query("complete-first")...), m[:cut]...))
		pendingBody = m[cut:]
		cl.C.Quiesce()
	case "received":
		h.parkAt("cmd:received", 1)
		cl.C.Send(msgFor("plain"))
		if !h.waitCount("cmd:received", 1, 30*time.Second) {
			viol("harness-wait", "cmd:received never reached", "")
			return
		}
	case "admitted":
		h.parkAt("cmd:admitted", 1)
		cl.C.Send(msgFor("plain"))
		if !h.waitCount("cmd:admitted", 1, 30*time.Second) {
			viol("harness-wait", "cmd:admitted never reached", "")
			return
		}
		c.Count("close_overlaps_admission", 1)
	case "inparser":
		if goodbye {
			cl.C.Send(append(msgFor("gateparser"), pg.Terminate()...))
		} else {
			cl.C.Send(msgFor("gateparser"))
		}
		if !wait("parser", e.entered) {
			return
		}
		inflight = true
	case "instmt":
		if s.Kind == "parse" { // Parse alone never runs the statement: use Execute
			s.Kind = "exec"
		}
		if goodbye {
			cl.C.Send(append(msgFor("gatestmt"), pg.Terminate()...))
		} else {
			cl.C.Send(msgFor("gatestmt"))
		}
		if !wait("statement", e.entered) {
			return
		}
		inflight = true
	case "incopy":
		if s.Kind == "parse" {
			s.Kind = "exec"
		}
		cl.C.Send(msgFor("copy"))
		if !wait("copy", e.entered) {
			return
		}
		cl.C.Quiesce() // handler blocked reading COPY data
		inflight = true
	}
	if inflight {
		c.Count("close_overlaps_running_handler", 1)
	}
	// Close callers
	if s.CPark {
		h.parkAt("close:checked", s.Closers)
	}
	closeDone := make(chan int, s.Closers)
	var returned atomic.Int32
	for k := 0; k < s.Closers; k++ {
		go func(k int) {
			env.Srv.Close()
			if int(returned.Add(1)) == s.Closers {
				e.closeReturned.Store(true)
			}
			closeDone <- k
		}(k)
	}
	if s.Closers > 1 {
		c.Count("concurrent_close_groups", 1)
	}
	h.waitCount("close:enter", s.Closers, 30*time.Second)
	time.Sleep(c16settle)
	if s.CPark {
		h.releaseAll("close:checked")
		time.Sleep(c16settle)
	}
	// wait clause: with a handler still held, no Close call may have returned... (asserted for all calls together)
	if inflight && e.closeReturned.Load() {
		viol("wait", "Close returned while a started handler was still inside its callback ("+s.State+")", "all Close calls returned although the harness still holds the handler parked")
	} else if n := returned.Load(); inflight && n > 0 {
		// ... and for each call on its own: the handler had started before any of the calls was made
		viol("wait", "one of several Close calls returned while a handler that had started before it was called was still inside its callback ("+s.State+")", fmt.Sprintf("%d of %d Close calls have returned although the harness still holds the handler parked", n, s.Closers))
	}
	// a connection that is merely in the middle of reading a message has no started handler:
	// Close must return although the client stalls (nothing is sent until it has)
	if s.State == "midmsg" || s.State == "aftercmd-partial" {
		got := 0
		timeout := time.After(40 * time.Second)
	waitClose:
		for got < s.Closers {
			select {
			case <-closeDone:
				got++
			case <-timeout:
				dump, lib := core.ClassifyHang()
				if len(lib) > 0 {
					viol("deadlock", "Close blocks on a connection that is only in the middle of reading a message ("+s.State+"): "+strings.Join(lib, "; "), trim(dump, 3000))
				} else {
					c.Inconclusive("Close did not return for a mid-message connection and no library goroutine is blocked")
				}
				break waitClose
			}
		}
		for ; got > 0; got-- {
			closeDone <- 0 // hand the tokens back for the common "every Close must return" step below
		}
		c.Count("close_with_stalled_partial_message", 1)
	}
	// release whatever the connection is parked on
	switch s.State {
	case "midmsg", "aftercmd-partial":
		cl.C.Send(pendingBody)
	case "received":
		h.releaseAll("cmd:received")
	case "admitted":
		// the command passed the shutdown check; let Close run to completion first if it can
		select {
		case k := <-closeDone:
			closeDone <- k
		case <-time.After(c16settle):
		}
		h.releaseAll("cmd:admitted")
	case "inparser":
		close(e.gateParser)
	case "instmt":
		close(e.gateStmt)
	case "incopy":
		cl.C.Send(pg.CopyDone())
	}
	// every Close must return
	for k := 0; k < s.Closers; k++ {
		select {
		case <-closeDone:
		case <-time.After(30 * time.Second):
			dump, lib := core.ClassifyHang()
			if len(lib) > 0 {
				viol("deadlock", "Close never returned: "+strings.Join(lib, "; "), trim(dump, 4000))
			} else {
				c.Inconclusive("Close did not return within the watchdog and no library goroutine is blocked")
			}
			return
		}
	}
	if s.Kind == "exec" && s.State != "idle" {
		cl.C.Send(pg.Sync())
	}
	cl.C.Quiesce()
	// boundary: queries written only after every Close returned must never reach a callback
	cl.C.Send(pg.Query([]string{"after-close-same-connection", "-- ping\nafter-close", "; after-close", "--\nafter-close-same-connection", "/* ping */ after-close"}[idx%5]))
	cl.C.Quiesce()
	c.Count("post_close_queries", 1)
	// let in-flight callbacks (if any, on a defective tree) surface
	for i := 0; i < 50 && e.running.Load() > 0; i++ {
		time.Sleep(time.Millisecond)
	}
	if v := e.viol.Load(); v != nil {
		rule := "finality"
		if strings.HasPrefix(*v, "Close returned while") {
			rule = "wait"
		}
		viol(rule, normDigits(*v), *v)
	}
	cl.C.CloseWrite()
	select {
	case err := <-env.ServeErr:
		if err != nil {
			viol("serve-error", "Serve returned a non-nil error after Close", err.Error())
		} else {
			c.Count("serve_returned_nil", 1)
		}
	case <-time.After(30 * time.Second):
		_, lib := core.ClassifyHang()
		viol("serve-hang", "Serve did not return after Close", strings.Join(lib, "; "))
	}
	c.Count("forced_schedules", 1)
	c.Eval(s.sig(), s.State != "idle" || s.Closers > 1)
	if idx < 2 {
		c.Sample(map[string]any{"schedule": s.sig(), "hook_points_seen": h.arrived})
	}
}

func normDigits(s string) string {
	if i := strings.Index(s, "(query"); i > 0 {
		return s[:i]
	}
	return s
}

func (ch c16) runStress(c *core.Ctx, round int) {
	rng := core.NewRng(c.Seed, "C16s", 0, round)
	cs := map[string]any{"stress_round": round}
	h := newC16hook()
	h.yield = tr.YieldFn(rng.U64())
	e := &c16env{entered: make(chan string, 1024)}
	wire.VerifSetHook(h.fn)
	defer wire.VerifSetHook(nil)
	env := hs.Start(ch.parseFn(e))
	nconn := 1 + rng.Intn(16)
	nclose := 1 + rng.Intn(4)
	var wg sync.WaitGroup
	stop := make(chan struct{})
	var sent atomic.Int64
	for i := 0; i < nconn; i++ {
		conn := tr.NewConn(nil)
		conn.Yield = tr.YieldFn(rng.U64())
		conn.NoLog = true
		env.L.DialConn(conn)
		cl := hs.NewClient(conn)
		kind := rng.Intn(3)
		if err := cl.StartupOK("u"); err != nil {
			c.Violate("startup", "startup failed", err.Error(), cs)
			return
		}
		wg.Add(1)
		go func(i int) {
			defer wg.Done()
			for q := 0; ; q++ {
				select {
				case <-stop:
					// a few more after Close returned
					for k := 0; k < 3; k++ {
						cl.Step(pg.Query(fmt.Sprintf("late c%d q%d", i, k)))
					}
					cl.C.CloseWrite()
					return
				default:
				}
				switch kind {
				case 0:
					cl.Step(pg.Query(fmt.Sprintf("s c%d q%d%s", i, q, []string{"", "+more"}[q%2])))
				case 1:
					cl.Step(append(append(append(pg.Parse("", fmt.Sprintf("p c%d q%d", i, q), nil), pg.Bind("", "", nil, nil, nil)...), pg.Execute("", 0)...), pg.Sync()...))
				default:
					cl.C.Send(pg.Query(fmt.Sprintf("n c%d q%d", i, q)))
					runtime.Gosched()
					cl.Wait()
				}
				sent.Add(1)
				if cl.Hung {
					return
				}
			}
		}(i)
	}
	// closers start at PRNG-chosen moments
	var returned atomic.Int32
	closeDone := make(chan struct{}, nclose)
	for k := 0; k < nclose; k++ {
		spins := rng.Intn(2000)
		go func() {
			for i := 0; i < spins; i++ {
				runtime.Gosched()
			}
			env.Srv.Close()
			if int(returned.Add(1)) == nclose {
				e.closeReturned.Store(true)
			}
			closeDone <- struct{}{}
		}()
	}
	for k := 0; k < nclose; k++ {
		select {
		case <-closeDone:
		case <-time.After(40 * time.Second):
			// nothing blocked inside the library: the goroutines are waiting for a processor (a machine with far
			// more runnable threads than cores). A Close that is merely slow returns in the end - it gets five
			// more minutes, looked at every twenty seconds; one that is stuck shows a blocked library goroutine
			late := false
			for slice := 0; slice < 16 && !late; slice++ {
				dump, lib := core.ClassifyHang()
				if len(lib) > 0 {
					c.Violate("deadlock", "Close never returned under stress: "+strings.Join(lib, "; "), trim(dump, 4000), cs)
					close(stop)
					return
				}
				select {
				case <-closeDone:
					late = true
				case <-time.After(20 * time.Second):
				}
			}
			if !late {
				c.Inconclusive("stress: Close watchdog fired without library-blocked goroutine")
				close(stop)
				return
			}
			c.Count("cases_not_judged_on_a_slow_machine", 1)
		}
	}
	close(stop)
	wg.Wait()
	select {
	case err := <-env.ServeErr:
		if err != nil {
			c.Violate("serve-error", "Serve returned a non-nil error after Close", err.Error(), cs)
		} else {
			c.Count("serve_returned_nil", 1)
		}
	case <-time.After(30 * time.Second):
		_, lib := core.ClassifyHang()
		c.Violate("serve-hang", "Serve did not return after Close", strings.Join(lib, "; "), cs)
	}
	if v := e.viol.Load(); v != nil {
		rule := "finality"
		if strings.HasPrefix(*v, "Close returned while") {
			rule = "wait"
		}
		c.Violate(rule, normDigits(*v)+" (stress)", fmt.Sprintf("stress round %d (%d connections, %d Close callers): %s", round, nconn, nclose, *v), cs)
	}
	c.Count("stress_rounds", 1)
	c.Count("stress_queries_sent", sent.Load())
	c.Eval(fmt.Sprintf("stress n=%d k=%d sent=%d adm=%d", nconn, nclose, sent.Load(), h.count("cmd:admitted")), true)
}

func (ch c16) deadTransport(c *core.Ctx, variant int) {
	cs := map[string]any{"dead_transport_variant": variant}
	e := &c16env{entered: make(chan string, 8)}
	env := hs.Start(ch.parseFn(e))
	conn := tr.NewConn(nil)
	env.L.DialConn(conn)
	cl := hs.NewClient(conn)
	if err := cl.StartupOK("u"); err != nil {
		c.Violate("startup", "startup failed", err.Error(), cs)
		return
	}
	// from now on every server write fails (the client is gone), reads still deliver what was queued
	conn.FailWriteAt = conn.Stats().Writes + 1
	switch variant {
	case 0: // malformed Query (no terminator): the handler returns a bare error
		conn.Send(pg.Raw('Q', []byte("no terminator")))
	case 1: // a statement that fails, reported through a dead transport
		conn.Send(append(pg.Parse("", "plain", nil), pg.Raw('B', []byte{0})...))
	default: // rows streamed into a dead transport
		conn.Send(pg.Query("plain"))
	}
	conn.CloseWrite()
	conn.WaitClosed()
	closed := make(chan struct{})
	go func() { env.Srv.Close(); close(closed) }()
	select {
	case <-closed:
		c.Count("close_after_dead_transport", 1)
	case <-time.After(40 * time.Second):
		dump, lib := core.ClassifyHang()
		if len(lib) > 0 {
			c.Violate("deadlock", "Close never returns after a command failed on a dead transport: "+strings.Join(lib, "; "), trim(dump, 3000), cs)
		} else {
			c.Inconclusive("Close watchdog fired (dead transport) without a library-blocked goroutine")
		}
		c.Finish()
		return
	}
	select {
	case err := <-env.ServeErr:
		if err != nil {
			c.Violate("serve-error", "Serve returned a non-nil error after Close", err.Error(), cs)
		}
	case <-time.After(40 * time.Second):
		c.Violate("serve-hang", "Serve did not return after Close", "", cs)
	}
	c.Eval(fmt.Sprintf("dead-transport %d", variant), true)
}

func (ch c16) multiListener(c *core.Ctx, nl int) {
	cs := map[string]any{"listeners": nl}
	e := &c16env{entered: make(chan string, 8)}
	srv, err := wire.NewServer(ch.parseFn(e), wire.Logger(hs.Quiet), wire.MessageBufferSize(1<<16))
	if err != nil {
		c.Inconclusive("NewServer failed")
		return
	}
	var ls []*tr.Listener
	done := make(chan error, nl)
	for i := 0; i < nl; i++ {
		l := tr.NewListener()
		ls = append(ls, l)
		go func() { done <- srv.Serve(l) }()
		<-l.Ready()
	}
	// every listener serves connections
	for i, l := range ls {
		cl := hs.NewClient(l.Dial(nil))
		if err := cl.StartupOK("u"); err != nil {
			c.Violate("multi-listener", "a second listener of the same server does not serve connections", fmt.Sprintf("listener %d: %v", i, err), cs)
			return
		}
		out, _ := cl.Step(pg.Query("plain"))
		if !strings.HasSuffix(replyKinds(out), "ZI") {
			c.Violate("multi-listener", "a second listener of the same server does not serve queries", replyKinds(out), cs)
			return
		}
		cl.C.CloseWrite()
	}
	closed := make(chan struct{})
	go func() { srv.Close(); close(closed) }()
	select {
	case <-closed:
	case <-time.After(30 * time.Second):
		_, lib := core.ClassifyHang()
		c.Violate("deadlock", "Close never returned with several listeners: "+strings.Join(lib, "; "), "", cs)
		return
	}
	for i := 0; i < nl; i++ {
		select {
		case err := <-done:
			if err != nil {
				c.Violate("serve-error", "Serve returned a non-nil error after Close", err.Error(), cs)
			} else {
				c.Count("serve_returned_nil", 1)
			}
		case <-time.After(40 * time.Second):
			c.Violate("serve-hang", fmt.Sprintf("with %d listeners only %d Serve call(s) returned after Close", nl, i), "Close stopped only some of the accept loops", cs)
			return
		}
	}
	c.Count("multi_listener_servers", 1)
	c.Eval(fmt.Sprintf("listeners=%d", nl), true)
}

// realTCP: one slice over real loopback sockets and the library's own ListenAndServe: a session is
// served, Close returns, ListenAndServe returns nil. Reading uses generous
// socket deadlines; their expiry is inconclusive, never a violation.
func (ch c16) realTCP(c *core.Ctx) {
	e := &c16env{entered: make(chan string, 8)}
	var srv *wire.Server
	var conn net.Conn
	var done chan error
	var addr string
	for attempt := 0; attempt < 6 && conn == nil; attempt++ {
		// a free loopback port is probed and handed to ListenAndServe; a parallel batch may grab it
		// in between, in which case another port is tried
		l, err := net.Listen("tcp", "127.0.0.1:0")
		if err != nil {
			break
		}
		addr = l.Addr().String()
		l.Close()
		srv, err = wire.NewServer(ch.parseFn(e), wire.Logger(hs.Quiet))
		if err != nil {
			c.Violate("startup", "NewServer failed", err.Error(), nil)
			return
		}
		done = make(chan error, 1)
		go func(srv *wire.Server, addr string, done chan error) { done <- srv.ListenAndServe(addr) }(srv, addr, done)
	dial:
		for i := 0; i < 500; i++ {
			if cn, derr := net.Dial("tcp", addr); derr == nil {
				conn = cn
				break
			}
			select {
			case <-done:
				break dial // could not bind: next attempt
			case <-time.After(10 * time.Millisecond):
			}
		}
		if conn == nil {
			srv.Close()
		}
	}
	if conn == nil {
		c.Count("real_tcp_unavailable", 1)
		return
	}
	defer conn.Close()
	var acc []byte
	until := func(last byte) (string, bool) { // reads until a complete message of the given type ends the stream
		buf := make([]byte, 4096)
		for {
			if msgs, rest, perr := pg.ParseStream(acc); perr == nil && rest == 0 && len(msgs) > 0 && msgs[len(msgs)-1].T == last {
				k := pg.Types(msgs)
				acc = nil
				return k, true
			}
			conn.SetReadDeadline(time.Now().Add(20 * time.Second))
			n, rerr := conn.Read(buf)
			acc = append(acc, buf[:n]...)
			if rerr != nil {
				return replyKinds(acc), false
			}
		}
	}
	conn.Write(pg.Startup([][2]string{{"user", "tcp"}}))
	if k, ok := until('Z'); !ok {
		c.Violate("real-tcp", "startup over a loopback socket not served", k, nil)
		return
	}
	conn.Write(pg.Query("plain"))
	if k, ok := until('Z'); !ok || k != "TDCZ" {
		c.Violate("real-tcp", "query over a loopback socket not served", k, nil)
		return
	}
	closed := make(chan struct{})
	go func() { srv.Close(); close(closed) }()
	for _, w := range []struct {
		what string
		ch   <-chan struct{}
	}{{"Close did not return", closed}} {
		select {
		case <-w.ch:
		case <-time.After(30 * time.Second):
			_, lib := core.ClassifyHang()
			c.Violate("deadlock", w.what+" (loopback sockets, one idle connection): "+strings.Join(lib, "; "), "", nil)
			c.Finish()
		}
	}
	select {
	case lerr := <-done:
		if lerr != nil {
			c.Violate("serve-error", "ListenAndServe returned a non-nil error after Close", lerr.Error(), nil)
		}
	case <-time.After(30 * time.Second):
		_, lib := core.ClassifyHang()
		c.Violate("serve-hang", "ListenAndServe did not return after Close: "+strings.Join(lib, "; "), "", nil)
		c.Finish()
	}
	// (no late dial to the freed port: a parallel batch may have bound it in the meantime)
	c.Count("real_tcp_slices", 1)
	c.Eval("real-tcp", true)
}

func (ch c16) manyIdle(c *core.Ctx, n int) {
	cs := map[string]any{"idle_connections": n}
	e := &c16env{entered: make(chan string, 8)}
	env := hs.Start(ch.parseFn(e))
	var cls []*hs.Client
	for i := 0; i < n; i++ {
		cl := hs.NewClient(env.Dial(nil))
		if err := cl.StartupOK("u"); err != nil {
			c.Violate("startup", "startup failed", fmt.Sprintf("connection %d of %d: %v", i, n, err), cs)
			return
		}
		cls = append(cls, cl)
	}
	closed := make(chan struct{})
	go func() { env.Srv.Close(); close(closed) }()
	stuck := func(what string) {
		dump, lib := core.ClassifyHang()
		if len(lib) > 0 {
			c.Violate("deadlock", fmt.Sprintf("%s while %d idle connections are open: %s", what, n, strings.Join(lib, "; ")), trim(dump, 3000), cs)
		} else {
			c.Inconclusive("watchdog fired (many idle connections) without a library-blocked goroutine")
		}
		c.Finish()
	}
	select {
	case <-closed:
	case <-time.After(30 * time.Second):
		stuck("Close never returned")
		return
	}
	select {
	case err := <-env.ServeErr:
		if err != nil {
			c.Violate("serve-error", "Serve returned a non-nil error after Close", err.Error(), cs)
		}
	case <-time.After(30 * time.Second):
		stuck("Serve did not return after Close")
		return
	}
	c.Count("close_with_many_idle_connections", 1)
	c.Eval(fmt.Sprintf("many-idle %d", n), true)
	for _, cl := range cls {
		cl.C.CloseWrite()
	}
	for _, cl := range cls {
		cl.C.WaitClosed()
	}
}

func (ch c16) Run(c *core.Ctx) {
	nb := ch.Batches(c.Tier)
	tr.WatchdogTimeout = 30 * time.Second
	var scheds []c16sched
	for _, st := range []string{"idle", "midmsg", "aftercmd-partial", "received", "admitted", "inparser", "instmt", "incopy"} {
		for _, k := range []int{1, 2, 3, 8} {
			for _, cp := range []bool{false, true} {
				for _, kind := range []string{"query", "parse", "exec"} {
					scheds = append(scheds, c16sched{State: st, Closers: k, CPark: cp, Kind: kind})
				}
			}
		}
	}
	for i := c.Batch; i < len(scheds); i += nb {
		if !c.Begin(i) || c.NViol() >= 10 {
			continue
		}
		ch.runForced(c, scheds[i], i)
	}
	if c.Batch == 0 {
		c.Count("exhaustive_parts", 1)
	}
	// a command that fails fatally while its transport is already dead, then Close
	for v := 0; v < 3; v++ {
		if !c.Begin(60000+v) || c.NViol() >= 10 {
			continue
		}
		ch.deadTransport(c, v)
	}
	// several listeners on one server: every Serve call must return nil after Close
	for nl := 2; nl <= 3; nl++ {
		if !c.Begin(50000+nl) || c.NViol() >= 10 {
			continue
		}
		ch.multiListener(c, nl)
	}
	// many connections that stay open and idle: Close returns, and so does Serve, while they are all
	// still connected (the accept loop ends with the listener, not with the clients)
	if c.Begin(70000) && c.NViol() < 10 {
		ch.manyIdle(c, []int{100, 128, 257, 300, 520}[c.Batch%5])
	}
	if c.Begin(70001) && c.NViol() < 10 {
		ch.realTCP(c)
	}
	// a client that has sent its start-up packet and withholds the password: Close returns all the same
	if c.Begin(70020) && c.NViol() < 10 {
		e := &c16env{entered: make(chan string, 8)}
		env := hs.Start(ch.parseFn(e), wire.SessionAuthStrategy(wire.ClearTextPassword(func(ctx context.Context, db, user, pw string) (context.Context, bool, error) {
			return ctx, true, nil
		})))
		cl := hs.NewClient(env.Dial(nil))
		cl.C.Send(pg.Startup([][2]string{{"user", "stalls"}}))
		cl.C.Quiesce() // password requested, the server waits
		done := make(chan struct{})
		go func() { env.Srv.Close(); env.Srv.Close(); close(done) }()
		select {
		case <-done:
			c.Count("close_with_client_stalled_in_authentication", 1)
		case <-time.After(30 * time.Second):
			dump, lib := core.ClassifyHang()
			if len(lib) > 0 {
				c.Violate("deadlock", "Close blocks on a connection that is waiting for the client's password: "+strings.Join(lib, "; "), trim(dump, 3000), nil)
			} else {
				c.Inconclusive("Close watchdog fired (client stalled in authentication) without a library-blocked goroutine")
			}
			c.Finish()
		}
		c.Eval("client stalled in authentication", true)
		cl.C.CloseWrite()
		cl.C.WaitClosed()
		<-env.ServeErr
	}
	// the application gives every connection a context of its own (session middleware or authentication
	// strategy) and ends it - a per-session deadline passes, the application logs the user out - while a
	// statement of that connection is still running: Close waits for the handler, not for the context
	for v := 0; v < 3; v++ {
		if !c.Begin(70030+v) || c.NViol() >= 10 {
			continue
		}
		ch.sessionContextEnds(c, v)
	}
	for v := 0; v < 2; v++ {
		if !c.Begin(70060+v) || c.NViol() >= 10 {
			continue
		}
		ch.shortTimeouts(c, v)
	}
	for v := 0; v < 4; v++ {
		if !c.Begin(70050+v) || c.NViol() >= 10 {
			continue
		}
		ch.lateStartup(c, v)
	}
	// a statement function that panics when executed through the extended protocol (the pinned tree turns
	// that into an ErrorResponse): the command is over all the same, a Close afterwards returns
	for v := 0; v < 2; v++ {
		if !c.Begin(70040+v) || c.NViol() >= 10 {
			continue
		}
		ch.panicThenClose(c, v)
	}
	// the accept loop ends before Close for a reason of its own (Accept fails; the listener's owner
	// closes it): Close afterwards still returns, repeated Close calls too
	for v := 0; v < 2; v++ {
		if !c.Begin(70010+v) || c.NViol() >= 10 {
			continue
		}
		e := &c16env{entered: make(chan string, 8)}
		env := hs.Start(ch.parseFn(e))
		cl := hs.NewClient(env.Dial(nil))
		if err := cl.StartupOK("u"); err != nil {
			continue
		}
		what := "Accept failed with an error"
		if v == 0 {
			env.L.FailAccept(errors.New("accept: too many open files"))
		} else {
			what = "the listener was closed by its owner"
			env.L.Close()
		}
		select {
		case <-env.ServeErr:
		case <-time.After(30 * time.Second):
			_, lib := core.ClassifyHang()
			c.Violate("serve-hang", "Serve did not return after "+what, strings.Join(lib, "; "), nil)
			c.Finish()
		}
		done := make(chan struct{})
		go func() { env.Srv.Close(); env.Srv.Close(); close(done) }()
		select {
		case <-done:
			c.Count("close_after_accept_loop_ended", 1)
			// Close is as final as ever: a query on the connection accepted before the accept loop ended
			// reaches no callback
			e.closeReturned.Store(true)
			cl.C.Send(pg.Query("after-close on a connection accepted before " + what))
			cl.C.Quiesce()
			for i := 0; i < 50 && e.running.Load() > 0; i++ {
				time.Sleep(time.Millisecond)
			}
			c.Count("post_close_queries", 1)
			if v := e.viol.Load(); v != nil {
				c.Violate("finality", normDigits(*v), "Close called after "+what+" (Serve had returned): "+*v, nil)
			}
		case <-time.After(30 * time.Second):
			dump, lib := core.ClassifyHang()
			if len(lib) > 0 {
				c.Violate("deadlock", "Close never returns once "+what+": "+strings.Join(lib, "; "), trim(dump, 3000), nil)
			} else {
				c.Inconclusive("Close watchdog fired (accept loop ended early) without a library-blocked goroutine")
			}
			c.Finish()
		}
		c.Eval("accept loop ended early: "+what, true)
		cl.C.CloseWrite()
		cl.C.WaitClosed()
	}
	rounds := 1600
	if c.Tier == "thorough" {
		rounds = 100000
	}
	for r := c.Batch; r < rounds; r += nb {
		if !c.Begin(100000+r) || c.NViol() >= 10 {
			continue
		}
		ch.runStress(c, r)
	}
}

func (ch c16) sessionContextEnds(c *core.Ctx, variant int) {
	cs := map[string]any{"session_context_variant": variant}
	e := &c16env{entered: make(chan string, 8), gateStmt: make(chan struct{}), gateParser: make(chan struct{})}
	var end atomic.Pointer[context.CancelCauseFunc]
	derive := func(ctx context.Context) context.Context {
		ctx, cancel := context.WithCancelCause(ctx)
		end.Store(&cancel)
		return ctx
	}
	opts := []wire.OptionFn{wire.SessionMiddleware(func(ctx context.Context) (context.Context, error) { return derive(ctx), nil })}
	if variant == 2 {
		opts = []wire.OptionFn{wire.SessionAuthStrategy(wire.ClearTextPassword(func(ctx context.Context, db, user, pw string) (context.Context, bool, error) {
			return derive(ctx), true, nil
		}))}
	}
	env := hs.Start(ch.parseFn(e), opts...)
	cl := hs.NewClient(env.Dial(nil))
	if variant == 2 {
		cl.Step(pg.Startup([][2]string{{"user", "u"}}))
		cl.Step(pg.Password("pw"))
	} else if err := cl.StartupOK("u"); err != nil {
		c.Violate("startup", "startup failed", err.Error(), cs)
		return
	}
	where := "stmt"
	if variant == 1 {
		where = "parser"
		cl.C.Send(pg.Query("gateparser session context"))
	} else {
		cl.C.Send(pg.Query("gatestmt session context"))
	}
	select {
	case got := <-e.entered:
		if got != where {
			c.Inconclusive("session-context scenario: entered " + got + " instead of " + where)
			return
		}
	case <-time.After(40 * time.Second):
		c.Inconclusive("session-context scenario: the handler was never entered")
		return
	}
	if cancel := end.Load(); cancel != nil {
		(*cancel)(errors.New("session ended by the application"))
		c.Count("session_contexts_ended_while_a_handler_runs", 1)
	} else {
		c.Inconclusive("session-context scenario: the connection's context was never derived")
		return
	}
	closed := make(chan struct{})
	go func() { env.Srv.Close(); e.closeReturned.Store(true); close(closed) }()
	select {
	case <-closed: // (a Close that does not wait is seen by the handler below)
	case <-time.After(25 * c16settle):
	}
	if where == "parser" {
		close(e.gateParser)
	} else {
		close(e.gateStmt)
	}
	select {
	case <-closed:
	case <-time.After(40 * time.Second):
		dump, lib := core.ClassifyHang()
		if len(lib) > 0 {
			c.Violate("deadlock", "Close never returns after the session's context had ended: "+strings.Join(lib, "; "), trim(dump, 3000), cs)
		} else {
			c.Inconclusive("Close watchdog fired (session context ended) without a library-blocked goroutine")
		}
		c.Finish()
		return
	}
	for i := 0; i < 200 && e.running.Load() > 0; i++ {
		time.Sleep(time.Millisecond)
	}
	if v := e.viol.Load(); v != nil {
		c.Violate("close-early", "Close returned before a handler whose session context had ended was finished", *v, cs)
	}
	cl.C.CloseWrite()
	cl.C.WaitClosed()
	select {
	case <-env.ServeErr:
	case <-time.After(40 * time.Second):
		c.Violate("serve-hang", "Serve did not return after Close", "", cs)
	}
	c.Eval(fmt.Sprintf("session context ends %d", variant), true)
}

// shortTimeouts: a server on which every timeout this tree offers (exported duration fields of the Server,
// none on the pinned tree) is set to 25 ms. A handler is still running when Close is called and keeps
// running for several such periods: Close returns once the handler has finished - not before, and not never.
func (ch c16) shortTimeouts(c *core.Ctx, variant int) {
	cs := map[string]any{"short_timeouts_variant": variant}
	e := &c16env{entered: make(chan string, 8), gateStmt: make(chan struct{}), gateParser: make(chan struct{})}
	hs.ShortTimeouts = true
	env := hs.Start(ch.parseFn(e))
	hs.ShortTimeouts = false
	cl := hs.NewClient(env.Dial(nil))
	if err := cl.StartupOK("u"); err != nil {
		c.Violate("startup", "startup failed", err.Error(), cs)
		return
	}
	where := "stmt"
	if variant == 1 {
		where = "parser"
		cl.C.Send(pg.Query("gateparser short timeouts"))
	} else {
		cl.C.Send(pg.Query("gatestmt short timeouts"))
	}
	select {
	case got := <-e.entered:
		if got != where {
			c.Inconclusive("short-timeouts scenario: entered " + got + " instead of " + where)
			return
		}
	case <-time.After(40 * time.Second):
		c.Inconclusive("short-timeouts scenario: the handler was never entered")
		return
	}
	closed := make(chan struct{})
	go func() { env.Srv.Close(); e.closeReturned.Store(true); env.Srv.Close(); close(closed) }()
	select {
	case <-closed: // (a Close that does not wait is seen by the handler below)
	case <-time.After(150 * time.Millisecond): // six of the short periods; detection power only
	}
	if where == "parser" {
		close(e.gateParser)
	} else {
		close(e.gateStmt)
	}
	select {
	case <-closed:
		c.Count("close_with_short_timeouts_and_a_long_handler", 1)
	case <-time.After(40 * time.Second):
		dump, lib := core.ClassifyHang()
		if len(lib) > 0 {
			c.Violate("deadlock", "Close never returns on a server with short timeouts whose handler outlived them: "+strings.Join(lib, "; "), trim(dump, 3000), cs)
		} else {
			c.Inconclusive("Close watchdog fired (short timeouts) without a library-blocked goroutine")
		}
		c.Finish()
		return
	}
	for i := 0; i < 200 && e.running.Load() > 0; i++ {
		time.Sleep(time.Millisecond)
	}
	if v := e.viol.Load(); v != nil {
		c.Violate("close-early", "Close returned before a handler that outlived the server's timeouts was finished", *v, cs)
	}
	cl.C.CloseWrite()
	cl.C.WaitClosed()
	select {
	case <-env.ServeErr:
	case <-time.After(40 * time.Second):
		c.Violate("serve-hang", "Serve did not return after Close", "", cs)
	}
	c.Eval(fmt.Sprintf("short timeouts %d", variant), true)
}

func (ch c16) panicThenClose(c *core.Ctx, variant int) {
	cs := map[string]any{"panicking_statement_variant": variant}
	e := &c16env{entered: make(chan string, 8)}
	env := hs.Start(ch.parseFn(e))
	cl := hs.NewClient(env.Dial(nil))
	if err := cl.StartupOK("u"); err != nil {
		c.Violate("startup", "startup failed", err.Error(), cs)
		return
	}
	in := append(append(pg.Parse("", "panics when executed", nil), pg.Bind("", "", nil, nil, nil)...), pg.Execute("", 0)...)
	if variant == 0 {
		in = append(in, pg.Sync()...)
	}
	out, closed := cl.Step(in)
	c.Count("statements_panicking_in_execute_before_close", 1)
	if !strings.Contains(pg.Types(mustMsgs(out)), "E") {
		c.Inconclusive("panicking statement: no ErrorResponse (" + replyKinds(out) + ")")
		return
	}
	if !closed && variant == 0 {
		// the connection goes on: one more command, served as usual
		if o, _ := cl.Step(pg.Query("plain after the panic")); !strings.HasSuffix(pg.Types(mustMsgs(o)), "CZ") {
			c.Violate("after-panic", "the connection of a statement that panicked in Execute does not serve its next query", replyKinds(o), cs)
		}
	}
	done := make(chan struct{})
	go func() { env.Srv.Close(); env.Srv.Close(); close(done) }()
	select {
	case <-done:
		c.Count("close_after_a_panicking_statement", 1)
	case <-time.After(40 * time.Second):
		dump, lib := core.ClassifyHang()
		if len(lib) > 0 {
			c.Violate("deadlock", "Close never returns after a statement function had panicked: "+strings.Join(lib, "; "), trim(dump, 3000), cs)
		} else {
			c.Inconclusive("Close watchdog fired (after a panicking statement) without a library-blocked goroutine")
		}
		c.Finish()
		return
	}
	cl.C.CloseWrite()
	cl.C.WaitClosed()
	select {
	case <-env.ServeErr:
	case <-time.After(40 * time.Second):
		c.Violate("serve-hang", "Serve did not return after Close", "", cs)
	}
	c.Eval(fmt.Sprintf("panic then close %d", variant), true)
}

// lateStartup: a connection is accepted and has sent half of its start-up packet when Close is called and
// returns; the rest of the packet (with run-time settings in its options parameter, as libpq's PGOPTIONS
// sends them) and a query arrive afterwards. Whatever the server does with that connection, no parser or
// statement function begins.
func (ch c16) lateStartup(c *core.Ctx, variant int) {
	cs := map[string]any{"late_startup_variant": variant}
	e := &c16env{entered: make(chan string, 8)}
	env := hs.Start(ch.parseFn(e))
	cl := hs.NewClient(env.Dial(nil))
	params := [][2]string{{"user", "late"}, {"options", []string{"-c search_path=public -c geqo=off", "--application_name=late --statement_timeout=5", "-c DateStyle=ISO"}[variant%3]}}
	if variant == 3 {
		params = params[:1]
	}
	pkt := pg.Startup(params)
	cl.C.Send(pkt[:len(pkt)/2])
	cl.C.Quiesce()
	done := make(chan struct{})
	go func() { env.Srv.Close(); e.closeReturned.Store(true); close(done) }()
	select {
	case <-done:
	case <-time.After(40 * time.Second):
		dump, lib := core.ClassifyHang()
		if len(lib) > 0 {
			c.Violate("deadlock", "Close blocks on a connection that is half-way through its start-up packet: "+strings.Join(lib, "; "), trim(dump, 3000), cs)
		} else {
			c.Inconclusive("Close watchdog fired (half a start-up packet) without a library-blocked goroutine")
		}
		c.Finish()
		return
	}
	cl.C.Send(append(pkt[len(pkt)/2:], pg.Query("plain after close")...))
	cl.C.Quiesce()
	cl.C.CloseWrite()
	cl.C.WaitClosed()
	c.Count("startups_completed_after_close_returned", 1)
	if v := e.viol.Load(); v != nil {
		c.Violate("late-start", "a callback began on a connection that completed its start-up after Close had returned", *v, cs)
	}
	select {
	case <-env.ServeErr:
	case <-time.After(40 * time.Second):
		c.Violate("serve-hang", "Serve did not return after Close", "", cs)
	}
	c.Eval(fmt.Sprintf("late startup %d", variant), true)
}
