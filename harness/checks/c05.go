package checks

import (
	"bytes"
	"encoding/binary"
	"fmt"
	"strings"
	"sync"
	"time"

	wire "github.com/jeroenrinzema/psql-wire"
	"github.com/lib/pq/oid"

	"verifharness/core"
	"verifharness/hs"
	"verifharness/pg"
	"verifharness/tr"
)

// C05 - Simple Query: ordered results, then exactly one ReadyForQuery; result
// writer state machine.

type c05 struct{ base }

func init() {
	core.Register(c05{base{id: "C05", level: "exploration", quickB: 16, thoroughB: 32,
		rule:        "scripts = per Query 0..4 statements, each a column set and a sequence over {row, wrong-arity row, unencodable row at column j, Complete(tag), Empty, Written, return error}; plus blank queries, parser errors, zero-statement parses. quick: exhaustive single-statement scripts up to 4 ops x 3 column sets + exhaustive 2-statement scripts up to 2+2 ops + random; thorough: exhaustive to 5 ops + random up to 12 ops x 4 statements. A case is non-trivial when it contains a failing row, a call after completion, an error return, >1 statement, or a parser-level outcome; distinct = distinct op-kind/column-count shape.",
		need:        []string{"query_cycles", "ops_checked", "rows_delivered", "failed_rows", "calls_after_completion", "error_returns"},
		assumptions: append([]string{"Empty() is only required to emit no bytes; whether it completes the writer is left open (both accepted, consistently)"}, commonAssumptions...)}})
}

const (
	oRow = iota
	oArity
	oBad
	oComplete
	oEmpty
	oWritten
	oErr
	nOps
)

var opNames = []string{"row", "arity", "badrow", "complete", "empty", "written", "err"}

type c05stmt struct {
	NCols  int
	Ops    []int
	Define bool // the columns are announced by the handler (DataWriter.Define), not declared with the statement
}
type c05script struct {
	Kind  string // stmts | blank | parseerr | nostmt
	Text  string
	Stmts []c05stmt
}

func (s c05script) shape() string {
	var sb strings.Builder
	sb.WriteString(s.Kind)
	for _, st := range s.Stmts {
		fmt.Fprintf(&sb, "|%d:", st.NCols)
		if st.Define {
			sb.WriteByte('+')
		}
		for _, o := range st.Ops {
			sb.WriteByte(byte('a' + o))
		}
	}
	return sb.String()
}

func (s c05script) nontrivial() bool {
	if s.Kind != "stmts" || len(s.Stmts) > 1 {
		return true
	}
	for _, st := range s.Stmts {
		done := false
		for _, o := range st.Ops {
			if o == oArity || o == oBad || o == oErr || done {
				return true
			}
			if o == oComplete {
				done = true
			}
		}
	}
	return false
}

type unencodable struct{ X int }

// build turns a script into a handler program; values are deterministic in (qid, stmt, op).
func (s c05script) build(qid int) *hs.Prog {
	switch s.Kind {
	case "parseerr":
		return &hs.Prog{Err: &hs.ErrSpec{Base: fmt.Sprintf("parse failure %d", qid), Wraps: []hs.Wrap{{K: 'c', S: "42601"}}}}
	case "nostmt":
		return &hs.Prog{}
	}
	p := &hs.Prog{}
	for si, st := range s.Stmts {
		h := &hs.Stmt{ID: fmt.Sprintf("q%d.s%d", qid, si)}
		if st.NCols > 0 {
			h.Cols = wire.Columns{}
			for j := 0; j < st.NCols; j++ {
				o := oid.T_text
				if j == 1 {
					o = oid.T_int4
				}
				h.Cols = append(h.Cols, wire.Column{Name: fmt.Sprintf("col%d_%d", si, j), Oid: o, Width: 4, Table: int32(si), AttrNo: int16(j + 1)})
			}
		}
		if st.Define && st.NCols > 0 {
			h.Define, h.Cols = h.Cols, nil
		}
		for oi, o := range st.Ops {
			op := hs.Op{K: opNames[o]}
			switch o {
			case oRow:
				for j := 0; j < st.NCols; j++ {
					if j == 1 {
						op.Vals = append(op.Vals, int32(qid*1000+si*100+oi))
					} else {
						op.Vals = append(op.Vals, fmt.Sprintf("v%d.%d.%d.%d", qid, si, oi, j))
					}
				}
			case oArity:
				for j := 0; j < st.NCols+1+oi%2; j++ {
					op.Vals = append(op.Vals, "x")
				}
				if oi%3 == 2 && st.NCols > 0 {
					op.Vals = op.Vals[:st.NCols-1]
				}
				if (qid+si+oi)%9 == 4 {
					// a surplus of exactly 65536 (or 131072) values: the number of values is what counts,
					// not its low 16 bits
					op.Vals = c05wide(st.NCols + 65536*(1+oi%2))
				}
			case oBad:
				for j := 0; j < st.NCols; j++ {
					if j == 1 {
						op.Vals = append(op.Vals, int32(7))
					} else {
						op.Vals = append(op.Vals, "ok")
					}
				}
				if st.NCols > 0 {
					op.Vals[oi%st.NCols] = unencodable{X: oi}
				} else {
					op.Vals = []any{unencodable{X: oi}}
				}
			case oComplete:
				op.Tag = fmt.Sprintf("TAG %d %d", si, oi)
				if (qid+oi)%5 == 0 {
					op.Tag = strings.Repeat("t", []int{63, 64, 65, 127, 128, 255, 256}[(qid+si+oi)%7])
				}
			case oErr:
				op.Err = &hs.ErrSpec{Base: fmt.Sprintf("stmt failure %d.%d", si, oi), Cause: xCause(fmt.Sprintf("c05 %d.%d.%d", qid, si, oi)), Wraps: []hs.Wrap{{K: 'c', S: "22000"}}}
				if (qid+si+oi)%11 == 0 {
					op.Err.Base = "" // the bare standard-library error
				}
				if (qid+si+oi)%13 == 5 {
					// the bare error, no decoration at all (a joined error among them): one failure, one ErrorResponse
					op.Err.Base, op.Err.Wraps, op.Err.Cause = "", nil, 1+(qid+si+oi)%(len(hs.Causes)-1)
				} else if sev := []string{"", "", "", "WARNING", "NOTICE", "LOG", "INFO", "DEBUG", "FATAL", "PANIC"}[(qid+2*si+3*oi)%10]; sev != "" {
					op.Err.Wraps = append(op.Err.Wraps, hs.Wrap{K: 's', S: sev}) // a failure is a failure whatever its severity
				}
			}
			h.Ops = append(h.Ops, op)
		}
		p.Stmts = append(p.Stmts, h)
	}
	return p
}

// enumeration of all op sequences up to length n (sequences end at the first err).
func enumSeqs(maxLen int) [][]int {
	var out [][]int
	var rec func(cur []int)
	rec = func(cur []int) {
		out = append(out, append([]int(nil), cur...))
		if len(cur) == maxLen || (len(cur) > 0 && cur[len(cur)-1] == oErr) {
			return
		}
		for o := 0; o < nOps; o++ {
			rec(append(cur, o))
		}
	}
	rec(nil)
	return out
}

func (c05) scripts(c *core.Ctx) []c05script {
	var all []c05script
	single, pair := 4, 2
	nrand := 40000
	maxOps, maxStmts := 8, 3
	if c.Tier == "thorough" {
		single, nrand, maxOps, maxStmts = 5, 3000000, 12, 4
	}
	seqs := enumSeqs(single)
	for nc := 0; nc <= 2; nc++ {
		for _, s := range seqs {
			all = append(all, c05script{Kind: "stmts", Stmts: []c05stmt{{NCols: nc, Ops: s}}})
		}
	}
	ps := enumSeqs(pair)
	for _, a := range ps {
		for _, b := range ps {
			all = append(all, c05script{Kind: "stmts", Stmts: []c05stmt{{NCols: 1, Ops: a}, {NCols: 2, Ops: b}}})
		}
	}
	nEnum := len(all)
	// parser-level outcomes
	for _, t := range []string{"", " ", "\t\n ", "   \r\n"} {
		all = append(all, c05script{Kind: "blank", Text: t})
	}
	all = append(all, c05script{Kind: "parseerr"}, c05script{Kind: "nostmt"})
	rng := core.NewRng(c.Seed, "C05gen", 0, 0)
	for i := 0; i < nrand; i++ {
		s := c05script{Kind: "stmts"}
		ns := 1 + rng.Intn(maxStmts)
		for j := 0; j < ns; j++ {
			st := c05stmt{NCols: rng.Intn(4), Define: rng.Intn(4) == 0}
			no := rng.Intn(maxOps + 1)
			for k := 0; k < no; k++ {
				o := rng.Intn(nOps)
				if o == oErr && rng.Intn(3) != 0 {
					o = oRow
				}
				st.Ops = append(st.Ops, o)
				if o == oErr {
					break
				}
			}
			s.Stmts = append(s.Stmts, st)
		}
		all = append(all, s)
	}
	_ = nEnum
	return all
}

func (ch c05) Run(c *core.Ctx) {
	all := ch.scripts(c)
	nb := ch.Batches(c.Tier)
	env := hs.Start(hs.Parse)
	defer env.Stop()
	if c.Batch == 0 {
		c.Count("exhaustive_parts", 1)
	}
	if c.Begin(90000000) {
		ch.nulTexts(c, env)
	}
	if c.Begin(90000001) {
		ch.endedSession(c)
	}
	// a Query whose statement reads COPY data receives a CopyData message above the message limit (alone, behind
	// accepted data, with CopyDone behind it): the statement fails, and the cycle of that Query is still one
	// ErrorResponse and one ReadyForQuery - then the next Query has its own
	if c.Begin(90000002) {
		for v := 0; v < 4 && c.NViol() < 10; v++ {
			plan := &hs.CopyPlan{Format: wire.TextFormat, MaxReads: -1, OnErr: "propagate"}
			sess := &hs.Sess{Progs: map[string]*hs.Prog{
				"copy": {Stmts: []*hs.Stmt{{ID: "copy", Cols: textCols(1), Ops: []hs.Op{{K: "copy", Copy: plan}}}}},
				"next": {Stmts: []*hs.Stmt{{ID: "next", Cols: textCols(1), Ops: []hs.Op{{K: "row", Vals: []any{"n"}}, {K: "complete", Tag: "SELECT 1"}}}}}}}
			cl := hs.NewClient(env.Dial(sess))
			if err := cl.StartupOK("u"); err != nil {
				break
			}
			in := pg.Query("copy")
			if v%2 == 1 {
				in = append(in, pg.CopyData([]byte("accepted line\n"))...)
			}
			in = append(in, pg.CopyData(bytes.Repeat([]byte("x"), 1<<16+10+v))...)
			if v >= 2 {
				in = append(in, pg.CopyDone()...)
			}
			out, closed := cl.Step(append(in, pg.Query("next")...))
			if hangCheck(c, cl, nil) {
				break
			}
			r := pg.Types(mustMsgs(out))
			c.Count("oversized_copydata_inside_a_simple_query", 1)
			c.Eval(fmt.Sprintf("oversized CopyData in a simple Query %d", v), true)
			if closed || strings.Count(r, "Z") != 2 || strings.Count(r, "E") != 1 || !strings.HasSuffix(r, "TDCZ") {
				c.Violate("transcript", "the cycle of a Query whose COPY statement met an oversized message is not one ErrorResponse and one ReadyForQuery", fmt.Sprintf("variant %d: reply %q closed=%v; want T G E Z, then T D C Z for the next Query", v, r, closed), nil)
				break
			}
			cl.Finish()
		}
	}
	var cl *hs.Client
	var sess *hs.Sess
	onConn := 0
	for idx := c.Batch; idx < len(all); idx += nb {
		if !c.Begin(idx) {
			continue
		}
		s := all[idx]
		if cl == nil || onConn >= 24 {
			if cl != nil {
				cl.Finish()
			}
			sess = &hs.Sess{Progs: map[string]*hs.Prog{}}
			cl = hs.NewClient(env.Dial(sess))
			if err := cl.StartupOK("u"); err != nil {
				c.Violate("startup", "plain startup failed", err.Error(), nil)
				return
			}
			onConn = 0
		}
		onConn++
		text := fmt.Sprintf("Q%d %s", idx, s.shape())
		if (idx/nb)%5 == 1 {
			// a query text is a NUL-terminated byte string; the library announces no check of its encoding
			text += core.Pick(core.NewRng(c.Seed, "C05text", 0, idx), []string{" caf\xe9", " \uFFFD", " \xff\xfe\x80", " \xc3", " 漢字 😀", " \x01\x1b[31m"})
			c.Count("query_texts_with_unusual_bytes", 1)
		}
		if (idx/nb)%11 == 3 {
			// the statements drivers and connection poolers send on their own account: to this library they
			// are query texts like any other - the application's parser decides what they do
			text = c05wellKnown[(idx/nb/11)%len(c05wellKnown)]
			c.Count("queries_that_drivers_send_on_their_own", 1)
		}
		if s.Kind == "blank" {
			text = s.Text
		} else {
			sess.Progs[text] = s.build(idx)
		}
		if k := (idx / nb) % 9; k == 2 || k == 6 {
			// the Query arrives inside an open extended-query sequence (Parse + Flush, no Sync yet), or
			// right after one was closed by Sync: a simple Query is a cycle of its own either way
			sess.Progs["pre-parse"] = &hs.Prog{Stmts: []*hs.Stmt{{ID: "pre", Ops: []hs.Op{{K: "complete", Tag: "OK"}}}}}
			pre, want := append(pg.Parse("pre", "pre-parse", nil), pg.Flush()...), "1"
			if k == 6 {
				pre, want = append(pre, pg.Sync()...), "1Z"
			}
			if o, _ := cl.Step(pre); pg.Types(mustMsgs(o)) != want {
				c.Violate("prefix", "Parse + Flush before the simple Query not answered as expected", fmt.Sprintf("got %q want %q", replyKinds(o), want), s)
				return
			}
			c.Count("queries_inside_open_extended_sequence", 1)
		}
		evStart := len(cl.C.Events())
		in, held := pg.Query(text), []byte(nil)
		if (idx/nb)%7 == 5 {
			// the Query arrives together with the first one to four bytes of the client's next message (a Sync),
			// whose rest the client holds back: the answer to the Query does not wait for it
			sy := pg.Sync()
			k := 1 + idx%4
			in, held = append(in, sy[:k]...), sy[k:]
			c.Count("queries_arriving_with_the_head_of_the_next_message", 1)
		}
		out, closed := cl.Step(in)
		if hangCheck(c, cl, s) {
			return
		}
		evs := cl.C.Events()[evStart:]
		ok := ch.judge(c, idx, s, text, out, closed, evs, cl.C.Out())
		if held != nil && ok && !closed {
			if o, _ := cl.Step(held); pg.Types(mustMsgs(o)) != "Z" {
				c.Violate("transcript", "the Sync whose head arrived with the previous Query is not answered by one ReadyForQuery", replyKinds(o), s)
				ok = false
			}
		}
		c.Eval(s.shape(), s.nontrivial())
		c.Count("query_cycles", 1)
		if idx < 3*nb {
			c.Sample(map[string]any{"query": text, "script": s, "reply": replyKinds(out)})
		}
		delete(sess.Progs, text)
		if !ok || closed {
			if !closed {
				cl.C.CloseWrite() // (whatever the server is still waiting for on this connection, it is not coming)
			}
			cl = nil
		}
		if c.NViol() >= 20 {
			return
		}
	}
	// four connections run scripts of this batch at the same time (the transport yields at every read and
	// write, so their statements overlap): every cycle is judged as when alone - what one connection's
	// statements wrote, completed or failed with stays with that connection
	if c.Begin(95000000) && c.NViol() < 10 {
		var wg sync.WaitGroup
		for g := 0; g < 4; g++ {
			wg.Add(1)
			go func(g int) {
				defer wg.Done()
				gs := &hs.Sess{Progs: map[string]*hs.Prog{}}
				conn := tr.NewConn(gs)
				conn.Yield = tr.YieldFn(uint64(c.Seed)*31 + uint64(c.Batch*8+g))
				env.L.DialConn(conn)
				gcl := hs.NewClient(conn)
				if err := gcl.StartupOK("u"); err != nil {
					return
				}
				n := 0
				for idx := c.Batch + nb*g; idx < len(all) && n < 60 && c.NViol() < 10; idx += nb * 4 {
					sc := all[idx]
					if sc.Kind == "blank" {
						continue
					}
					n++
					text := fmt.Sprintf("G%d.%d %s", g, idx, sc.shape())
					gs.Progs[text] = sc.build(idx)
					evStart := gcl.C.NEvents()
					out, closed := gcl.Step(pg.Query(text))
					if gcl.Hung {
						return
					}
					ok := ch.judge(c, idx, sc, text, out, closed, gcl.C.EventsFrom(evStart), gcl.C.Out())
					c.Count("query_cycles_next_to_other_connections", 1)
					delete(gs.Progs, text)
					if !ok || closed {
						return
					}
				}
				gcl.Finish()
			}(g)
		}
		wg.Wait()
		c.Eval("four connections at once", true)
	}
	if cl != nil {
		cl.Finish()
	}
	// a Query of three statements whose first statement shuts the server down (Close from another
	// goroutine, the statement waits until the listener refuses connections): a Query that has started is
	// answered in full
	if c.Batch == 3%nb && c.Begin(91000000) {
		e2 := hs.Start(hs.Parse)
		stmt := func(i int) *hs.Stmt {
			return &hs.Stmt{ID: fmt.Sprintf("s%d", i), Cols: textCols(1), Ops: []hs.Op{{K: "row", Vals: []any{fmt.Sprintf("v%d", i)}}, {K: "complete", Tag: fmt.Sprintf("SELECT %d", i)}}}
		}
		first := stmt(1)
		first.Ops = append([]hs.Op{{K: "call", Fn: func() {
			go e2.Srv.Close()
			for i := 0; i < 5000 && e2.L.Closes.Load() == 0; i++ {
				time.Sleep(time.Millisecond) // (until the server has closed its listener: Close is under way)
			}
		}}}, first.Ops...)
		cl := hs.NewClient(e2.Dial(&hs.Sess{Progs: map[string]*hs.Prog{"shutdown; two; three": {Stmts: []*hs.Stmt{first, stmt(2), stmt(3)}}}}))
		if err := cl.StartupOK("u"); err == nil {
			out, _ := cl.Step(pg.Query("shutdown; two; three"))
			c.Count("batches_that_close_the_server", 1)
			c.Eval("close inside batch", true)
			if got := pg.Types(mustMsgs(out)); got != "TDCTDCTDCZ" {
				c.Violate("cycle", "a three-statement Query during which the server was closed is not answered by the results of its statements in order and one ReadyForQuery", fmt.Sprintf("reply %q, want TDCTDCTDCZ", got), nil)
			}
		}
		cl.C.CloseWrite()
		cl.C.WaitClosed()
	}
	// a Query whose statement starts COPY-in and fails before it has read the stream: one ErrorResponse,
	// one ReadyForQuery - also when the client, as drivers do, still ends the copy afterwards; the next
	// Query gets its own answer
	if c.Batch == 2%nb && c.Begin(90000000) {
		cp := &hs.Prog{Stmts: []*hs.Stmt{{ID: "cp", Cols: textCols(1), Ops: []hs.Op{{K: "copy", Copy: &hs.CopyPlan{Format: wire.TextFormat, MaxReads: 0, OnStop: "own"}}}}}}
		next := &hs.Prog{Stmts: []*hs.Stmt{{ID: "next", Cols: textCols(1), Ops: []hs.Op{{K: "row", Vals: []any{"n"}}, {K: "complete", Tag: "SELECT 1"}}}}}
		for v, tail := range [][]byte{pg.CopyDone(), pg.CopyFail("client gives up"), append(pg.CopyData([]byte("1\n")), pg.CopyDone()...), nil} {
			cl := hs.NewClient(env.Dial(&hs.Sess{Progs: map[string]*hs.Prog{"cp": cp, "next": next}}))
			if err := cl.StartupOK("u"); err != nil {
				c.Violate("startup", "plain startup failed", err.Error(), nil)
				return
			}
			var got []string
			for _, in := range [][]byte{pg.Query("cp"), tail, pg.Query("next"), pg.Query("next")} {
				if in == nil {
					got = append(got, "")
					continue
				}
				out, _ := cl.Step(in)
				got = append(got, pg.Types(mustMsgs(out)))
			}
			c.Count("failed_copy_cycles_ended_by_the_client", 1)
			c.Eval(fmt.Sprintf("failed copy, client tail %d", v), true)
			if want := []string{"TGEZ", "", "TDCZ", "TDCZ"}; strings.Join(got, "|") != strings.Join(want, "|") {
				c.Violate("cycle", "a Query whose COPY-in failed is not answered by one error and one ReadyForQuery, or the next Query does not get its own answer", fmt.Sprintf("client tail variant %d: replies %q, want %q", v, got, want), map[string]any{"variant": v})
			}
			cl.Finish()
		}
	}
}

func replyKinds(out []byte) string {
	msgs, _, err := pg.ParseStream(out)
	if err != nil {
		return pg.Kinds(msgs) + " !" + err.Error()
	}
	return pg.Kinds(msgs)
}

// judge replays the script through the reference model and compares transcript,
// per-operation byte attribution, return classes and Written().
func (ch c05) judge(c *core.Ctx, idx int, s c05script, text string, out []byte, closed bool, evs []trEvent, full []byte) bool {
	viol := func(rule, sig, detail string) bool {
		c.Violate(rule, sig, fmt.Sprintf("query %q script %s: %s; reply: %s", text, s.shape(), detail, replyKinds(out)), s)
		return false
	}
	if closed {
		return viol("closed", "connection closed during simple query cycle", "server closed the connection")
	}
	msgs, err := parseAll(out)
	if err != nil {
		return viol("grammar", "reply not well-formed", err.Error())
	}
	// callbacks
	var parses, execs int
	var ops []hs.OpRes
	for _, e := range evs {
		if e.Kind != "cb" {
			continue
		}
		switch e.Name {
		case "parse":
			parses++
		case "exec":
			execs++
		case "op":
			ops = append(ops, e.Data.(hs.OpRes))
		case "define":
			return viol("define", "DataWriter.Define failed or Columns() disagrees", fmt.Sprint(e.Data))
		}
	}
	// expected transcript
	var exp []expMsg
	switch s.Kind {
	case "blank":
		if parses != 0 {
			return viol("blank-parser", "blank query consulted the parser", "parser invoked for a blank query")
		}
		exp = []expMsg{{T: 'I'}}
	case "parseerr":
		exp = []expMsg{{T: 'E', Code: "42601", Msg: fmt.Sprintf("parse failure %d", idx)}}
	case "nostmt":
		exp = []expMsg{{T: 'E'}}
	default:
		prog := s.build(idx)
		opi := 0
		expExec := 0
	stmts:
		for si, st := range s.Stmts {
			expExec++
			h := prog.Stmts[si]
			if st.NCols > 0 {
				m := expMsg{T: 'T', NCols: st.NCols}
				for _, col := range append(append(wire.Columns{}, h.Cols...), h.Define...) {
					m.Names = append(m.Names, col.Name)
				}
				if h.Define != nil {
					c.Count("handler_defined_columns", 1)
				}
				exp = append(exp, m)
			}
			written := uint64(0)
			closedSet := map[bool]bool{false: true} // possible values of "writer completed"
			for oi, o := range st.Ops {
				if opi >= len(ops) {
					return viol("trace", "operation missing from trace", fmt.Sprintf("stmt %d op %d never ran", si, oi))
				}
				r := ops[opi]
				opi++
				if r.Stmt != h.ID || r.Idx != oi {
					return viol("trace", "operations out of order", fmt.Sprintf("expected %s#%d got %s#%d", h.ID, oi, r.Stmt, r.Idx))
				}
				c.Count("ops_checked", 1)
				emitted := full[r.W0:r.W1]
				mayClosed, mayOpen := closedSet[true], closedSet[false]
				if mayClosed && o != oWritten && o != oErr {
					c.Count("calls_after_completion", 1)
				}
				sig := fmt.Sprintf("op=%s closed=%v", opNames[o], mayClosed && !mayOpen)
				switch o {
				case oRow:
					okOpen := r.ErrNil && len(emitted) > 0
					okClosed := !r.ErrNil && len(emitted) == 0
					if okOpen && mayOpen {
						closedSet = map[bool]bool{false: true}
						m, n, perr := pg.ParseOne(emitted)
						if perr != nil || n != len(emitted) || m.T != 'D' {
							return viol("row-bytes", sig, fmt.Sprintf("a successful Row must emit exactly one DataRow, emitted %s", hexs(emitted)))
						}
						em := expMsg{T: 'D'}
						for j := 0; j < st.NCols; j++ {
							if j == 1 {
								em.Vals = append(em.Vals, []byte(fmt.Sprint(h.Ops[oi].Vals[j])))
							} else {
								em.Vals = append(em.Vals, []byte(h.Ops[oi].Vals[j].(string)))
							}
						}
						exp = append(exp, em)
						written++
						c.Count("rows_delivered", 1)
					} else if okClosed && mayClosed {
						closedSet = map[bool]bool{true: true}
					} else {
						return viol("row", sig, fmt.Sprintf("Row: err=%q emitted=%d bytes (writer completed: possible=%v)", r.Err, len(emitted), closedSet))
					}
				case oArity, oBad:
					if r.ErrNil || len(emitted) != 0 {
						return viol("failed-row-emits", sig, fmt.Sprintf("a %s row must fail and emit nothing: errNil=%v emitted=%s", opNames[o], r.ErrNil, hexs(emitted)))
					}
					c.Count("failed_rows", 1)
				case oComplete:
					okOpen := r.ErrNil && len(emitted) > 0
					okClosed := !r.ErrNil && len(emitted) == 0
					if okOpen && mayOpen {
						m, n, perr := pg.ParseOne(emitted)
						if perr != nil || n != len(emitted) || m.T != 'C' {
							return viol("complete-bytes", sig, fmt.Sprintf("Complete must emit exactly one CommandComplete, emitted %s", hexs(emitted)))
						}
						exp = append(exp, expMsg{T: 'C', Tag: h.Ops[oi].Tag})
						closedSet = map[bool]bool{true: true}
					} else if okClosed && mayClosed {
						closedSet = map[bool]bool{true: true}
					} else {
						return viol("complete", sig, fmt.Sprintf("Complete: err=%q emitted=%d bytes (writer completed: possible=%v)", r.Err, len(emitted), closedSet))
					}
				case oEmpty:
					if len(emitted) != 0 {
						return viol("empty-emits", sig, "Empty() emitted bytes")
					}
					if mayClosed && !mayOpen && r.ErrNil {
						return viol("after-completion", sig, "Empty() succeeded after completion")
					}
					if r.ErrNil {
						// may or may not complete the writer (left open by the property)
						closedSet = map[bool]bool{true: true, false: true}
					}
				case oWritten:
					// checked below for every op
				case oErr:
					exp = append(exp, expMsg{T: 'E', Code: h.Ops[oi].Err.Expect()['C'], Msg: h.Ops[oi].Err.BaseText()})
					c.Count("error_returns", 1)
					if r.Written != written {
						return viol("written", "Written() differs from rows delivered", fmt.Sprintf("Written()=%d, rows delivered=%d", r.Written, written))
					}
					break stmts
				}
				if r.Written != written {
					return viol("written", "Written() differs from rows delivered", fmt.Sprintf("after %s#%d %s: Written()=%d, rows delivered=%d", h.ID, oi, opNames[o], r.Written, written))
				}
			}
		}
		if opi != len(ops) {
			return viol("trace", "extra operations ran", fmt.Sprintf("%d operations ran, model expects %d (statements after an error must not run)", len(ops), opi))
		}
		if parses != 1 {
			return viol("trace", "parser invocation count", fmt.Sprintf("parser invoked %d times", parses))
		}
		if execs != expExec {
			return viol("stmt-after-error", "statement count", fmt.Sprintf("%d statements executed, expected %d", execs, expExec))
		}
	}
	exp = append(exp, expMsg{T: 'Z'})
	// compare
	if len(msgs) != len(exp) {
		return viol("transcript", transcriptSig(msgs, exp), fmt.Sprintf("expected %s", expKinds(exp)))
	}
	for i, e := range exp {
		m := msgs[i]
		if m.T != e.T {
			return viol("transcript", transcriptSig(msgs, exp), fmt.Sprintf("expected %s", expKinds(exp)))
		}
		switch e.T {
		case 'C':
			if m.Tag != e.Tag {
				return viol("tag", "CommandComplete tag differs", fmt.Sprintf("got %q want %q", m.Tag, e.Tag))
			}
		case 'T':
			if len(m.Cols) != e.NCols {
				return viol("rowdesc", "RowDescription column count", fmt.Sprintf("got %d want %d", len(m.Cols), e.NCols))
			}
			for j, cd := range m.Cols {
				if cd.Name != e.Names[j] || cd.Format != 0 {
					return viol("rowdesc", "RowDescription column", fmt.Sprintf("column %d: %+v", j, cd))
				}
			}
		case 'D':
			if len(m.Fields) != len(e.Vals) {
				return viol("datarow", "DataRow field count", fmt.Sprintf("got %d want %d", len(m.Fields), len(e.Vals)))
			}
			for j := range e.Vals {
				if string(m.Fields[j]) != string(e.Vals[j]) || m.Fields[j] == nil {
					return viol("datarow", "DataRow field value", fmt.Sprintf("field %d got %q want %q", j, m.Fields[j], e.Vals[j]))
				}
			}
		case 'E':
			if e.Code != "" && (m.Err['C'] != e.Code || m.Err['M'] != e.Msg) {
				return viol("error", "ErrorResponse content", fmt.Sprintf("got C=%q M=%q want C=%q M=%q", m.Err['C'], m.Err['M'], e.Code, e.Msg))
			}
		case 'Z':
			if m.Status != 'I' {
				return viol("ready", "ReadyForQuery status", fmt.Sprintf("status %q", m.Status))
			}
		}
	}
	return true
}

func expKinds(exp []expMsg) string {
	b := make([]byte, len(exp))
	for i, e := range exp {
		b[i] = e.T
	}
	return string(b)
}

// transcriptSig normalises a transcript mismatch: runs of D collapse.
func transcriptSig(msgs []pg.BMsg, exp []expMsg) string {
	return "got " + collapse(pg.Types(msgs)) + " want " + collapse(expKinds(exp))
}

func collapse(s string) string {
	var sb strings.Builder
	for i := 0; i < len(s); i++ {
		if i > 0 && s[i] == s[i-1] && (s[i] == 'D' || s[i] == 'S') {
			continue
		}
		sb.WriteByte(s[i])
	}
	return sb.String()
}

var c05wideRows = map[int][]any{}

// c05wide returns a (shared, read-only) row of n text values.
func c05wide(n int) []any {
	if r, ok := c05wideRows[n]; ok {
		return r
	}
	r := make([]any, n)
	for i := range r {
		r[i] = "x"
	}
	c05wideRows[n] = r
	return r
}

var c05wellKnown = []string{"DISCARD ALL", "discard all;", "RESET ALL", "DEALLOCATE ALL", "BEGIN", "COMMIT", "ROLLBACK", "SELECT 1", "select version()", "SET client_encoding TO 'UTF8'", "SET extra_float_digits = 3",
	"SHOW transaction_read_only", "SHOW server_version", "UNLISTEN *", "CLOSE ALL", "SELECT pg_backend_pid()", "SET application_name = 'x'", "START TRANSACTION ISOLATION LEVEL SERIALIZABLE", "-- ping", "/* ping */ SELECT 1"}

// nulTexts: a handler that hands the library strings with a NUL byte in them (an error text echoing raw
// bytes, a command tag built from them) is outside what a C-string can carry, and what the fields of such
// a message then contain is not judged. The cycle is: the statement's messages, then exactly one
// ReadyForQuery, and the connection serves its next query.
func (ch c05) nulTexts(c *core.Ctx, env *hs.Env) {
	frames := func(out []byte) string {
		var b []byte
		for off := 0; off+5 <= len(out); {
			l := int(binary.BigEndian.Uint32(out[off+1:]))
			if l < 4 || off+1+l > len(out) {
				return string(b) + "?"
			}
			b = append(b, out[off])
			off += 1 + l
		}
		return string(b)
	}
	row := hs.Op{K: "row", Vals: []any{"v"}}
	cases := []struct {
		name string
		ops  []hs.Op
		want string
	}{
		{"error text", []hs.Op{row, {K: "err", Err: &hs.ErrSpec{Base: "bad input \x00 at offset 3", Wraps: []hs.Wrap{{K: 'c', S: "22021"}}}}}, "TDEZ"},
		{"error text, twice", []hs.Op{{K: "err", Err: &hs.ErrSpec{Base: "a\x00\x00b"}}}, "TEZ"},
		{"hint", []hs.Op{row, {K: "err", Err: &hs.ErrSpec{Base: "bad input", Wraps: []hs.Wrap{{K: 'h', S: "remove the \x00 byte"}, {K: 'c', S: "22021"}}}}}, "TDEZ"},
		{"detail", []hs.Op{{K: "err", Err: &hs.ErrSpec{Base: "bad input", Wraps: []hs.Wrap{{K: 'd', S: "\x00"}}}}}, "TEZ"},
		{"command tag", []hs.Op{row, {K: "complete", Tag: "SELECT 1\x00junk"}}, "TDCZ"},
	}
	for i, k := range cases {
		sess := &hs.Sess{Progs: map[string]*hs.Prog{
			"q":    {Stmts: []*hs.Stmt{{ID: "s", Cols: textCols(1), Ops: k.ops}}},
			"next": {Stmts: []*hs.Stmt{{ID: "n", Cols: textCols(1), Ops: []hs.Op{row, {K: "complete", Tag: "SELECT 1"}}}}}}}
		cl := hs.NewClient(env.Dial(sess))
		if err := cl.StartupOK("u"); err != nil {
			c.Violate("startup", "plain startup failed", err.Error(), nil)
			return
		}
		out, closed := cl.Step(pg.Query("q"))
		got := frames(out)
		c.Count("handler_strings_with_a_nul_byte", 1)
		if closed || got != k.want {
			c.Violate("transcript", "cycle of a statement whose "+k.name+" carries a NUL byte", fmt.Sprintf("message types %q closed=%v, want %q and an open connection", got, closed, k.want), map[string]any{"workload": "NUL in handler strings", "case": k.name})
		} else if o, _ := cl.Step(pg.Query("next")); frames(o) != "TDCZ" {
			c.Violate("transcript", "query after a statement whose "+k.name+" carried a NUL byte", fmt.Sprintf("message types %q want TDCZ", frames(o)), map[string]any{"workload": "NUL in handler strings", "case": k.name})
		}
		cl.Finish()
		c.Eval(fmt.Sprintf("nul %d", i), true)
	}
}

// endedSession: the embedding program ends the context it gave the session (session middleware) - before a
// Query arrives, or from inside the first or second statement of a three-statement Query. Whatever the
// server makes of the statements after that (runs them, refuses them), the cycle keeps its shape: results
// or one ErrorResponse, then exactly one ReadyForQuery as the last message, the connection stays, and the
// next Query gets its cycle too.
func (ch c05) endedSession(c *core.Ctx) {
	env := hs.Start(hs.Parse, hs.EndableSessions())
	defer env.Stop()
	for v := 0; v < 8; v++ {
		sess := &hs.Sess{Progs: map[string]*hs.Prog{}}
		cl := hs.NewClient(env.Dial(sess))
		if err := cl.StartupOK("u"); err != nil || sess.EndSession == nil {
			c.Inconclusive("C05 ended-session part: start-up failed or the session middleware did not run")
			return
		}
		stmt := func(id string, cols int, end bool) *hs.Stmt {
			st := &hs.Stmt{ID: id}
			if cols > 0 {
				st.Cols = textCols(cols)
				vals := make([]any, cols)
				for i := range vals {
					vals[i] = id
				}
				st.Ops = append(st.Ops, hs.Op{K: "row", Vals: vals})
			}
			if end {
				st.Ops = append(st.Ops, hs.Op{K: "call", Fn: sess.EndSession})
			}
			st.Ops = append(st.Ops, hs.Op{K: "complete", Tag: "SELECT 1"})
			return st
		}
		what := ""
		switch v % 4 {
		case 0:
			what = "the context ends before a Query of one statement with a column arrives"
			sess.Progs["q"] = &hs.Prog{Stmts: []*hs.Stmt{stmt("a", 1, false)}}
			sess.EndSession()
		case 1:
			what = "the first of three statements ends the context"
			sess.Progs["q"] = &hs.Prog{Stmts: []*hs.Stmt{stmt("a", 1, true), stmt("b", 2, false), stmt("c", 1, false)}}
		case 2:
			what = "the second of three statements ends the context"
			sess.Progs["q"] = &hs.Prog{Stmts: []*hs.Stmt{stmt("a", 0, false), stmt("b", 1, true), stmt("c", 3, false)}}
		case 3:
			what = "the context ends before a Query of three statements arrives"
			sess.Progs["q"] = &hs.Prog{Stmts: []*hs.Stmt{stmt("a", 0, false), stmt("b", 1, false), stmt("c", 0, false)}}
			sess.EndSession()
		}
		sess.Progs["next"] = &hs.Prog{Stmts: []*hs.Stmt{stmt("n", 1, false)}}
		cs := map[string]any{"ended_session_variant": v, "what": what}
		for step, q := range []string{"q", "next"} {
			var out []byte
			var closed bool
			if v >= 4 && step == 0 {
				out, closed = cl.Step(append(pg.Query(q), pg.Query("next")...)) // both Queries in one segment
			} else if v >= 4 {
				break
			} else {
				out, closed = cl.Step(pg.Query(q))
			}
			if hangCheck(c, cl, cs) {
				return
			}
			msgs, err := parseAll(out)
			r := pg.Types(msgs)
			c.Count("query_cycles_after_the_session_context_ended", 1)
			wantZ := 1
			if v >= 4 {
				wantZ = 2
			}
			ok := err == nil && !closed && strings.Count(r, "Z") == wantZ && strings.HasSuffix(r, "Z")
			for _, cyc := range strings.SplitAfter(r, "Z") {
				if strings.Count(cyc, "E") > 1 || (strings.Contains(cyc, "E") && !strings.HasSuffix(cyc, "EZ")) {
					ok = false
				}
			}
			if !ok {
				c.Violate("ended-session", "simple Query cycle loses its shape once the session's context has ended ("+what+")", fmt.Sprintf("query %q: reply %q, connection closed=%v, %v; want results or one ErrorResponse, then one ReadyForQuery, per Query", q, r, closed, err), cs)
				return
			}
		}
		c.Eval(fmt.Sprintf("ended session %d", v), true)
		cl.Finish()
	}
}
