package checks

import (
	"bytes"
	"context"
	"errors"
	"fmt"

	wire "github.com/jeroenrinzema/psql-wire"
	"github.com/lib/pq/oid"

	"verifharness/core"
	"verifharness/hs"
	"verifharness/pg"
)

// C18 - Data handed to callbacks is never overwritten by later traffic.

type c18 struct{ base }

func init() {
	core.Register(c18{base{id: "C18", level: "exploration", quickB: 16, thoroughB: 32,
		rule:        "callbacks retain the library's own strings and slices without copying (query texts, parameter values, client parameter keys/values, password) next to what the harness knows it sent; every retained item is re-compared at every later callback, at connection end, and again after each of the next six connections (other limits, other traffic) was served; old portals are executed late so parameters held by the library's portal cache are re-read; the parameter list itself is retained too, portals are closed later and a quarter of the statements fail after retaining. Passwords of 1-26 bytes and query texts of 1-7 bytes besides the long ones. Histories of 5-200 later messages with sizes around the 4 KiB allocation granule (1, 100, 4000-4200, 8191-8193), around L (L-1, L, oversized L+1..3L skipped), COPY streams of many chunks, Parse messages with unread parameter-OID tails, for L in {4096, 8192, 65536}; built with checkptr (unsafe string views). Non-trivial = at least 3 retained items survive at least 5 later messages including a granule-crossing or oversized one; distinct = (L, message-kind/size-class sequence).",
		need:        []string{"retained_items", "recomparisons", "late_portal_executions", "oversized_skipped", "copy_chunks", "granule_crossings", "recomparisons_after_connection_end"},
		assumptions: append([]string{"the harness's own copies are taken from what it sent, not from the callback arguments"}, commonAssumptions...)}})
}

type c18item struct {
	What string
	S    *string          // retained library string (no copy)
	B    []byte           // retained library slice (no copy)
	P    []wire.Parameter // retained parameter list as handed to the statement function (no copy); PI = element
	PI   int
	Want []byte
}

type c18conn struct {
	items    []c18item
	sentQ    map[string]bool // query texts the harness sent
	bad      string
	rechecks int
	binds    map[string][][]byte // bind tag (first param) -> params sent
	lateExec int
	pw       string // the password this connection logs in with (lengths 1..26)
	// the client parameter map as the validator was handed it (kept, not copied) and the pairs the client sent
	cpMap  wire.Parameters
	cpSent [][2]string
}

func (st *c18conn) recheck(when string) {
	for i := range st.items {
		it := &st.items[i]
		st.rechecks++
		var got []byte
		if it.S != nil {
			got = []byte(*it.S)
		} else if it.P != nil {
			got = it.P[it.PI].Value()
		} else {
			got = it.B
		}
		if !bytes.Equal(got, it.Want) && st.bad == "" {
			st.bad = fmt.Sprintf("%s retained item %d changed (%s): now %s, was %s", it.What, i, when, hexs(got), hexs(it.Want))
		}
	}
	if st.cpMap != nil && st.bad == "" {
		st.rechecks++
		for _, kv := range st.cpSent {
			if got, ok := st.cpMap[wire.ParameterStatus(kv[0])]; !ok || got != kv[1] {
				st.bad = fmt.Sprintf("client parameter %s in the map the validator kept changed (%s): now %q (present=%v), the client sent %q", kv[0], when, got, ok, kv[1])
			}
		}
		if len(st.cpMap) != len(st.cpSent) && st.bad == "" {
			st.bad = fmt.Sprintf("the client parameter map the validator kept has %d entries (%s), the client sent %d: %v", len(st.cpMap), when, len(st.cpSent), st.cpMap)
		}
	}
}

func (st *c18conn) keepS(what string, s *string, want string) {
	st.items = append(st.items, c18item{What: what, S: s, Want: []byte(want)})
}

func c18validator(ctx context.Context, database, username, password string) (context.Context, bool, error) {
	st := hs.ConnOf(ctx).User.(*c18conn)
	pw, db, us := password, database, username
	st.keepS("password", &pw, st.pw)
	st.keepS("database", &db, "retention-db")
	st.keepS("username", &us, "retention-user")
	st.cpMap = wire.ClientParameters(ctx)
	return ctx, true, nil
}

func c18parse(ctx context.Context, query string) (wire.PreparedStatements, error) {
	st := hs.ConnOf(ctx).User.(*c18conn)
	st.recheck("at a later parser callback")
	if len(st.items) < 400 {
		q := query
		if !st.sentQ[query] && st.bad == "" {
			st.bad = fmt.Sprintf("parser received a query text the client never sent: %s", hexs([]byte(query)))
		}
		// the harness's copy is its own record of what was sent (looked up, not copied from the argument)
		for k := range st.sentQ {
			if k == query {
				st.keepS("query text", &q, k)
				break
			}
		}
		if len(st.items) == 3+1 { // first query: also retain the client parameter map entries
			for k, v := range wire.ClientParameters(ctx) {
				kk, vv := string(k), v
				switch kk {
				case "user":
					st.keepS("client parameter value", &vv, "retention-user")
				case "database":
					st.keepS("client parameter value", &vv, "retention-db")
				case "application_name":
					st.keepS("client parameter value", &vv, "retention-app-name-xyz")
				}
				st.keepS("client parameter key", &kk, kk)
			}
		}
	}
	if query != "" && query[0] == 'r' {
		return nil, errors.New("c18: the parser rejects this statement (after keeping its text)")
	}
	cols := wire.Columns{{Name: "c", Oid: oid.T_text, Width: -1}}
	fn := func(ctx context.Context, w wire.DataWriter, params []wire.Parameter) error {
		st.recheck("at a later statement callback")
		if len(params) > 0 {
			// the Bind is identified by the statement's own query text (every Parse/Bind pair of the
			// history uses a fresh text), never by the parameter bytes under test
			tag := query
			want, ok := st.binds[tag]
			if !ok && st.bad == "" {
				st.bad = fmt.Sprintf("statement %q received parameters although no Bind was sent for it: first value %s", trim(query, 40), hexs(params[0].Value()))
			}
			if ok && len(params) != len(want) && st.bad == "" {
				st.bad = fmt.Sprintf("portal of statement %q executes with %d parameters, its Bind sent %d", trim(query, 40), len(params), len(want))
			}
			if ok {
				st.lateExec++
				for i, p := range params {
					if i < len(want) && !bytes.Equal(p.Value(), want[i]) && st.bad == "" {
						st.bad = fmt.Sprintf("parameter %d of Bind %q changed while held by the portal cache: now %s, sent %s", i, tag, hexs(p.Value()), hexs(want[i]))
					}
					if i < len(want) && len(st.items) < 400 {
						st.items = append(st.items, c18item{What: "parameter value", B: p.Value(), Want: want[i]})
						if i < 2 {
							st.items = append(st.items, c18item{What: "element of the retained parameter list", P: params, PI: i, Want: want[i]})
						}
					}
				}
			}
		}
		// the handler decodes its parameters through the library (after retaining them): reading a value
		// may not change it nor anything received next to it
		for _, p := range params {
			for _, o := range []uint32{uint32(oid.T_timestamptz), uint32(oid.T_timestamp), uint32(oid.T_date), uint32(oid.T_int4), uint32(oid.T_text), uint32(oid.T__text)} {
				p.Scan(o)
			}
		}
		st.recheck("after the parameters were decoded through Parameter.Scan")
		if query[0] == 'x' {
			return errors.New("c18: statement fails after retaining its parameters")
		}
		if len(query) > 4 && query[:4] == "copy" {
			cr, err := w.CopyIn(wire.TextFormat)
			if err != nil {
				return err
			}
			for {
				if err := cr.Read(); err != nil {
					break
				}
				st.recheck("after a COPY chunk")
			}
			return w.Complete("COPY")
		}
		w.Row([]any{"r"})
		return w.Complete("SELECT 1")
	}
	return wire.Prepared(wire.NewStatement(fn, wire.WithColumns(cols))), nil
}

// c18old keeps the retention lists of finished connections: "for as long as the holder retains
// them" does not end with the connection that delivered the data.
var c18old []*c18conn

func (ch c18) Run(c *core.Ctx) {
	n := 190
	if c.Tier == "thorough" {
		n = 6500
	}
	envs := map[int]*hs.Env{}
	for _, L := range []int{4096, 8192, 65536} {
		envs[L] = hs.Start(c18parse, wire.MessageBufferSize(L), wire.SessionAuthStrategy(wire.ClearTextPassword(c18validator)))
	}
	defer func() {
		for _, e := range envs {
			e.Stop()
		}
	}()
	for i := 0; i < n; i++ {
		if !c.Begin(i) || c.NViol() >= 10 {
			continue
		}
		rng := core.NewRng(c.Seed, "C18", c.Batch, i)
		L := core.Pick(rng, []int{4096, 8192, 65536})
		ch.runCase(c, envs[L], L, rng, i)
		// re-compare what earlier, finished connections handed out
		for k, old := range c18old {
			before := old.bad
			old.recheck("after its connection ended and later connections were served")
			c.Count("recomparisons_after_connection_end", int64(len(old.items)))
			if old.bad != "" && before == "" {
				c.Violate("overwritten", "retained data changed after its connection ended: "+trim(old.bad, 40), old.bad, map[string]any{"connections_later": len(c18old) - k})
			}
		}
		if len(c18old) > 6 {
			c18old = c18old[len(c18old)-6:]
		}
	}
}

func (ch c18) runCase(c *core.Ctx, env *hs.Env, L int, rng *core.Rng, idx int) {
	st := &c18conn{sentQ: map[string]bool{}, binds: map[string][][]byte{}, pw: core.Pick(rng, []string{"secret-password-0123456789", "s3cr3t", "pw", "x", "1234567"})}
	cs := map[string]any{"L": L, "index": idx}
	cl := hs.NewClient(env.Dial(st))
	st.cpSent = [][2]string{{"user", "retention-user"}, {"database", "retention-db"}, {"application_name", "retention-app-name-xyz"}}
	if idx%3 != 0 {
		// what drivers announce besides: an encoding (not always the server's), a date style, a time zone
		st.cpSent = append(st.cpSent, [2]string{"client_encoding", core.Pick(rng, []string{"LATIN1", "SQL_ASCII", "utf8", "UTF8", "WIN1252", "'UTF-8'"})},
			[2]string{"DateStyle", "ISO, MDY"}, [2]string{"TimeZone", core.Pick(rng, []string{"Europe/Amsterdam", "UTC", "PST8PDT"})}, [2]string{"extra_float_digits", "2"})
		c.Count("startups_announcing_encoding_datestyle_timezone", 1)
	}
	cl.C.Send(pg.Startup(st.cpSent))
	cl.C.Quiesce()
	// one password message in eight lacks its terminating NUL: a server may refuse it (the pinned tree does, and
	// nothing is judged then) - one that hands the password to the validator all the same has handed out a
	// string like any other
	unterminated := idx%8 == 5
	if unterminated {
		cl.C.Send(pg.Raw('p', []byte(st.pw)))
	} else {
		cl.C.Send(pg.Password(st.pw))
	}
	if _, ok := cl.C.Quiesce(); !ok {
		cl.Hung = true
		hangCheck(c, cl, cs)
		return
	}
	if k := replyKinds(cl.C.Out()); unterminated && (len(k) < 2 || k[len(k)-2:] != "ZI") {
		c.Count("unterminated_password_messages_refused", 1)
		cl.C.CloseWrite()
		cl.C.WaitClosed()
		return
	}
	if k := replyKinds(cl.C.Out()); len(k) < 2 || k[len(k)-2:] != "ZI" {
		c.Violate("startup", "startup failed", k, cs)
		return
	}
	cl.Wait()
	// a neighbour: connects right after, retains what it is handed, stays open and silent while the
	// connection under test receives its history; its retained data is compared again at the end
	var nb *c18conn
	var nbc *hs.Client
	if rng.Intn(3) == 0 {
		nb = &c18conn{sentQ: map[string]bool{"neighbour query": true}, binds: map[string][][]byte{}, pw: "neighbour-password"}
		nbc = hs.NewClient(env.Dial(nb))
		nb.cpSent = [][2]string{{"user", "retention-user"}, {"database", "retention-db"}, {"application_name", "retention-app-name-xyz"}, {"client_encoding", "LATIN9"}}
		nbc.C.Send(pg.Startup(nb.cpSent))
		nbc.C.Quiesce()
		nbc.C.Send(pg.Password(nb.pw))
		nbc.C.Quiesce()
		nbc.Step(pg.Query("neighbour query"))
		c.Count("neighbour_connections", 1)
		defer func() {
			nb.recheck("on a neighbour connection, after the connection under test received its history")
			if nb.bad != "" {
				c.Violate("overwritten", "retained data of a neighbour connection changed: "+trim(nb.bad, 40), nb.bad, cs)
			}
			nbc.Finish()
		}()
	}
	sizeFor := func() int {
		switch rng.Intn(8) {
		case 0:
			return 1 + rng.Intn(3)
		case 1:
			return 100
		case 2:
			return 4000 + rng.Intn(201)
		case 3:
			return 8191 + rng.Intn(3)
		case 4:
			return L - 1 - rng.Intn(2)
		case 5:
			return L - 40
		}
		return 10 + rng.Intn(300)
	}
	text := func(tag string, n int) string {
		b := bytes.Repeat([]byte{byte('a' + rng.Intn(26))}, n)
		copy(b, tag)
		if rng.Intn(3) == 0 && n > len(tag)+12 {
			// line breaks, tabs and non-ASCII text right behind the tag (within the first bytes of the message)
			copy(b[len(tag):], core.Pick(rng, []string{"\n\tSEL", "\r\n", " na\xc3\xafve ", "\x01\x1b[0m", "\t\t",
				// ... and bytes that are no UTF-8 at all (a query text is a byte string)
				" caf\xe9 ", "\xff\xfe", " \xc3", "\x80\x80\x80", " \xed\xa0\x80 "}))
		}
		return string(b)
	}
	nmsg := 5 + rng.Intn(60)
	if rng.Intn(6) == 0 {
		nmsg = 100 + rng.Intn(100)
	}
	shape := fmt.Sprintf("L=%d ", L)
	portals := []string{}
	crossing := 0
	for m := 0; m < nmsg && st.bad == ""; m++ {
		var in []byte
		switch k := rng.Intn(100); {
		case k < 35: // simple query of a chosen size
			n := sizeFor()
			if n > L-1 {
				n = L - 1
			}
			q := text(fmt.Sprintf("q%d.%d:", idx, m), max(n, 12))
			if len(q) > L-1 {
				q = q[:L-1]
			}
			if rng.Intn(4) == 0 {
				// a text of a few bytes: the whole message body is smaller than a machine word or two
				// (among them the statements connection poolers and drivers send on their own: a server may
				// answer those itself, but what it has handed out before stays what it was)
				q = core.Pick(rng, []string{"BEGIN", "END", "COMMIT", "x", "go", "SELECT1", "ROLLBAC", "DISCARD ALL", "discard all;", "RESET ALL", "DEALLOCATE ALL", "ROLLBACK", "SELECT 1", ";", "UNLISTEN *", "CLOSE ALL", "SET client_encoding TO 'UTF8'", "SHOW transaction_read_only"})
				c.Count("tiny_query_texts", 1)
			}
			st.sentQ[q] = true
			in = pg.Query(q)
			shape += fmt.Sprintf("Q%d ", len(q)/1000)
			if len(q) > 3900 {
				crossing++
			}
		case k < 55: // Parse (with unread OID tail) + Bind with retained parameters
			q := text(fmt.Sprintf("p%d.%d:", idx, m), 12+rng.Intn(200))
			if rng.Intn(4) == 0 {
				q = "x" + q[1:] // a statement that fails when executed (after retaining its parameters)
			}
			st.sentQ[q] = true
			var oids []uint32
			for j := rng.Intn(5); j > 0; j-- {
				oids = append(oids, uint32(rng.Intn(5000)))
			}
			if rng.Intn(6) == 0 {
				// a statement the parser rejects - after it has kept the text (for its log, its error report);
				// the rest of the batch is discarded, the connection goes on
				delete(st.sentQ, q)
				q = "r" + q[1:]
				st.sentQ[q] = true
				in = append(append(pg.Parse(fmt.Sprintf("s%d", m), q, oids), pg.Bind("", fmt.Sprintf("s%d", m), nil, [][]byte{[]byte("never bound")}, nil)...), pg.Sync()...)
				c.Count("statements_rejected_by_the_parser_after_it_kept_their_text", 1)
				shape += "Pr "
				break
			}
			tag := q
			params := [][]byte{[]byte(fmt.Sprintf("bind-%d-%d", idx, m))}
			budget := L - 200
			for j := rng.Intn(4); j > 0; j-- {
				sz := sizeFor()
				if sz > budget/2 {
					sz = budget / 2
				}
				budget -= sz
				if rng.Intn(4) == 0 {
					// values a decoder may want to complete or normalise (abbreviated dates, padded numbers, arrays)
					params = append(params, []byte(core.Pick(rng, []string{"2024-01-31", "2024-01-31 10:00:00", "1999-12-31 23:59:59", " 42 ", "{a,b}", "infinity", "t"})))
					continue
				}
				params = append(params, rng.Bytes(sz))
			}
			st.binds[tag] = params
			pname := fmt.Sprintf("po%d", m)
			if len(portals) > 0 && rng.Intn(3) == 0 {
				// a portal name bound before (executed or not) is bound again, or the unnamed portal is used:
				// what was handed out for the earlier Bind stays what it was
				pname = core.Pick(rng, append([]string{""}, portals...))
				c.Count("portal_names_bound_again", 1)
			}
			portals = append(portals, pname)
			sname := fmt.Sprintf("s%d", m)
			in = append(in, pg.Parse(sname, q, oids)...)
			in = append(in, pg.Bind(pname, sname, nil, params, nil)...)
			in = append(in, pg.Sync()...)
			shape += "PB "
		case k < 66 && len(portals) > 0: // late execution of an old portal
			in = append(pg.Execute(core.Pick(rng, portals), 0), pg.Sync()...)
			shape += "E "
		case k < 70 && len(portals) > 0: // an old portal (executed before or not) is closed
			in = append(pg.Close('P', core.Pick(rng, portals)), pg.Sync()...)
			c.Count("portals_closed", 1)
			shape += "X "
		case k < 82: // oversized message, skipped in chunks
			n := L + 1 + rng.Intn(2*L)
			in = pg.Raw(core.Pick(rng, []byte{'Q', 'P', 'B', 'd'}), rng.Bytes(n))
			in = append(in, pg.Sync()...)
			if rng.Bool() {
				// the oversized message arrives in the same segment as a query whose text is retained
				q := text(fmt.Sprintf("before-oversized%d.%d:", idx, m), 12+rng.Intn(300))
				st.sentQ[q] = true
				in = append(pg.Query(q), in...)
				c.Count("oversized_pipelined_behind_a_retained_query", 1)
			}
			c.Count("oversized_skipped", 1)
			shape += "O "
			crossing++
		case k < 92: // COPY stream of many chunks
			q := text(fmt.Sprintf("copy%d.%d:", idx, m), 20)
			st.sentQ[q] = true
			in = pg.Query(q)
			chunks := 1 + rng.Intn(20)
			for j := 0; j < chunks; j++ {
				sz := sizeFor()
				if sz > L {
					sz = L
				}
				in = append(in, pg.CopyData(rng.Bytes(sz))...)
			}
			if rng.Intn(3) == 0 {
				// the COPY is aborted by a CopyData larger than the message limit (after it has taken chunks)
				in = append(in, pg.CopyData(rng.Bytes(L+1+rng.Intn(L)))...)
				c.Count("copy_streams_aborted_by_an_oversized_chunk", 1)
			}
			in = append(in, pg.CopyDone()...)
			c.Count("copy_chunks", int64(chunks))
			shape += "C "
		default:
			in = pg.Sync()
			shape += "S "
		}
		_, closed := cl.Step(in)
		if hangCheck(c, cl, cs) {
			return
		}
		if closed {
			c.Violate("dropped", "connection dropped during history", shape, cs)
			return
		}
	}
	cl.Finish()
	st.recheck("at connection end")
	if st.bad == "" && len(st.items) > 0 {
		if len(st.items) > 60 {
			st.items = st.items[:60]
		}
		c18old = append(c18old, st)
	}
	c.Count("retained_items", int64(len(st.items)))
	c.Count("recomparisons", int64(st.rechecks))
	c.Count("late_portal_executions", int64(st.lateExec))
	c.Count("granule_crossings", int64(crossing))
	c.Eval(shape, len(st.items) >= 3 && nmsg >= 5 && crossing > 0)
	if idx < 2 {
		c.Sample(map[string]any{"L": L, "history": trim(shape, 200), "retained_items": len(st.items), "recomparisons": st.rechecks})
	}
	if st.bad != "" {
		c.Violate("overwritten", "retained data changed: "+trim(st.bad, 40), st.bad+"; history "+trim(shape, 300), cs)
	}
}
