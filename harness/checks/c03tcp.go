package checks

import (
	"bytes"
	"context"
	"fmt"
	"io"
	"net"
	"strings"
	"sync"
	"time"

	wire "github.com/jeroenrinzema/psql-wire"
	"github.com/lib/pq/oid"

	"verifharness/core"
	"verifharness/hs"
	"verifharness/pg"
)

// realTCP runs the segmentation comparison over real loopback sockets (the library's own Serve on a
// *net.TCPListener): the same bytes arrive (a) in one write followed at once by the client's FIN - the
// half-close is already in the kernel's queue while the pipelined messages are still being worked
// through - (b) one byte per write with the FIN after the last byte, (c) in one write with the FIN sent
// only once the whole reply has been read. What the kernel knows about the peer beyond the bytes (that
// it has shut down its sending side, how much is queued) is no part of the byte stream: the three
// transcripts and callback traces are the same.
func (ch c03) realTCP(c *core.Ctx, rng *core.Rng) {
	var mu sync.Mutex
	traces := map[string][]string{}
	note := func(ctx context.Context, s string) {
		mu.Lock()
		traces[wire.RemoteAddress(ctx).String()] = append(traces[wire.RemoteAddress(ctx).String()], s)
		mu.Unlock()
	}
	parse := func(ctx context.Context, query string) (wire.PreparedStatements, error) {
		q := string(append([]byte(nil), query...))
		note(ctx, "parse:"+q)
		cols := wire.Columns{{Name: "c", Oid: oid.T_text, Width: -1}}
		return wire.Prepared(wire.NewStatement(func(ctx context.Context, w wire.DataWriter, params []wire.Parameter) error {
			note(ctx, fmt.Sprintf("exec:%s/%d", q, len(params)))
			w.Row([]any{"echo " + q})
			return w.Complete("SELECT 1")
		}, wire.WithColumns(cols), wire.WithParameters(wire.ParseParameters(q)))), nil
	}
	l, err := net.Listen("tcp", "127.0.0.1:0")
	if err != nil {
		c.Count("real_tcp_unavailable", 1)
		return
	}
	srv, err := wire.NewServer(parse, wire.Logger(hs.Quiet))
	if err != nil {
		c.Violate("startup", "NewServer failed", err.Error(), nil)
		return
	}
	done := make(chan error, 1)
	go func() { done <- srv.Serve(l) }()
	defer func() { srv.Close(); <-done }()

	var stream []byte
	stream = append(stream, pg.Startup([][2]string{{"user", "tcp"}})...)
	nq := 2 + rng.Intn(4)
	for i := 0; i < nq; i++ {
		switch rng.Intn(3) {
		case 0, 1:
			stream = append(stream, pg.Query(fmt.Sprintf("q%d %s", i, strings.Repeat("x", rng.Intn(40))))...)
		default:
			stream = append(stream, pg.Parse("", fmt.Sprintf("p%d $1", i), nil)...)
			stream = append(stream, pg.Bind("", "", nil, [][]byte{[]byte("v")}, nil)...)
			stream = append(stream, pg.Execute("", 0)...)
			stream = append(stream, pg.Sync()...)
		}
	}
	stream = append(stream, pg.Query("last")...)
	cs := map[string]any{"stream": hexs(stream)}
	// expected number of ReadyForQuery messages (mode c waits for them before it sends its FIN)
	nz := 1
	for _, m := range mustFront(stream[len(pg.Startup([][2]string{{"user", "tcp"}})):]) {
		if m == 'Q' || m == 'S' {
			nz++
		}
	}
	run := func(mode string) (reply []byte, trace []string, ok bool) {
		conn, err := net.Dial("tcp", l.Addr().String())
		if err != nil {
			return nil, nil, false
		}
		defer conn.Close()
		tc := conn.(*net.TCPConn)
		tc.SetNoDelay(true)
		key := conn.LocalAddr().String()
		conn.SetDeadline(time.Now().Add(40 * time.Second))
		switch mode {
		case "one write, FIN at once":
			conn.Write(stream)
			tc.CloseWrite()
		case "byte by byte, FIN last":
			for i := range stream {
				conn.Write(stream[i : i+1])
			}
			tc.CloseWrite()
		case "one write, FIN after the reply":
			conn.Write(stream)
			var acc []byte
			buf := make([]byte, 4096)
			for bytes.Count(kindsOf(acc), []byte("Z")) < nz {
				n, rerr := conn.Read(buf)
				acc = append(acc, buf[:n]...)
				if rerr != nil {
					return acc, nil, false
				}
			}
			tc.CloseWrite()
			rest, _ := io.ReadAll(conn)
			reply = append(acc, rest...)
		}
		if reply == nil {
			reply, _ = io.ReadAll(conn)
		}
		// the serving goroutine has closed the connection (EOF seen): its callbacks are over
		mu.Lock()
		trace = append([]string(nil), traces[key]...)
		mu.Unlock()
		return reply, trace, true
	}
	// the start-up reply lists its ParameterStatus messages in map order: compared from the first ReadyForQuery on
	afterStartup := func(b []byte) string {
		k := string(kindsOf(b))
		if i := strings.Index(k, "Z"); i >= 0 {
			return k[i:]
		}
		return k
	}
	modes := []string{"one write, FIN after the reply", "one write, FIN at once", "byte by byte, FIN last"}
	var ref []byte
	var refTrace []string
	for i, mode := range modes {
		reply, trace, ok := run(mode)
		if !ok {
			c.Inconclusive("C03 loopback slice: connection could not be run (" + mode + ")")
			return
		}
		if i == 0 {
			ref, refTrace = reply, trace
			if want := nq + 1; strings.Count(strings.Join(trace, " "), "parse:") != want {
				c.Violate("real-tcp", "reference run over a loopback socket did not serve every message", fmt.Sprintf("trace %v, reply %s", trace, kindsOf(reply)), cs)
				return
			}
			continue
		}
		c.Count("loopback_segmentations_compared", 1)
		if afterStartup(reply) != afterStartup(ref) {
			c.Violate("real-tcp-segmentation", "transcript over a loopback socket depends on how and when the bytes and the FIN arrive", fmt.Sprintf("%s: %s; %s: %s", modes[0], afterStartup(ref), mode, afterStartup(reply)), cs)
			return
		}
		if strings.Join(trace, ",") != strings.Join(refTrace, ",") {
			c.Violate("real-tcp-segmentation", "callback trace over a loopback socket depends on how and when the bytes and the FIN arrive", fmt.Sprintf("%s: %v; %s: %v", modes[0], refTrace, mode, trace), cs)
			return
		}
	}
	c.Eval(fmt.Sprintf("loopback stream of %d commands", nq), true)
}

// kindsOf returns the type bytes of the complete backend messages at the head of b.
func kindsOf(b []byte) []byte {
	var k []byte
	for len(b) >= 5 {
		n := int(b[1])<<24 | int(b[2])<<16 | int(b[3])<<8 | int(b[4])
		if n < 4 || len(b) < 1+n {
			break
		}
		k = append(k, b[0])
		b = b[1+n:]
	}
	return k
}

// mustFront returns the type bytes of a stream of well-formed frontend messages.
func mustFront(b []byte) []byte { return kindsOf(b) }
