package checks

import (
	"bytes"
	"context"
	"crypto/tls"
	"encoding/binary"
	"fmt"
	"github.com/jackc/pgx/v5/pgtype"
	"runtime"
	"runtime/metrics"
	"strings"
	"sync"
	"time"

	wire "github.com/jeroenrinzema/psql-wire"
	"github.com/lib/pq/oid"

	"verifharness/core"
	"verifharness/hs"
	"verifharness/pg"
	"verifharness/tr"
)

// C04 - No client input can crash, wedge or balloon the server.

type c04 struct{ base }

const c04L = 1 << 16

func init() {
	core.Register(c04{base{id: "C04", level: "fault_enumeration", quickB: 16, thoroughB: 32,
		rule:        "two parts, both in isolated child processes (a panic anywhere kills the child = crash witness). (1) fault enumeration, exhaustive: for each canonical session (auth ok/rejected, simple, multi-statement, extended batch, error batch, text and binary COPY ok/aborted, oversized message, Terminate, CancelRequest alone / followed by traffic, GSSENCRequest, COPY fields and Bind parameters of array / multirange / record type whose header announces millions of elements, generated C15 sessions; 17 in quick, 40 in thorough) the fault-free run's number of transport Read calls, Write calls and inbound bytes is measured, then the session is re-run with the transport failing at EVERY k-th Read (error and EOF), EVERY k-th Write (error and short write) and EVERY inbound byte offset. (1b) CancelRequest / SSLRequest / GSSENCRequest packets carrying 0-12 bytes behind the request code, as first packet, after a refused SSLRequest and inside an upgraded TLS connection. (1c) every type of a connection's type map is handed binary and text values whose leading words announce millions of elements, through NewScanner and Parameter.Scan. (1d) stray CopyData messages whose payload is a train of complete Query messages aligned to the usual buffer sizes (nothing inside a body may reach the parser). (2) input exploration: structure-aware mutation of valid streams (truncate at any offset, set any length/count field to 0,1,max-1,max,2^31,2^32-1, flip type bytes, duplicate/reorder/delete messages, splice random bytes, well-framed Bind messages whose format-code, value and result-format counts are mutually independent) on fresh connections (incl. SSLRequest and password phases), after a valid startup incl. COPY mode, and inside upgraded TLS connections; handlers call ParseParameters on every query, Parameter.Scan on every parameter and the binary COPY row reader. Oracles: process survives; after EOF/transport failure the server's own Close is observed and at most 64 further transport calls are made (spin detector); no (*Server).serve goroutine is left at batch end; a fresh probe connection is served after every 200 cases; allocation sanitizer: no object allocated by library code exceeds 8L+4MiB; no fabricated data: query texts reaching the parser are, in order, a subsequence of the texts carried by well-framed Query/Parse frames of the input, parameter values and COPY chunks are byte strings of the input. Non-trivial = fault at a position the fault-free run reaches, or a mutated stream; distinct = (session, fault kind, position) / mutation shape.",
		need:        []string{"hostile_values_decoded", "fault_runs", "read_faults", "write_faults", "byte_offset_faults", "mutated_inputs", "server_close_observed", "probe_connections_served", "leak_checks", "alloc_profile_checks", "fabrication_checks"},
		assumptions: append([]string{"allocation bound is c*L+K (8L+4MiB): the library allocates in 4 KiB granules and its 16-bit count fields cap tables at ~2.6 MiB regardless of L; a malformed body may be answered by an ErrorResponse or by closing the connection; after a frame with a declared length below 4 the input is not judged for fabrication"}, commonAssumptions...)}})
}

func c04validator(ctx context.Context, database, username, password string) (context.Context, bool, error) {
	hs.ConnOf(ctx).CB("validate", len(password))
	return ctx, password == "pw", nil
}

// c04progs: behaviour is a function of the query text prefix; helpers are applied to client data.
func c04sess() *hs.Sess {
	cols := wire.Columns{{Name: "a", Oid: oid.T_text, Width: -1}, {Name: "b", Oid: oid.T_int4, Width: -1}}
	s := &hs.Sess{}
	s.Default = func(q string) *hs.Prog {
		switch {
		case strings.HasPrefix(q, "copyb"):
			return &hs.Prog{Stmts: []*hs.Stmt{{ID: "copyb", Cols: cols, ParseParams: true, Ops: []hs.Op{{K: "copy", Copy: &hs.CopyPlan{Format: wire.BinaryFormat, MaxReads: -1, OnErr: "propagate", Binary: true}}}}}}
		case strings.HasPrefix(q, "copya"): // binary COPY with container-typed columns (array, multirange)
			acols := wire.Columns{{Name: "a", Oid: oid.T_text, Width: -1}, {Name: "arr", Oid: oid.T__int4, Width: -1}, {Name: "mr", Oid: 4451, Width: -1}, {Name: "rec", Oid: 2249, Width: -1}}
			return &hs.Prog{Stmts: []*hs.Stmt{{ID: "copya", Cols: acols, ParseParams: true, Ops: []hs.Op{{K: "copy", Copy: &hs.CopyPlan{Format: wire.BinaryFormat, MaxReads: -1, OnErr: "propagate", Binary: true}}}}}}
		case strings.HasPrefix(q, "copyt"):
			return &hs.Prog{Stmts: []*hs.Stmt{{ID: "copyt", Cols: cols, ParseParams: true, Ops: []hs.Op{{K: "copy", Copy: &hs.CopyPlan{Format: wire.TextFormat, MaxReads: -1, OnErr: "propagate"}}}}}}
		case strings.HasPrefix(q, "boom"):
			return &hs.Prog{Stmts: []*hs.Stmt{{ID: "boom", Cols: cols, ParseParams: true, Ops: []hs.Op{{K: "panicp"}, {K: "complete", Tag: "OK"}}}}}
		case strings.HasPrefix(q, "fail"):
			return &hs.Prog{Err: &hs.ErrSpec{Base: "scripted parse failure", Wraps: []hs.Wrap{{K: 'c', S: "42601"}}}}
		case strings.HasPrefix(q, "two"):
			return &hs.Prog{Stmts: []*hs.Stmt{
				{ID: "two.0", Cols: cols, ParseParams: true, Ops: []hs.Op{{K: "row", Vals: []any{"x", int32(1)}}, {K: "complete", Tag: "SELECT 1"}}},
				{ID: "two.1", ParseParams: true, Ops: []hs.Op{{K: "complete", Tag: "OK"}}}}}
		}
		return &hs.Prog{Stmts: []*hs.Stmt{{ID: "sel", Cols: cols, ParseParams: true, Ops: []hs.Op{{K: "row", Vals: []any{"v", int32(42)}}, {K: "row", Vals: []any{nil, nil}}, {K: "complete", Tag: "SELECT 2"}}}}}
	}
	s.OnExec = func(ctx context.Context, _ *hs.Stmt, _ wire.DataWriter, params []wire.Parameter) {
		for i, p := range params {
			if i > 64 {
				break
			}
			p.Scan(uint32(oid.T_int4))
			p.Scan(uint32(oid.T_text))
			p.Scan(uint32(oid.T_timestamptz))
			p.Scan(uint32(oid.T__int4))
			p.Scan(uint32(oid.T__text))
			p.Scan(4451) // int4multirange
			p.Scan(2249) // record
			p.Scan(12345)
		}
	}
	return s
}

type c04session struct {
	Name   string
	Auth   bool
	Msgs   [][]byte // client messages (startup first)
	Phases []string
}

func (s c04session) stream() []byte { return bytes.Join(s.Msgs, nil) }

func c04canonical(rng *core.Rng, n int) []c04session {
	start := pg.Startup([][2]string{{"user", "u"}, {"database", "d"}})
	t := c14table{OIDs: []uint32{pg.OIDText, pg.OIDInt4}, Rows: [][]any{{"r1", int32(1)}, {nil, int32(2)}, {"r3", nil}}, Trailer: true}
	bin, _ := t.encode()
	ext := func(q string, params [][]byte) [][]byte {
		return [][]byte{pg.Parse("s", q, []uint32{23}), pg.Describe('S', "s"), pg.Bind("p", "s", []int16{0}, params, []int16{1}), pg.Describe('P', "p"), pg.Execute("p", 0), pg.Close('P', "p"), pg.Sync()}
	}
	cat := func(parts ...[][]byte) [][]byte {
		var out [][]byte
		for _, p := range parts {
			out = append(out, p...)
		}
		return out
	}
	// container values whose own header lies about the number of elements (20 bytes announcing three
	// million elements): nothing of that size may be allocated on their account
	be := func(vs ...uint32) []byte {
		var b []byte
		for _, v := range vs {
			b = binary.BigEndian.AppendUint32(b, v)
		}
		return b
	}
	lyingArray, lyingRanges := be(1, 0, 23, 3000000, 1), be(3000000)
	field := func(b []byte) []byte { return append(be(uint32(len(b))), b...) }
	arow := append(append([]byte{0, 4}, field([]byte("t"))...), append(append(field(lyingArray), field(lyingRanges)...), field(be(3000000))...)...)
	abin := append(append(append([]byte{}, c14header...), arow...), 0xff, 0xff)
	// a Parse whose prespecified type reads as text, then a message of a type that needs a body but declares
	// none (length word 4): nothing of the earlier message may be taken for its body
	stale := pg.Parse("", "select 1", []uint32{0x45564c00, 0x53454c00})
	negBind := func(v uint32) []byte {
		b := pg.Bind("", "s", nil, [][]byte{{}}, nil) // (no value bytes behind the length word: the message is consistent for a reader that takes the word for NULL)
		binary.BigEndian.PutUint32(b[5+1+2+2+2:], v) // the length word of the only value
		return b
	}
	all := []c04session{
		// a parameter length that is negative and not -1: no value has it, and NULL is spelled -1
		{Name: "bind-parameter-length-minus-2", Msgs: cat([][]byte{start, pg.Parse("s", "select $1", nil), negBind(0xfffffffe), pg.Execute("", 0), pg.Sync(), pg.Query("select 1"), pg.Terminate()})},
		{Name: "bind-parameter-length-int32-min", Msgs: cat([][]byte{start, pg.Parse("s", "select $1", nil), negBind(0x80000000), pg.Execute("", 0), pg.Sync(), pg.Query("select 1"), pg.Terminate()})},
		{Name: "copy-binary-copydone-inside-the-first-row", Msgs: cat([][]byte{start, pg.Query("copyb in"), pg.CopyData(bin[:20]), pg.CopyDone(), pg.CopyData(bin[20:]), pg.Query("select 1"), pg.Terminate()})},
		{Name: "header-only-query-after-unread-tail", Msgs: cat([][]byte{start, stale, pg.Raw('Q', nil), pg.Sync(), pg.Query("select 1"), pg.Terminate()})},
		{Name: "header-only-parse-bind-after-unread-tail", Msgs: cat([][]byte{start, stale, pg.Raw('P', nil), pg.Sync(), stale, pg.Raw('B', nil), pg.Raw('E', nil), pg.Sync(), pg.Terminate()})},
		{Name: "copy-binary-lying-containers", Msgs: cat([][]byte{start, pg.Query("copya in"), pg.CopyData(abin), pg.CopyDone(), pg.Query("select 1"), pg.Terminate()})},
		{Name: "bind-lying-containers", Msgs: cat([][]byte{start, pg.Parse("s", "select $1 $2", nil), pg.Bind("p", "s", []int16{1}, [][]byte{lyingArray, lyingRanges}, nil), pg.Execute("p", 0), pg.Sync(), pg.Terminate()})},
		{Name: "copy-binary-declared-field-of-200MB", Msgs: cat([][]byte{start, pg.Query("copyb in"), pg.CopyData(append(append(append([]byte{}, c14header...), 0, 2), be(200000000)...)), pg.CopyData([]byte("only a few bytes of it ever arrive")), pg.CopyDone(), pg.Query("select 1"), pg.Terminate()})},
		{Name: "parse-more-types-than-parameters", Msgs: cat([][]byte{start, pg.Parse("s", "select $1", []uint32{25, 0, 23, 1043, 0, 20}), pg.Describe('S', "s"), pg.Bind("p", "s", nil, [][]byte{[]byte("1")}, nil), pg.Execute("p", 0), pg.Sync(),
			pg.Parse("", "select 1", []uint32{0, 0, 23}), pg.Describe('S', ""), pg.Sync(), pg.Terminate()})},
		{Name: "startup-options-switches", Msgs: cat([][]byte{pg.Startup([][2]string{{"user", "u"}, {"options", "-c search_path=public -e"}}), pg.Query("select 1"), pg.Terminate()})},
		{Name: "startup-options-bare-word", Msgs: cat([][]byte{pg.Startup([][2]string{{"options", "verbose"}, {"user", "u"}, {"database", "d"}}), pg.Query("select 1"), pg.Terminate()})},
		{Name: "simple", Msgs: cat([][]byte{start, pg.Query("select $1 ?"), pg.Terminate()})},
		{Name: "auth-ok", Auth: true, Msgs: cat([][]byte{start, pg.Password("pw"), pg.Query("select 1"), pg.Terminate()})},
		{Name: "auth-rejected", Auth: true, Msgs: cat([][]byte{start, pg.Password("nope"), pg.Query("select 1")})},
		{Name: "multi-statement", Msgs: cat([][]byte{start, pg.Query("two statements"), pg.Query("  "), pg.Terminate()})},
		{Name: "extended-batch", Msgs: cat([][]byte{start}, ext("select $1", [][]byte{[]byte("41")}), ext("select $2 $1", [][]byte{nil, []byte("x")}), [][]byte{pg.Terminate()})},
		{Name: "error-batch", Msgs: cat([][]byte{start, pg.Parse("", "fail here", nil), pg.Bind("", "", nil, nil, nil), pg.Execute("", 0), pg.Sync(), pg.Bind("", "nosuch", nil, nil, nil), pg.Sync(), pg.Query("fail again"), pg.Terminate()})},
		{Name: "copy-binary", Msgs: cat([][]byte{start, pg.Query("copyb in"), pg.CopyData(bin[:25]), pg.CopyData(bin[25:]), pg.CopyDone(), pg.Query("select 1"), pg.Terminate()})},
		{Name: "copy-binary-data-after-trailer", Msgs: cat([][]byte{start, pg.Query("copyb in"), pg.CopyData(bin), pg.CopyData([]byte("late data after the trailer")), pg.CopyData(nil), pg.CopyDone(), pg.Query("select 1"), pg.Terminate()})},
		{Name: "execute-panic-then-more", Msgs: cat([][]byte{start, pg.Parse("b", "boom $1", nil), pg.Bind("pb", "b", nil, [][]byte{[]byte("1")}, nil), pg.Execute("pb", 0), pg.Sync(),
			pg.Bind("pb2", "b", nil, [][]byte{[]byte("2")}, nil), pg.Describe('P', "pb2"), pg.Execute("pb2", 0), pg.Close('P', "pb"), pg.Sync(), pg.Query("select 1"), pg.Terminate()})},
		{Name: "copy-text-abort", Msgs: cat([][]byte{start, pg.Query("copyt in"), pg.CopyData([]byte("a\t1\n")), pg.Flush(), pg.CopyFail("stop"), pg.CopyData([]byte("late")), pg.Query("select 1"), pg.Terminate()})},
		{Name: "oversized", Msgs: cat([][]byte{start, pg.Raw('Q', bytes.Repeat([]byte{'o'}, c04L+100)), pg.Query("select 1"), pg.Raw('P', bytes.Repeat([]byte{'o'}, 2*c04L+1)), pg.Sync(), pg.Terminate()})},
		{Name: "cancel", Msgs: cat([][]byte{pg.CancelRequest(4711, 0x01020304)})},
		{Name: "cancel-then-traffic", Msgs: cat([][]byte{pg.CancelRequest(1, 2), start, pg.Query("select 1"), pg.Terminate()})},
		{Name: "gssenc-then-startup", Msgs: cat([][]byte{pg.GSSENCRequest(), start, pg.Query("select 1"), pg.Terminate()})},
		{Name: "ssl-refused", Msgs: cat([][]byte{pg.SSLRequest(), start, pg.Query("select 1"), pg.Terminate()})},
	}
	for i := len(all); i < n; i++ {
		s := c15gen(rng, fmt.Sprintf("canon%d", i), false)
		cs := c04session{Name: fmt.Sprintf("generated-%d[%s]", i, strings.Join(s.Kinds, ",")), Msgs: [][]byte{pg.Startup(append([][2]string{{"user", s.User}}, s.Params...))}}
		cs.Msgs = append(cs.Msgs, s.Steps...)
		cs.Msgs = append(cs.Msgs, pg.Terminate())
		// generated sessions carry their own programs
		all = append(all, cs)
		c04genProgs[cs.Name] = s.Progs
	}
	if n < len(all) {
		all = all[:n]
	}
	return all
}

var c04genProgs = map[string]map[string]*hs.Prog{}

type c04envs struct {
	plain, auth *hs.Env
}

func (e c04envs) pick(auth bool) *hs.Env {
	if auth {
		return e.auth
	}
	return e.plain
}

func (ch c04) Run(c *core.Ctx) {
	core.AllocSanitizerOn()
	tr.WatchdogTimeout = 30 * time.Second
	// the embedding program's hooks for the end of a connection look at their context (address, parameters,
	// user), as hooks that write an audit line do
	hook := func(ctx context.Context) error {
		_ = wire.RemoteAddress(ctx)
		_ = wire.ClientParameters(ctx)["user"]
		_ = wire.AuthenticatedUsername(ctx)
		_ = wire.TypeMap(ctx)
		return nil
	}
	hooks := []wire.OptionFn{wire.CloseConn(hook), wire.TerminateConn(hook), wire.GlobalParameters(wire.Parameters{"application_name": "c04", "search_path": "public", "TimeZone": "UTC"})}
	envTLS := hs.Start(hs.Parse, append(hooks, wire.MessageBufferSize(c04L), wire.TLSConfig(hs.ServerTLS()))...)
	envs := c04envs{plain: hs.Start(hs.Parse, append(hooks, wire.MessageBufferSize(c04L))...), auth: hs.Start(hs.Parse, append(hooks, wire.MessageBufferSize(c04L), wire.SessionAuthStrategy(wire.ClearTextPassword(c04validator)))...)}
	nb := ch.Batches(c.Tier)
	ncanon, nmut := 26, 2500
	if c.Tier == "thorough" {
		ncanon, nmut = 45, 400000
	}
	canon := c04canonical(core.NewRng(c.Seed, "C04canon", 0, 0), ncanon)
	cases := 0
	probe := func() bool {
		cl := hs.NewClient(envs.plain.Dial(c04sess()))
		if err := cl.StartupOK("probe"); err != nil {
			c.Violate("probe", "a fresh connection is no longer served", err.Error(), nil)
			return false
		}
		out, _ := cl.Step(pg.Query("select probe"))
		if !strings.HasSuffix(replyKinds(out), "ZI") {
			c.Violate("probe", "a fresh connection is no longer served", replyKinds(out), nil)
			return false
		}
		cl.Finish()
		c.Count("probe_connections_served", 1)
		return true
	}
	tick := func() bool {
		cases++
		if cases%200 == 0 {
			return probe()
		}
		return true
	}
	// ---- part 1: fault enumeration (sessions split over batches) ----
	idx := 0
	for si, s := range canon {
		if si%nb != c.Batch {
			continue
		}
		sessFor := func() *hs.Sess {
			ss := c04sess()
			if p, ok := c04genProgs[s.Name]; ok {
				ss.Progs = p
			}
			return ss
		}
		run := func(plan func(*tr.Conn), what string, pos int) bool {
			idx++
			if !c.Begin(si*1000000 + idx) {
				return true
			}
			conn := tr.NewConn(sessFor())
			conn.NoLog = true
			if plan != nil {
				plan(conn)
			}
			envs.pick(s.Auth).L.DialConn(conn)
			for _, m := range s.Msgs {
				conn.Send(m)
			}
			_, ok := conn.Quiesce()
			conn.CloseWrite()
			if ok {
				ok = conn.WaitClosed()
			}
			cs := map[string]any{"session": s.Name, "fault": what, "position": pos}
			if !ok {
				dump, lib := core.ClassifyHang()
				if len(lib) > 0 {
					c.Violate("wedge", fmt.Sprintf("connection handling does not end (%s, fault %s): %s", s.Name, what, strings.Join(lib, "; ")), trim(dump, 3000), cs)
				} else {
					c.Inconclusive("watchdog fired without library-blocked goroutine (" + what + ")")
				}
				c.Finish()
				return false
			}
			st := conn.Stats()
			c.Count("server_close_observed", 1)
			if st.AfterEnd > 64 {
				c.Violate("spin", fmt.Sprintf("server keeps using a finished transport (%s, fault %s)", s.Name, what), fmt.Sprintf("%d transport calls after EOF/error at position %d", st.AfterEnd, pos), cs)
				return false
			}
			if conn.TempFired() > 2000 {
				c.Violate("spin", fmt.Sprintf("server answers every temporary read error with another read (%s, fault %s)", s.Name, what), fmt.Sprintf("%d temporary errors delivered from read %d on, the connection was never given up", conn.TempFired(), pos), cs)
				return false
			}
			if conn.TempFired() > 0 {
				c.Count("transient_faults_delivered", int64(conn.TempFired()))
			}
			if plan != nil {
				c.Count("fault_runs", 1)
				c.Eval(fmt.Sprintf("%s|%s|%d", s.Name, what, pos), true)
			}
			// fabrication: only well-framed input may reach callbacks
			ch.fabrication(c, s.stream(), conn, cs)
			return tick()
		}
		// fault-free run: measure
		base := tr.NewConn(sessFor())
		envs.pick(s.Auth).L.DialConn(base)
		for _, m := range s.Msgs {
			base.Send(m)
		}
		base.Quiesce()
		base.CloseWrite()
		if !base.WaitClosed() {
			c.Violate("wedge", "fault-free canonical session does not end: "+s.Name, "", nil)
			continue
		}
		st := base.Stats()
		if si < 3 {
			c.Sample(map[string]any{"session": s.Name, "messages": len(s.Msgs), "fault_free_reads": st.Reads, "fault_free_writes": st.Writes, "inbound_bytes": st.Consumed, "server_output": trim(replyKinds(base.Out()), 200)})
		}
		okAll := true
		for k := 1; k <= st.Reads+1 && okAll; k++ {
			k := k
			okAll = run(func(cn *tr.Conn) { cn.FailReadAt = k }, "read-error", k) &&
				run(func(cn *tr.Conn) { cn.FailReadAt = k; cn.EOFInstead = true }, "read-eof", k)
			c.Count("read_faults", 2)
		}
		for k := 1; k <= st.Writes+1 && okAll; k++ {
			k := k
			okAll = run(func(cn *tr.Conn) { cn.FailWriteAt = k }, "write-error", k) &&
				run(func(cn *tr.Conn) { cn.FailWriteAt = k; cn.ShortWrite = true }, "short-write", k)
			c.Count("write_faults", 2)
		}
		// transient faults: a read that times out once (the transport stays usable), reads that time out
		// for good (a deadline that has passed: the transport has failed although every error claims to
		// be temporary), a write interrupted half-way with a temporary error
		for k := 1; k <= st.Reads+1 && okAll; k++ {
			k := k
			okAll = run(func(cn *tr.Conn) { cn.TempReadAt = k }, "temporary-read-error-once", k) &&
				run(func(cn *tr.Conn) { cn.TempReadFrom = k }, "reads-time-out-for-good", k)
			c.Count("transient_read_faults", 2)
		}
		for k := 1; k <= st.Writes && okAll; k++ {
			k := k
			okAll = run(func(cn *tr.Conn) { cn.TempWriteAt = k }, "write-interrupted-half-way", k)
			c.Count("transient_write_faults", 1)
		}
		for n := 0; n <= st.Consumed && okAll; n++ {
			n := n
			if st.Consumed > 6000 && n > 3000 && n%7 != 0 {
				continue // very long streams: every offset in the first 3000 bytes, every 7th afterwards
			}
			okAll = run(func(cn *tr.Conn) { cn.FailByteAt = n }, "byte-offset-error", n)
			c.Count("byte_offset_faults", 1)
		}
		if c.NViol() >= 10 {
			break
		}
	}
	if c.Batch == 0 {
		c.Count("exhaustive_parts", 1)
	}
	// ---- special request packets of every (consistent) size, at every position a first packet can have ----
	// CancelRequest / SSLRequest / GSSENCRequest carrying 0-12 bytes behind the code, as first packet,
	// after a refused SSLRequest and inside an upgraded TLS connection
	if c.Batch == 0 && c.Begin(800000000) {
		for _, code := range []uint32{pg.VerCancel, pg.VerSSL, pg.VerGSSENC} {
			for k := 0; k <= 12; k++ {
				pkt := pg.StartupRaw(code, bytes.Repeat([]byte{byte(k + 1)}, k))
				for _, pos := range []string{"first", "after-N", "inside-tls"} {
					sess := c04sess()
					switch pos {
					case "inside-tls":
						t, _, err := c11upgrade(envTLS, sess, nil, false, tls.VersionTLS13)
						if err != nil {
							continue
						}
						t.tc.Write(pkt)
						t.conn.Quiesce()
						t.tc.Close()
						t.conn.CloseWrite()
						if !t.conn.WaitClosed() {
							_, lib := core.ClassifyHang()
							c.Violate("wedge", "connection handling does not end after a special request packet inside TLS", strings.Join(lib, "; "), map[string]any{"code": code, "extra_bytes": k})
							c.Finish()
						}
					default:
						conn := tr.NewConn(sess)
						envs.plain.L.DialConn(conn)
						if pos == "after-N" {
							conn.Send(pg.SSLRequest())
							conn.Quiesce()
						}
						conn.Send(pkt)
						conn.Quiesce()
						conn.CloseWrite()
						if !conn.WaitClosed() {
							_, lib := core.ClassifyHang()
							c.Violate("wedge", "connection handling does not end after a special request packet ("+pos+")", strings.Join(lib, "; "), map[string]any{"code": code, "extra_bytes": k})
							c.Finish()
						}
					}
					c.Count("special_request_packets", 1)
					c.Eval(fmt.Sprintf("special %d +%d %s", code, k, pos), true)
				}
			}
		}
		probe()
	}
	// ---- many clients starting up at the same moment (a reconnect storm), some of them half-way: the
	// process survives and a fresh connection is served afterwards ----
	// a long binary COPY (12 MiB) whose CopyData messages never end on a row boundary (rows of 1006 bytes in
	// messages of 4024 behind a 19-byte header, as a driver that fills fixed-size buffers sends them): what the
	// row reader holds on behalf of the stream stays a matter of messages and rows, not of the stream's length
	// (judged by the allocation sanitizer at the end of the batch)
	if c.Batch == 6%nb && c.Begin(881000000) {
		lt := c14table{OIDs: []uint32{pg.OIDBytea}}
		val := bytes.Repeat([]byte{0xab}, 1000)
		for r := 0; r < 12500; r++ {
			lt.Rows = append(lt.Rows, []any{val})
		}
		stream, _ := lt.encode()
		plan := &hs.CopyPlan{Format: wire.BinaryFormat, MaxReads: -1, OnErr: "propagate", Binary: true}
		sess := &hs.Sess{Progs: map[string]*hs.Prog{"copy": {Stmts: []*hs.Stmt{{ID: "copy", Cols: wire.Columns{{Name: "b", Oid: oid.T_bytea, Width: -1}}, Ops: []hs.Op{{K: "copy", Copy: plan}}}}}}}
		conn := envs.plain.Dial(sess)
		conn.NoLog = true
		in := append(pg.Startup([][2]string{{"user", "u"}}), pg.Query("copy")...)
		for off := 0; off < len(stream); off += 4024 {
			in = append(in, pg.CopyData(stream[off:min(off+4024, len(stream))])...)
		}
		conn.Send(append(append(in, pg.CopyDone()...), pg.Terminate()...))
		conn.CloseWrite()
		if !conn.WaitClosed() {
			c.Inconclusive("C04 long-COPY part: connection did not end")
		} else if k := replyKinds(conn.Out()); !strings.Contains(k, "C(\"COPY") && !strings.Contains(k, "C(") {
			c.Inconclusive("C04 long-COPY part: the COPY did not complete: " + trim(k, 200))
		} else {
			c.Count("long_binary_copy_streams_with_misaligned_messages", 1)
			c.Eval("long binary COPY, misaligned messages", true)
		}
	}
	// a handler that keeps the CopyReader it was given (an audit routine drains it later) and reads it again
	// after its connection has ended: that read fails or ends - the process lives, and the connection that is
	// being served at that moment gets every one of its queries answered
	if c.Batch == 5%nb && c.Begin(880000000) {
		var kmu sync.Mutex
		var kept []*wire.CopyReader
		kparse := func(ctx context.Context, query string) (wire.PreparedStatements, error) {
			cols := wire.Columns{{Name: "c", Oid: oid.T_text, Width: -1}}
			return wire.Prepared(wire.NewStatement(func(ctx context.Context, w wire.DataWriter, _ []wire.Parameter) error {
				if query != "copy" {
					w.Row([]any{"served"})
					return w.Complete("SELECT 1")
				}
				cr, err := w.CopyIn(wire.TextFormat)
				if err != nil {
					return err
				}
				kmu.Lock()
				kept = append(kept, cr)
				kmu.Unlock()
				for cr.Read() == nil {
				}
				return w.Complete("COPY 1")
			}, wire.WithColumns(cols))), nil
		}
		kenv := hs.Start(kparse, wire.MessageBufferSize(c04L))
		for round := 0; round < 4 && c.NViol() == 0; round++ {
			a := hs.NewClient(kenv.Dial(nil))
			a.C.Send(append(pg.Startup([][2]string{{"user", "keeps"}}), pg.Query("copy")...))
			a.C.Send(append(append(pg.CopyData([]byte("line\n")), pg.CopyDone()...), pg.Terminate()...))
			a.C.CloseWrite()
			if !a.C.WaitClosed() {
				c.Inconclusive("C04 kept-reader part: connection did not end")
				break
			}
			b := hs.NewClient(kenv.Dial(nil))
			if err := b.StartupOK("next"); err != nil {
				c.Violate("probe", "a connection started after another one ended is not served", err.Error(), nil)
				break
			}
			kmu.Lock()
			readers := append([]*wire.CopyReader(nil), kept...)
			kmu.Unlock()
			done := make(chan struct{})
			go func() {
				defer close(done)
				for _, cr := range readers {
					for i := 0; i < 3; i++ {
						cr.Read()
					}
				}
			}()
			for q := 0; q < 5; q++ {
				out, closed := b.Step(pg.Query(fmt.Sprintf("q%d", q)))
				if b.Hung || closed || !strings.HasSuffix(replyKinds(out), "ZI") {
					c.Violate("neighbour", "a connection is not served while a handler of an ended connection reads the CopyReader it kept", fmt.Sprintf("round %d query %d: reply %q closed=%v hung=%v", round, q, replyKinds(out), closed, b.Hung), nil)
					b.Hung = false
					break
				}
			}
			select {
			case <-done:
			case <-time.After(20 * time.Second):
				c.Violate("neighbour", "reading a CopyReader kept beyond its connection does not return", "", nil)
			}
			c.Count("copy_readers_read_after_their_connection_ended", int64(len(readers)))
			c.Eval(fmt.Sprintf("kept reader %d", round), true)
			b.Finish()
		}
		kenv.Stop()
	}
	if c.Batch == 3%nb && c.Begin(870000000) {
		var wg sync.WaitGroup
		for g := 0; g < 16; g++ {
			wg.Add(1)
			go func(g int) {
				defer wg.Done()
				for i := 0; i < 40; i++ {
					conn := tr.NewConn(c04sess())
					conn.NoLog = true
					envs.plain.L.DialConn(conn)
					pkt := pg.Startup([][2]string{{"user", fmt.Sprintf("storm%d", g)}, {"database", "d"}})
					if i%7 == 3 {
						pkt = pkt[:len(pkt)/2]
					}
					conn.Send(pkt)
					conn.Quiesce()
					conn.CloseWrite()
					conn.WaitClosed()
				}
			}(g)
		}
		wg.Wait()
		c.Count("simultaneous_startups", 16*40)
		c.Eval("startup storm", true)
		probe()
	}
	// ---- floods of negotiation packets on one connection (30000 GSSENCRequest / SSLRequest packets, the
	// single-byte answers drained): the connection ends or goes on, what it holds does not grow with the
	// number of packets it has seen (goroutine stacks included) ----
	if c.Batch == 2%nb && c.Begin(860000000) {
		stacks := []metrics.Sample{{Name: "/memory/classes/heap/stacks:bytes"}, {Name: "/memory/classes/heap/objects:bytes"}}
		held := func() (uint64, uint64) {
			runtime.GC()
			metrics.Read(stacks)
			return stacks[0].Value.Uint64(), stacks[1].Value.Uint64()
		}
		for _, kind := range []string{"gssenc", "ssl", "alternating"} {
			conn := tr.NewConn(c04sess())
			conn.NoLog = true
			envs.plain.L.DialConn(conn)
			s0, h0 := held()
			const flood = 30000
			answered := 0
			for i := 0; i < flood; i += 500 {
				var b []byte
				for j := 0; j < 500; j++ {
					switch {
					case kind == "gssenc" || kind == "alternating" && j%2 == 0:
						b = append(b, pg.StartupRaw(pg.VerGSSENC, nil)...)
					default:
						b = append(b, pg.SSLRequest()...)
					}
				}
				conn.Send(b)
				closed, ok := conn.Quiesce()
				answered = len(conn.Out())
				if closed || !ok {
					break
				}
			}
			s1, h1 := held()
			c.Count("negotiation_packet_floods", 1)
			c.Count("negotiation_packets_answered", int64(answered))
			c.Eval("flood "+kind, true)
			if grow := int64(s1) - int64(s0) + int64(h1) - int64(h0); answered > 1000 && grow > 8<<20 {
				c.Violate("retained", "memory held by a connection grows with the number of negotiation packets it has answered", fmt.Sprintf("%s flood: %d packets answered on one connection, goroutine stacks grew by %d KiB, heap objects by %d KiB (connection still open and idle)", kind, answered, (int64(s1)-int64(s0))>>10, (int64(h1)-int64(h0))>>10), map[string]any{"flood": kind})
			}
			conn.CloseWrite()
			if !conn.WaitClosed() {
				_, lib := core.ClassifyHang()
				c.Violate("wedge", "connection handling does not end after a flood of negotiation packets", strings.Join(lib, "; "), map[string]any{"flood": kind})
				c.Finish()
			}
		}
		probe()
	}
	// ---- every type a connection's type map knows, fed client-style binary values whose leading words
	// announce millions of elements / fields / dimensions, through both decode entry points of the
	// library (COPY scanner, Parameter.Scan): no panic (= child exit), nothing large allocated ----
	if c.Batch == 1%nb && c.Begin(850000000) {
		m := pgtype.NewMap()
		hostile := [][]byte{
			{0, 0x2d, 0xc6, 0xc0},
			{0, 0x2d, 0xc6, 0xc0, 0, 0, 0, 0, 0, 0, 0, 0, 0, 0, 0, 0},
			{0, 0, 0, 1, 0, 0, 0, 0, 0, 0, 0, 23, 0, 0x2d, 0xc6, 0xc0, 0, 0, 0, 1},
			{0, 0, 0, 2, 0, 0x2d, 0xc6, 0xc0, 0, 0, 0, 0, 0, 0, 0, 0},
			{0xff, 0xff, 0xff, 0xf0, 0, 0, 0, 1, 0xff, 0xff, 0xff, 0xff},
			{0, 0, 0, 1, 0, 0, 0, 0, 0, 0, 0, 23, 0, 0, 0, 2, 0, 0, 0, 1, 0x02, 0, 0, 0x2c, 1},
			{},
			{1},
			// text representations: dimension decoration announcing millions of elements, deep nesting,
			// unterminated and very long element lists, long digit strings
			[]byte("[1:3000000]={1}"), []byte(" [1:1][1:3000000]={{1}}"), []byte("[-1500000:1500000]={1}"),
			[]byte(strings.Repeat("{", 20000)), []byte(strings.Repeat("{", 5000) + "1" + strings.Repeat("}", 5000)), []byte("{1,2"),
			[]byte("{" + strings.Repeat("1,", 20000) + "1}"), []byte("(" + strings.Repeat(",", 20000) + ")"), []byte("{" + strings.Repeat("[1,2),", 10000) + "}"),
			[]byte(strings.Repeat("9", 20000)), []byte("1e2147483647"), []byte("1e-2147483647"), []byte("infinity"), []byte("294277-01-01"),
		}
		rng := core.NewRng(c.Seed, "C04types", 0, 0)
		for k := 0; k < 24; k++ {
			hostile = append(hostile, rng.Bytes(1+rng.Intn(40)))
		}
		ntypes := 0
		for o := uint32(1); o < 6000; o++ {
			if _, ok := m.TypeForOID(o); !ok {
				continue
			}
			ntypes++
			for _, f := range []wire.FormatCode{wire.BinaryFormat, wire.TextFormat} {
				sc, err := wire.NewScanner(m, wire.Column{Oid: oid.Oid(o)}, f)
				for _, h := range hostile {
					if err == nil {
						sc(h)
					}
					wire.NewParameter(m, f, h).Scan(o)
					c.Count("hostile_values_decoded", 2)
				}
			}
		}
		c.Eval(fmt.Sprintf("hostile values for %d registered types", ntypes), true)
	}
	// ---- bodies full of message look-alikes: stray CopyData messages (ignored outside COPY) whose payload
	// is a train of complete 16-byte Query messages, padded so that a message starts exactly D bytes into
	// the stream for the usual buffer sizes D: a server that loses or skips D bytes anywhere (a buffer
	// swapped, a block rewound) resumes on a look-alike and hands its text to the parser ----
	if c.Batch == 2%nb && c.Begin(860000000) {
		block := func(n int) []byte { return pg.Query(fmt.Sprintf("smuggle-%02d", n%100)) } // 1+4+11 = 16 bytes
		for _, D := range []int{512, 1024, 2048, 4096, 8192, 10000, 16384, 32768, 65536, 4096 + 9, 8192 + 13} {
			for _, auth := range []bool{false, true} {
				stream := pg.Startup([][2]string{{"user", "u"}, {"database", "d"}})
				if auth {
					stream = append(stream, pg.Password("pw")...)
				}
				for len(stream) < D+40000 {
					head := len(stream) + 5
					pad := ((D-head)%16 + 16) % 16
					body := bytes.Repeat([]byte{0}, pad)
					for n := 0; len(body)+16 <= 60000; n++ {
						body = append(body, block(n)...)
					}
					stream = append(stream, pg.CopyData(body)...)
				}
				stream = append(append(stream, pg.Query("select 1")...), pg.Terminate()...)
				conn := tr.NewConn(c04sess())
				conn.NoLog = true
				envs.pick(auth).L.DialConn(conn)
				conn.Send(stream)
				conn.Quiesce()
				conn.CloseWrite()
				if !conn.WaitClosed() {
					c.Inconclusive("connection did not close (look-alike bodies)")
					c.Finish()
				}
				ch.fabrication(c, stream, conn, map[string]any{"look_alike_alignment": D, "auth": auth})
				c.Count("look_alike_bodies", 1)
				c.Eval(fmt.Sprintf("look-alike bodies D=%d auth=%v", D, auth), true)
			}
		}
	}
	// ---- part 2: input exploration ----
	for i := c.Batch; i < nmut; i += nb {
		if !c.Begin(900000000+i) || c.NViol() >= 10 {
			continue
		}
		rng := core.NewRng(c.Seed, "C04m", 0, i)
		s := canon[rng.Intn(len(canon))]
		msgs := append([][]byte{}, s.Msgs...)
		shape := s.Name + ":"
		for m := 1 + rng.Intn(3); m > 0; m-- {
			var k string
			msgs, k = c04mutate(rng, msgs)
			shape += k + ","
		}
		stream := bytes.Join(msgs, nil)
		sess := c04sess()
		if p, ok := c04genProgs[s.Name]; ok {
			sess.Progs = p
		}
		if i%16 == 5 && !s.Auth && s.Name != "ssl-refused" {
			// the same hostile stream inside an upgraded TLS connection
			if t, _, err := c11upgrade(envTLS, sess, nil, false, tls.VersionTLS13); err == nil {
				t.tc.Write(stream)
				t.conn.Quiesce()
				t.tc.Close()
				t.conn.CloseWrite()
				if !t.conn.WaitClosed() {
					dump, lib := core.ClassifyHang()
					if len(lib) > 0 {
						c.Violate("wedge", "connection handling does not end after input ended (inside TLS, "+shape+"): "+strings.Join(lib, "; "), trim(dump, 3000), map[string]any{"mutation": shape})
					}
					c.Finish()
					break
				}
				c.Count("mutated_inputs_inside_tls", 1)
				c.Count("server_close_observed", 1)
			}
			continue
		}
		conn := tr.NewConn(sess)
		conn.NoLog = true
		envs.pick(s.Auth).L.DialConn(conn)
		switch rng.Intn(3) {
		case 0:
			conn.Send(stream)
		case 1:
			conn.SendEach(stream)
		default:
			for _, m := range msgs {
				conn.Send(m)
			}
		}
		c.Count("mutated_inputs", 1)
		c.Eval(shape, true)
		cs := map[string]any{"mutation": shape, "stream": hexs(stream)}
		_, ok := conn.Quiesce()
		conn.CloseWrite()
		if ok {
			ok = conn.WaitClosed()
		}
		if !ok {
			dump, lib := core.ClassifyHang()
			if len(lib) > 0 {
				c.Violate("wedge", "connection handling does not end after input ended ("+shape+"): "+strings.Join(lib, "; "), trim(dump, 3000), cs)
			} else {
				c.Inconclusive("watchdog fired without library-blocked goroutine (mutation)")
			}
			c.Finish()
			break
		}
		c.Count("server_close_observed", 1)
		if st := conn.Stats(); st.AfterEnd > 64 {
			c.Violate("spin", "server keeps using a finished transport ("+shape+")", fmt.Sprintf("%d transport calls after EOF", st.AfterEnd), cs)
			break
		}
		ch.fabrication(c, stream, conn, cs)
		if !tick() {
			break
		}
	}
	probe()
	envs.plain.Stop()
	envs.auth.Stop()
	envTLS.Stop()
	// leak check: no connection goroutine may be left once every client has closed
	leaked := ""
	for i := 0; i < 400; i++ {
		buf := make([]byte, 1<<22)
		n := runtime.Stack(buf, true)
		leaked = ""
		for _, blk := range strings.Split(string(buf[:n]), "\n\n") {
			if strings.Contains(blk, "psql-wire.(*Server).serve(") {
				leaked = blk
			}
		}
		if leaked == "" {
			break
		}
		time.Sleep(5 * time.Millisecond)
	}
	c.Count("leak_checks", 1)
	if leaked != "" {
		c.Violate("leak", "a connection goroutine outlives its finished connection", trim(leaked, 2500), nil)
	}
	c.Count("alloc_profile_checks", 1)
	for _, b := range core.LargeLibraryObjects(8*c04L + 4<<20) {
		c.Violate("alloc", "object larger than 8L+4MiB allocated in "+b.Top, fmt.Sprintf("%d object(s) of %d bytes (L=%d) allocated under\n%s", b.Count, b.Size, c04L, trim(b.Stack, 1500)), nil)
	}
}

// c04mutate applies one structure-aware mutation to a message list.
func c04mutate(rng *core.Rng, msgs [][]byte) ([][]byte, string) {
	out := make([][]byte, len(msgs))
	for i := range msgs {
		out[i] = append([]byte(nil), msgs[i]...)
	}
	i := rng.Intn(len(out))
	m := out[i]
	vals := []uint32{0, 1, 3, 4, 5, 0x7fffffff, 0x80000000, 0xffffffff, 0xfffffffe, c04L + 4, c04L + 5, 65535, 65536, 0x00ffffff, 0x0bebc200, 0x3fffffff}
	hostile := func() []byte {
		if rng.Intn(3) == 0 {
			// text a lexer trips over: quotes, comments and dollar quotes that never close, markers at the
			// very end, escapes before the end
			return []byte(core.Pick(rng, []string{"SELECT '", "'", "\"", "SELECT \"col", "x = 'it''s", "/*", "/* /* */", "--", "$$", "$tag$ body", "$", "$1 '", "? \"", "E'\\", "'\\'", "SELECT $1 /*", "a -- ' \n '", "''''", "$9999999999999999999999 '", "U&'\\", "?'", "$1\"", "';", "\";"}))
		}
		// bytes no text is made of: continuation bytes without a lead byte, lead bytes without continuation,
		// overlong and surrogate encodings - in lengths around what a log line or a fixed buffer may hold
		pat := core.Pick(rng, [][]byte{{0x80}, {0xbf}, {0xaa}, {0xc0}, {0xff}, {0xe2, 0x82}, {0xf4, 0x90}, {0xed, 0xa0, 0x80}, {0xc0, 0xaf}})
		n := core.Pick(rng, []int{1, 2, 3, 63, 64, 65, 255, 256, 257, 511, 512, 513, 514, 600, 1023, 1025, 4097})
		return bytes.Repeat(pat, n/len(pat)+1)[:n]
	}
	switch k := rng.Intn(15); k {
	case 13, 14: // a text field of a well-framed message replaced by hostile bytes; the frame stays well-formed
		hdr := 5
		if i == 0 || (len(m) >= 8 && m[0] == 0) {
			hdr = 8
		}
		var runs [][2]int
		for a := hdr; a < len(m); {
			b := a
			for b < len(m) && m[b] != 0 {
				b++
			}
			if b < len(m) && b > a {
				runs = append(runs, [2]int{a, b})
			}
			a = b + 1
		}
		if len(runs) == 0 {
			return out, "hostile-text(no text)"
		}
		r := core.Pick(rng, runs)
		nm := append(append(append([]byte(nil), m[:r[0]]...), hostile()...), m[r[1]:]...)
		if hdr == 8 {
			binary.BigEndian.PutUint32(nm, uint32(len(nm)))
		} else {
			binary.BigEndian.PutUint32(nm[1:], uint32(len(nm)-1))
		}
		out[i] = nm
		return out, "hostile-text"
	case 11, 12: // a well-framed Bind whose three counts are independent of each other (fewer / more format codes than values)
		nf, nv, nr := rng.Intn(6), rng.Intn(6), rng.Intn(6)
		pf, rf := make([]int16, nf), make([]int16, nr)
		for j := range pf {
			pf[j] = int16(rng.Intn(2))
		}
		for j := range rf {
			rf[j] = int16(rng.Intn(2))
		}
		params := make([][]byte, nv)
		for j := range params {
			if rng.Intn(5) > 0 {
				params[j] = []byte(fmt.Sprint(rng.Intn(100000)))
				if rng.Intn(5) == 0 {
					params[j] = hostile()
				}
			}
		}
		portal, stmt := core.Pick(rng, []string{"", "p"}), core.Pick(rng, []string{"", "s", "b", "nosuch"})
		negative := nv > 0 && rng.Intn(4) == 0
		if negative {
			params[0] = []byte{}
		}
		b := pg.Bind(portal, stmt, pf, params, rf)
		neg := ""
		if negative {
			// the length word of the first value is negative and not -1 (-2, -3, -65536, the smallest int32):
			// no value has such a length, and NULL is spelled -1
			off := 5 + len(portal) + 1 + len(stmt) + 1 + 2 + 2*nf + 2
			if off+4 <= len(b) {
				binary.BigEndian.PutUint32(b[off:], core.Pick(rng, []uint32{0xfffffffe, 0xfffffffd, 0xffff0000, 0x80000000, 0x80000001}))
				neg = ",negative-length"
			}
		}
		if k == 11 {
			out[i] = b
		} else {
			out = append(out[:i+1], append([][]byte{b, pg.Execute("", 0), pg.Sync()}, out[i+1:]...)...)
		}
		return out, fmt.Sprintf("bind-counts(%d,%d,%d%s)", nf, nv, nr, neg)
	case 0: // truncate the stream after a random offset inside message i
		if len(m) > 1 {
			out[i] = m[:1+rng.Intn(len(m)-1)]
		}
		return out[:i+1], fmt.Sprintf("truncate@%d", i)
	case 1: // declared length
		off := 1
		if i == 0 || (len(m) >= 8 && m[0] == 0) {
			off = 0
		}
		if len(m) >= off+4 {
			binary.BigEndian.PutUint32(m[off:], core.Pick(rng, vals))
		}
		return out, "length"
	case 2: // any aligned 16-bit field
		if len(m) > 7 {
			p := 5 + rng.Intn(len(m)-6)
			binary.BigEndian.PutUint16(m[p:], uint16(core.Pick(rng, vals)))
		}
		return out, "u16"
	case 3: // any 32-bit field
		if len(m) > 9 {
			p := 5 + rng.Intn(len(m)-8)
			binary.BigEndian.PutUint32(m[p:], core.Pick(rng, vals))
		}
		return out, "u32"
	case 4: // type byte
		if len(m) > 0 {
			m[0] = core.Pick(rng, []byte("QPBDECHSXdcfp\x00\xffRZ1"))
		}
		return out, "type"
	case 5: // duplicate
		out = append(out[:i+1], append([][]byte{append([]byte(nil), m...)}, out[i+1:]...)...)
		return out, "dup"
	case 6: // swap
		j := rng.Intn(len(out))
		out[i], out[j] = out[j], out[i]
		return out, "swap"
	case 7: // delete
		if len(out) > 1 {
			out = append(out[:i], out[i+1:]...)
		}
		return out, "delete"
	case 8: // splice random bytes
		out = append(out[:i+1], append([][]byte{rng.Bytes(1 + rng.Intn(40))}, out[i+1:]...)...)
		return out, "garbage"
	case 9: // flip a random byte
		if len(m) > 0 {
			m[rng.Intn(len(m))] ^= byte(1 << rng.Intn(8))
		}
		return out, "bitflip"
	default: // remove NUL terminators
		out[i] = bytes.ReplaceAll(m, []byte{0}, []byte{'~'})
		return out, "nonul"
	}
}

// fabrication: data reaching callbacks must be derivable from well-framed input.
// fabrication: only well-framed input may reach callbacks. A first packet carrying the GSSENCRequest code
// is framed in the two ways a server may take it - a negotiation packet answered with one byte, after which
// the start-up packet follows (as for SSLRequest), or a start-up packet of a protocol version the server
// does not tell from any other (what this library does: it has no GSS support and checks no version) -
// and what reached the callbacks has to be explained by one of them.
func (ch c04) fabrication(c *core.Ctx, stream []byte, conn *tr.Conn, cs any) {
	c.Count("fabrication_checks", 1)
	sig, detail := ch.fabricationWith(stream, conn, cs, false)
	if sig != "" && len(stream) >= 8 && binary.BigEndian.Uint32(stream[4:8]) == pg.VerGSSENC {
		sig, detail = ch.fabricationWith(stream, conn, cs, true)
	}
	if sig != "" {
		c.Violate("fabricated", sig, detail, cs)
	}
}

func (ch c04) fabricationWith(stream []byte, conn *tr.Conn, cs any, gssIsStartup bool) (sig, detail string) {
	// frame walk (after the optional SSLRequest and the startup packet)
	off := 0
	untyped := func() (int, bool) {
		if len(stream)-off < 4 {
			return 0, false
		}
		l := int(binary.BigEndian.Uint32(stream[off:]))
		if l < 8 || l > c04L+4 || off+l > len(stream) {
			return 0, false
		}
		return l, true
	}
	startupOK := false
	if l, ok := untyped(); ok {
		if code := binary.BigEndian.Uint32(stream[off+4:]); code == pg.VerSSL || code == pg.VerGSSENC && !gssIsStartup {
			// an SSLRequest / GSSENCRequest code (whatever the packet's declared length): answered with N,
			// the start-up packet follows
			off += l
			if l2, ok2 := untyped(); ok2 {
				startupOK = true
				off += l2
			}
		} else {
			startupOK = true
			off += l
		}
	}
	var cands []string
	judge := startupOK
	for judge && off+5 <= len(stream) {
		t := stream[off]
		dl := binary.BigEndian.Uint32(stream[off+1:])
		if dl < 4 {
			judge = false // below-minimum length: the rest of the input is not judged
			break
		}
		end := off + 1 + int(dl)
		if dl > 1<<31 || end > len(stream) || end < 0 {
			break // incomplete frame: nothing of it may be used
		}
		body := stream[off+5 : end]
		if int(dl)-4 <= c04L {
			switch t {
			case 'Q':
				if p := bytes.IndexByte(body, 0); p >= 0 {
					cands = append(cands, string(body[:p]))
				}
			case 'P':
				if p := bytes.IndexByte(body, 0); p >= 0 {
					if q := bytes.IndexByte(body[p+1:], 0); q >= 0 {
						cands = append(cands, string(body[p+1:p+1+q]))
					}
				}
			}
		}
		off = end
	}
	ci := 0
	for _, e := range conn.Events() {
		if e.Kind != "cb" {
			continue
		}
		switch e.Name {
		case "parse":
			q := e.Data.(hs.ParseRec).Query
			if !startupOK {
				return "parser invoked although the startup packet is truncated or invalid", fmt.Sprintf("query %q", trim(q, 80))
			}
			if !judge {
				continue
			}
			found := false
			for ci < len(cands) {
				ci++
				if cands[ci-1] == q {
					found = true
					break
				}
			}
			if !found {
				return "parser received a query text that no well-framed Query/Parse frame of the input carries (in order)", fmt.Sprintf("query %q; candidates %q", trim(q, 80), cands)
			}
		case "exec":
			for _, p := range e.Data.(hs.ExecRec).Params {
				if p != nil && !bytes.Contains(stream, p) {
					return "statement received a parameter value that is not part of the input", hexs(p)
				}
				if p == nil && !bytes.Contains(stream, []byte{0xff, 0xff, 0xff, 0xff}) {
					// NULL is spelled by the length word -1: a stream without one has no NULL parameter in it
					return "statement received a NULL parameter although the input has no length word -1 in it", ""
				}
			}
		case "copyread":
			r := e.Data.(hs.CopyRec)
			if m, _ := cs.(map[string]any); r.ErrNil && r.Row != nil && m != nil && m["session"] == "copy-binary-copydone-inside-the-first-row" {
				return "the binary row reader returned a row although the stream was ended (CopyDone) inside its first row", fmt.Sprintf("row %v", r.Row)
			}
			if r.ErrNil && r.Chunk != nil && !bytes.Contains(stream, r.Chunk) {
				return "COPY handler received a chunk that is not part of the input", hexs(r.Chunk)
			}
		}
	}
	return "", ""
}
