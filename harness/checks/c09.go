package checks

import (
	"bytes"
	"context"
	"fmt"
	"github.com/jackc/pgx/v5/pgtype"
	"math"
	"strings"
	"time"

	wire "github.com/jeroenrinzema/psql-wire"
	"github.com/lib/pq/oid"

	"verifharness/core"
	"verifharness/hs"
	"verifharness/pg"
)

// C09 - Row values round-trip to the client and NULL stays NULL.

type c09 struct{ base }

func init() {
	core.Register(c09{base{id: "C09", level: "exploration", quickB: 16, thoroughB: 32,
		rule:        "tables of 1-8 columns over {bool,int2,int4,int8,float4,float8,text,varchar,bpchar,name,bytea,uuid,oid,date,timestamp,timestamptz,json,jsonb} (+int4[],text[] in thorough), 1-6 rows of generated values incl. boundary values (min/max ints, +-0, +-Inf, NaN, subnormals, empty string/bytes, 4-byte UTF-8, years 1/9999) with NULLs (untyped nil, typed nil pointer, invalid pgtype value, sql.Null*, nil []byte for bytea) at random positions; fetched by simple Query (text) and by Bind/Execute with result-format vectors of 0, 1 or n codes over {text,binary}; each DataRow field is decoded by the harness's own decoder in the announced format and compared with the value written (floats bit-exact, NaN by class). Non-trivial = a row holding a NULL form other than untyped nil, a boundary value or a binary-format column; distinct = (column types, formats, NULL-form placement).",
		need:        []string{"rows_compared", "fields_compared", "null_fields", "typed_null_forms", "binary_fields", "empty_nonnull_fields"},
		assumptions: append([]string{"values are produced as the column's native Go type; a nil []byte is only used as NULL for bytea (for text it is the empty string by pgtype's own convention)"}, commonAssumptions...)}})
}

type c09table struct {
	OIDs  []uint32
	Rows  [][]any
	Forms [][]string // "" for a value, else the NULL form
	RFmts []int16
	Mode  string // simple | extended
}

func (t c09table) sig() string {
	var sb strings.Builder
	if len(t.OIDs) > 2000 {
		return fmt.Sprintf("%s %d bool columns %v rows=%d", t.Mode, len(t.OIDs), t.RFmts, len(t.Rows))
	}
	fmt.Fprintf(&sb, "%s %v %v|", t.Mode, t.OIDs, t.RFmts)
	for _, r := range t.Forms {
		for _, f := range r {
			if f == "" {
				sb.WriteByte('v')
			} else {
				sb.WriteString("[" + f + "]")
			}
		}
		sb.WriteByte('/')
	}
	return sb.String()
}

func c09gen(rng *core.Rng, arrays bool) c09table {
	t := c09table{}
	n := 1 + rng.Intn(8)
	if rng.Intn(40) == 0 {
		n = core.Pick(rng, []int{64, 255, 256, 1000, 1600}) // very wide rows
	}
	huge := rng.Intn(400) == 0
	if huge {
		n = core.Pick(rng, []int{32767, 32768, 40000, 65535}) // the 16-bit field count is unsigned
	}
	pool := scalarOIDs
	if arrays {
		pool = append(append([]uint32{}, scalarOIDs...), arrayOIDs...)
	}
	for i := 0; i < n; i++ {
		if huge {
			t.OIDs = append(t.OIDs, pg.OIDBool)
			continue
		}
		t.OIDs = append(t.OIDs, core.Pick(rng, pool))
	}
	nullPct := core.Pick(rng, []int{0, 10, 30, 60, 100})
	nrows := 1 + rng.Intn(6)
	if rng.Intn(25) == 0 {
		nrows = 0 // a result without rows
	}
	if huge {
		nrows = 1
	}
	for r := nrows; r > 0; r-- {
		row := make([]any, n)
		forms := make([]string, n)
		for i, o := range t.OIDs {
			if rng.Intn(100) < nullPct {
				row[i], forms[i] = nullForm(rng, o)
			} else {
				row[i] = genValue(rng, o)
				// a handler may hand over a Go integer narrower than the column (an int16 or int32 counter
				// in an int8 column): the number written is the number sent
				if (o == pg.OIDInt8 || o == pg.OIDInt4) && rng.Intn(4) == 0 {
					if o == pg.OIDInt8 && rng.Bool() {
						row[i] = core.Pick(rng, []int32{-1, -7, math.MinInt32, int32(rng.U64()), -int32(rng.Intn(1 << 20))})
					} else {
						row[i] = core.Pick(rng, []int16{-1, -7, math.MinInt16, int16(rng.U64()), -int16(rng.Intn(1 << 10))})
					}
				}
			}
		}
		t.Rows = append(t.Rows, row)
		t.Forms = append(t.Forms, forms)
	}
	if rng.Intn(3) == 0 {
		t.Mode = "simple"
	} else {
		t.Mode = "extended"
		shape := rng.Intn(5)
		if huge && shape > 1 {
			shape = 1 // a positional format vector for 40000 columns would exceed the harness servers' message limit
		}
		switch shape {
		case 0:
		case 1:
			t.RFmts = []int16{int16(rng.Intn(2))}
		case 4:
			// more than one code but fewer (or more) than columns: the protocol rule does not say which
			// format the uncovered columns get, but the announced one must still be the one used
			k := 2 + rng.Intn(len(t.OIDs)+2)
			for j := 0; j < k; j++ {
				t.RFmts = append(t.RFmts, int16(rng.Intn(2)))
			}
			if rng.Bool() {
				t.RFmts[0] = 1
			}
		default:
			for range t.OIDs {
				t.RFmts = append(t.RFmts, int16(rng.Intn(2)))
			}
		}
	}
	return t
}

func fmtFor(rfmts []int16, i int) int16 {
	switch len(rfmts) {
	case 0:
		return 0
	case 1:
		return rfmts[0]
	}
	if i >= len(rfmts) {
		return rfmts[0]
	}
	return rfmts[i]
}

// c09shout: an int4 codec one connection installs on its own type map (a tenant's output style); values
// it encodes carry a mark.
type c09shout struct{ pgtype.Int4Codec }

type c09shoutPlan struct{ inner pgtype.EncodePlan }

func (c c09shout) PlanEncode(m *pgtype.Map, oid uint32, format int16, value any) pgtype.EncodePlan {
	if inner := c.Int4Codec.PlanEncode(m, oid, format, value); inner != nil {
		return c09shoutPlan{inner}
	}
	return nil
}

func (p c09shoutPlan) Encode(value any, buf []byte) ([]byte, error) {
	out, err := p.inner.Encode(value, buf)
	if err == nil && out != nil {
		out = append(out, " [per-connection style]"...)
	}
	return out, err
}

// ownTypeMaps: connections of user "styled" register c09shout for int4 on the type map of their own
// connection (session middleware); every other connection, before and after, gets its integers as written.
func (ch c09) ownTypeMaps(c *core.Ctx) {
	env := hs.Start(hs.Parse, wire.SessionMiddleware(func(ctx context.Context) (context.Context, error) {
		if m := wire.TypeMap(ctx); m != nil && wire.AuthenticatedUsername(ctx) == "styled" {
			m.RegisterType(&pgtype.Type{Name: "int4", OID: pgtype.Int4OID, Codec: c09shout{}})
		}
		return ctx, nil
	}))
	defer env.Stop()
	prog := &hs.Prog{Stmts: []*hs.Stmt{{ID: "own", Cols: wire.Columns{{Name: "n", Oid: oid.T_int4, Width: 4}}, Ops: []hs.Op{{K: "row", Vals: []any{int32(42)}}, {K: "complete", Tag: "SELECT 1"}}}}}
	for round := 0; round < 12; round++ {
		for _, user := range []string{"plain", "styled", "plain", "plain"} {
			cl := hs.NewClient(env.Dial(&hs.Sess{Default: func(string) *hs.Prog { return prog }}))
			if err := cl.StartupOK(user); err != nil {
				c.Violate("startup", "startup failed", err.Error(), nil)
				return
			}
			out, _ := cl.Step(pg.Query("own"))
			cl.Finish()
			want := "42"
			if user == "styled" {
				want += " [per-connection style]"
			}
			msgs := mustMsgs(out)
			c.Count("connections_with_their_own_type_map", 1)
			c.Eval("own type map "+user, true)
			if pg.Types(msgs) != "TDCZ" || string(msgs[1].Fields[0]) != want {
				got := "?"
				if len(msgs) > 1 && len(msgs[1].Fields) > 0 {
					got = string(msgs[1].Fields[0])
				}
				c.Violate("value", "a connection's values are encoded with a codec another connection installed on its own type map", fmt.Sprintf("round %d user %s: reply %s, field %q want %q", round, user, pg.Types(msgs), got, want), map[string]any{"workload": "per-connection type maps"})
				return
			}
		}
	}
}

func (ch c09) Run(c *core.Ctx) {
	if c.Batch%4 == 1 && c.Begin(80000000) {
		ch.ownTypeMaps(c)
	}
	env := hs.Start(hs.Parse)
	defer env.Stop()
	n := 6000
	if c.Tier == "thorough" {
		n = 60000
	}
	var cl *hs.Client
	var sess *hs.Sess
	uses := 0
	for i := 0; i < n; i++ {
		if !c.Begin(i) || c.NViol() >= 10 {
			continue
		}
		rng := core.NewRng(c.Seed, "C09", c.Batch, i)
		t := c09gen(rng, c.Tier == "thorough")
		if cl == nil || uses > 100 {
			if cl != nil {
				cl.Finish()
			}
			sess = &hs.Sess{Progs: map[string]*hs.Prog{}}
			cl = hs.NewClient(env.Dial(sess))
			if err := cl.StartupOK("u"); err != nil {
				c.Violate("startup", "startup failed", err.Error(), nil)
				return
			}
			uses = 0
		}
		uses++
		cols := wire.Columns{}
		for j, o := range t.OIDs {
			cols = append(cols, wire.Column{Name: fmt.Sprintf("c%d", j), Oid: oid.Oid(o), Width: -1})
		}
		st := &hs.Stmt{ID: fmt.Sprintf("t%d", i), Cols: cols}
		if t.Mode == "simple" && i%3 == 0 && len(cols) > 0 {
			st.Cols, st.Define = nil, cols // announced by the handler through DataWriter.Define
			c.Count("handler_defined_tables", 1)
		}
		for ri, r := range t.Rows {
			if (i+ri)%4 == 0 {
				// a row that fails half-way (unencodable value in a random column) or has the wrong
				// arity is rejected; the rows written after it must arrive intact
				bad := append([]any{}, r...)
				if len(bad) > 0 && ri%2 == 0 {
					bad[(i+ri)%len(bad)] = make(chan int) // no codec (not even json) can encode a channel
				} else {
					bad = append(bad, "surplus")
				}
				st.Ops = append(st.Ops, hs.Op{K: "badrow", Vals: bad})
				c.Count("rejected_rows_interleaved", 1)
			}
			st.Ops = append(st.Ops, hs.Op{K: "row", Vals: r})
		}
		st.Ops = append(st.Ops, hs.Op{K: "complete", Tag: fmt.Sprintf("SELECT %d", len(t.Rows))})
		if i%7 == 3 || i%7 == 4 {
			// the handler scans each source row into one set of destination variables and hands the
			// same slice of pointers to Row every time
			st.ScanRow = true
			c.Count("tables_written_from_scan_destinations", 1)
		}
		q := fmt.Sprintf("T%d", i)
		sess.Progs[q] = &hs.Prog{Stmts: []*hs.Stmt{st}}
		var in []byte
		limit := uint32(0)
		if t.Mode == "simple" {
			in = pg.Query(q)
		} else {
			in = append(in, pg.Parse("", q, nil)...)
			in = append(in, pg.Bind("", "", nil, nil, t.RFmts)...)
			in = append(in, pg.Describe('P', "")...)
			if i%3 == 0 {
				// another portal of the same statement with the opposite format codes, bound
				// before the first one is executed: the announced formats must still hold
				other := make([]int16, len(t.OIDs))
				for j := range other {
					other[j] = 1 - fmtFor(t.RFmts, j)
				}
				if len(other) > 2000 {
					other = other[:1] // keep the Bind below the harness servers' message limit
				}
				in = append(in, pg.Bind("other", "", nil, nil, other)...)
				c.Count("interleaved_second_portal", 1)
			}
			if i%4 == 1 {
				// the unnamed statement is parsed again (another query, other columns) while the portal
				// bound and described above is still to be executed: its rows must match its description
				sess.Progs["other-table"] = &hs.Prog{Stmts: []*hs.Stmt{{ID: "other", Cols: wire.Columns{{Name: "o1", Oid: oid.T_int4, Width: 4}, {Name: "o2", Oid: oid.T_int4, Width: 4}},
					Ops: []hs.Op{{K: "row", Vals: []any{int32(1), int32(2)}}, {K: "complete", Tag: "SELECT 1"}}}}}
				in = append(in, pg.Parse("", "other-table", nil)...)
				c.Count("reparse_before_execute", 1)
			}
			if i%5 == 2 && len(t.Rows) >= 2 {
				// a row limit below the number of rows: a server that ignores the limit sends everything,
				// one that honours it suspends the portal and sends the rest on further Executes - either
				// way the DataRows, put together, are the rows written (the handler re-uses its row slice)
				st.ReuseRow = true
				limit = uint32(1 + i%(len(t.Rows)-1))
				c.Count("executes_with_row_limit", 1)
			}
			in = append(in, pg.Execute("", limit)...)
			if limit == 0 {
				in = append(in, pg.Sync()...)
			} else {
				in = append(in, pg.Flush()...)
			}
		}
		evStart := len(cl.C.Events())
		out, closed := cl.Step(in)
		for n := 0; limit > 0 && !closed; n++ {
			k := pg.Types(mustMsgs(out))
			if !strings.HasSuffix(k, "s") || n > len(t.Rows)+2 {
				more, cl2 := cl.Step(pg.Sync())
				out, closed = append(out, more...), cl2
				break
			}
			more, cl2 := cl.Step(append(pg.Execute("", limit), pg.Flush()...))
			out, closed = append(out, more...), cl2
		}
		delete(sess.Progs, q)
		if hangCheck(c, cl, nil) {
			return
		}
		if !ch.judge(c, t, out, closed, cl.C.Events()[evStart:], i) {
			cl = nil
		}
		if i%12 == 5 {
			ch.mixed(c, env, core.NewRng(c.Seed, "C09m", c.Batch, i), i)
		}
		if i%12 == 9 {
			ch.twice(c, env, core.NewRng(c.Seed, "C09t", c.Batch, i), i)
		}
		if i == 30 && c.Batch%4 == 2 {
			ch.closeDuring(c, core.NewRng(c.Seed, "C09close", c.Batch, i))
		}
		if i%10 == 7 && limit == 0 && !st.ScanRow {
			// the same table on two fresh connections, the second with a peer that reads slowly: one of
			// the transport Writes of the reply, and the one or two after it, take half of their bytes and
			// report a timeout. Whether the server gives up or resumes, what has arrived is the head of what
			// arrives undisturbed - rows included
			sess2 := &hs.Sess{Progs: map[string]*hs.Prog{q: {Stmts: []*hs.Stmt{st}}}}
			if p := sess.Progs["other-table"]; p != nil {
				sess2.Progs["other-table"] = p
			}
			var outs [2][]byte
			writes := 0
			for v := 0; v < 2; v++ {
				c2 := hs.NewClient(env.Dial(sess2))
				if err := c2.StartupOK("u"); err != nil {
					c.Violate("startup", "startup failed", err.Error(), nil)
					return
				}
				w0 := c2.C.Stats().Writes
				if v == 1 {
					c2.C.InterruptWrites(1+rng.Intn(writes), 1+rng.Intn(2))
				}
				outs[v], _ = c2.Step(in)
				writes = max(1, c2.C.Stats().Writes-w0)
				if hangCheck(c, c2, nil) {
					return
				}
				c2.C.Close()
			}
			c.Count("tables_sent_to_a_slow_reader", 1)
			if !bytes.HasPrefix(outs[0], outs[1]) {
				d := 0
				for d < len(outs[0]) && d < len(outs[1]) && outs[0][d] == outs[1][d] {
					d++
				}
				c.Violate("interrupted", "after interrupted writes the client holds bytes the undisturbed reply does not start with", fmt.Sprintf("%s: the replies differ at byte %d of %d / %d; undisturbed %s, interrupted %s", t.sig(), d, len(outs[0]), len(outs[1]), hexs(outs[0][d:min(len(outs[0]), d+40)]), hexs(outs[1][d:min(len(outs[1]), d+40)])), map[string]any{"table": t.sig()})
			} else if len(outs[1]) < len(outs[0]) {
				c.Count("replies_cut_short_by_the_slow_reader", 1)
			}
		}
	}
	if cl != nil {
		cl.Finish()
	}
}

// closeDuring: Server.Close is called (by another goroutine of the embedding program) while a statement is
// in the middle of a long result. Close waits for the statement; every row it writes arrives as written
// (whatever the server may tell the client about the shutdown goes between messages, not into them).
func (ch c09) closeDuring(c *core.Ctx, rng *core.Rng) {
	env := hs.Start(hs.Parse)
	t := c09gen(rng, false)
	for len(t.OIDs) == 0 || len(t.OIDs) > 60 || len(t.Rows) == 0 {
		t = c09gen(rng, false)
	}
	for len(t.Rows) < 1500 {
		k := rng.Intn(len(t.Rows))
		t.Rows, t.Forms = append(t.Rows, t.Rows[k]), append(t.Forms, t.Forms[k])
	}
	t.Mode = "simple"
	t.RFmts = nil
	cols := wire.Columns{}
	for j, o := range t.OIDs {
		cols = append(cols, wire.Column{Name: fmt.Sprintf("c%d", j), Oid: oid.Oid(o), Width: -1})
	}
	st := &hs.Stmt{ID: "closing", Cols: cols}
	closed := make(chan struct{})
	for i, r := range t.Rows {
		if i == 20 {
			st.Ops = append(st.Ops, hs.Op{K: "call", Fn: func() { go func() { env.Srv.Close(); close(closed) }() }})
		}
		if i > 20 && i%100 == 0 {
			st.Ops = append(st.Ops, hs.Op{K: "call", Fn: func() { time.Sleep(time.Millisecond) }})
		}
		st.Ops = append(st.Ops, hs.Op{K: "row", Vals: r})
	}
	st.Ops = append(st.Ops, hs.Op{K: "complete", Tag: fmt.Sprintf("SELECT %d", len(t.Rows))})
	sess := &hs.Sess{Progs: map[string]*hs.Prog{"closing-table": {Stmts: []*hs.Stmt{st}}}}
	cl := hs.NewClient(env.Dial(sess))
	if err := cl.StartupOK("u"); err != nil {
		env.Stop()
		return
	}
	evStart := cl.C.NEvents()
	out, _ := cl.Step(pg.Query("closing-table"))
	if hangCheck(c, cl, nil) {
		return
	}
	c.Count("long_results_during_which_the_server_is_closed", 1)
	ch.judge(c, t, out, false, cl.C.EventsFrom(evStart), 0)
	cl.C.CloseWrite()
	cl.C.WaitClosed()
	select {
	case <-closed:
	case <-time.After(30 * time.Second):
		c.Inconclusive("C09 close-during-result part: Close did not return")
	}
	<-env.ServeErr
}

// twice: one prepared statement, parsed once, is bound and executed a second and a third time with other
// result format codes (every column the other way round; then the first vector again under the first portal's
// name): each time the DataRows are encoded the way that Bind asked for and its Describe announced.
func (ch c09) twice(c *core.Ctx, env *hs.Env, rng *core.Rng, idx int) {
	t := c09gen(rng, false)
	if len(t.OIDs) == 0 || len(t.OIDs) > 200 {
		return
	}
	cols := wire.Columns{}
	for j, o := range t.OIDs {
		cols = append(cols, wire.Column{Name: fmt.Sprintf("c%d", j), Oid: oid.Oid(o), Width: -1})
	}
	st := &hs.Stmt{ID: fmt.Sprintf("t%d", idx), Cols: cols}
	for _, r := range t.Rows {
		st.Ops = append(st.Ops, hs.Op{K: "row", Vals: r})
	}
	st.Ops = append(st.Ops, hs.Op{K: "complete", Tag: fmt.Sprintf("SELECT %d", len(t.Rows))})
	sess := &hs.Sess{Progs: map[string]*hs.Prog{"twice-table": {Stmts: []*hs.Stmt{st}}}}
	cl := hs.NewClient(env.Dial(sess))
	if err := cl.StartupOK("u"); err != nil {
		c.Violate("startup", "startup failed", err.Error(), nil)
		return
	}
	defer cl.Finish()
	if out, _ := cl.Step(append(pg.Parse("s", "twice-table", nil), pg.Sync()...)); pg.Types(mustMsgs(out)) != "1Z" {
		return
	}
	other := make([]int16, len(t.OIDs))
	for j := range other {
		other[j] = 1 - fmtFor(t.RFmts, j)
	}
	first := t.RFmts
	for n, v := range []struct {
		portal string
		fmts   []int16
	}{{"p1", first}, {"p2", other}, {"p1", other}, {"", first}} {
		evStart := cl.C.NEvents()
		in := append(append(pg.Bind(v.portal, "s", nil, nil, v.fmts), pg.Describe('P', v.portal)...), pg.Execute(v.portal, 0)...)
		out, closed := cl.Step(append(in, pg.Sync()...))
		if hangCheck(c, cl, nil) {
			return
		}
		if k := pg.Types(mustMsgs(out)); n == 0 && !strings.HasPrefix(k, "2T") {
			return // a format vector the server does not take: judged elsewhere
		}
		t.RFmts = v.fmts
		c.Count("executions_of_one_statement_under_changing_result_formats", 1)
		if !ch.judge(c, t, out, closed, cl.C.EventsFrom(evStart), idx) {
			return
		}
	}
}

// mixed: the unnamed portal is bound and described, then a simple Query served by another statement
// runs, then the portal is executed. The simple Query may have destroyed the unnamed portal (an error is
// then the answer); if it still executes, its rows are the rows of its own statement in the described
// format.
func (ch c09) mixed(c *core.Ctx, env *hs.Env, rng *core.Rng, idx int) {
	t := c09gen(rng, false)
	if len(t.OIDs) == 0 || len(t.OIDs) > 200 {
		return
	}
	cols := wire.Columns{}
	for j, o := range t.OIDs {
		cols = append(cols, wire.Column{Name: fmt.Sprintf("c%d", j), Oid: oid.Oid(o), Width: -1})
	}
	st := &hs.Stmt{ID: fmt.Sprintf("m%d", idx), Cols: cols}
	for _, r := range t.Rows {
		st.Ops = append(st.Ops, hs.Op{K: "row", Vals: r})
	}
	st.Ops = append(st.Ops, hs.Op{K: "complete", Tag: fmt.Sprintf("SELECT %d", len(t.Rows))})
	other := &hs.Stmt{ID: "other", Cols: wire.Columns{{Name: "o", Oid: oid.T_text, Width: -1}}, Ops: []hs.Op{{K: "row", Vals: []any{"other"}}, {K: "complete", Tag: "SELECT 1"}}}
	sess := &hs.Sess{Progs: map[string]*hs.Prog{"mixed-table": {Stmts: []*hs.Stmt{st}}, "other-table": {Stmts: []*hs.Stmt{other}}}}
	cl := hs.NewClient(env.Dial(sess))
	if err := cl.StartupOK("u"); err != nil {
		c.Violate("startup", "startup failed", err.Error(), nil)
		return
	}
	defer cl.Finish()
	cs := map[string]any{"table": t.sig(), "workload": "simple query between Describe and Execute of the unnamed portal"}
	out1, _ := cl.Step(append(append(append(pg.Parse("", "mixed-table", nil), pg.Bind("", "", nil, nil, t.RFmts)...), pg.Describe('P', "")...), pg.Sync()...))
	if k := pg.Types(mustMsgs(out1)); k != "12TZ" {
		return // a format vector the server does not take: judged elsewhere
	}
	if out2, _ := cl.Step(pg.Query("other-table")); pg.Types(mustMsgs(out2)) != "TDCZ" {
		c.Violate("mixed", "simple query between Describe and Execute of a portal not answered T D C Z", replyKinds(out2), cs)
		return
	}
	evStart := len(cl.C.Events())
	out3, closed := cl.Step(append(pg.Execute("", 0), pg.Sync()...))
	if hangCheck(c, cl, cs) {
		return
	}
	c.Count("portals_executed_after_a_simple_query", 1)
	if k := pg.Types(mustMsgs(out3)); k == "EZ" {
		c.Count("unnamed_portal_gone_after_a_simple_query", 1)
		return
	}
	ch.judge(c, t, append(append([]byte{}, out1[10:len(out1)-6]...), out3...), closed, cl.C.Events()[evStart:], idx+1000000)
}

func (ch c09) judge(c *core.Ctx, t c09table, out []byte, closed bool, evs []trEvent, idx int) bool {
	cs := map[string]any{"table": t.sig()}
	viol := func(rule, sig, detail string) bool {
		c.Violate(rule, sig, fmt.Sprintf("table %s: %s; reply %s", trim(t.sig(), 300), detail, trim(replyKinds(out), 300)), cs)
		return false
	}
	nontrivial := false
	msgs, err := parseAll(out)
	if err != nil || closed {
		return viol("grammar", "reply not well-formed", fmt.Sprint(err, " closed=", closed))
	}
	// every row operation must have succeeded
	for _, e := range evs {
		if e.Kind == "cb" && e.Name == "op" {
			r := e.Data.(hs.OpRes)
			if r.K == "badrow" {
				if r.ErrNil {
					return viol("bad-row-accepted", "an unencodable / wrong-arity row was accepted", fmt.Sprintf("op %d", r.Idx))
				}
				continue
			}
			if !r.ErrNil {
				return viol("row-rejected", fmt.Sprintf("row rejected by the writer: %s", normErr(r.Err)), fmt.Sprintf("op %d: %s", r.Idx, r.Err))
			}
		}
	}
	var desc *pg.BMsg
	var rows []pg.BMsg
	for i := range msgs {
		switch msgs[i].T {
		case 'T':
			desc = &msgs[i]
		case 'D':
			rows = append(rows, msgs[i])
		case 'E':
			return viol("error", "unexpected ErrorResponse", fmt.Sprint(msgs[i].Err))
		}
	}
	if desc == nil || len(desc.Cols) != len(t.OIDs) {
		return viol("rowdesc", "RowDescription missing or wrong column count", "")
	}
	if len(rows) != len(t.Rows) {
		return viol("rowcount", "number of DataRows differs from rows written", fmt.Sprintf("%d DataRows for %d rows", len(rows), len(t.Rows)))
	}
	for j, cd := range desc.Cols {
		want := fmtFor(t.RFmts, j)
		if len(t.RFmts) > 1 && len(t.RFmts) != len(t.OIDs) {
			want = cd.Format // partial / surplus vector: only "announced = used" is judged
			c.Count("partial_format_vectors", 1)
		}
		if cd.Format != want {
			return viol("format", "announced format code differs from the result-format rule", fmt.Sprintf("column %d announced %d want %d", j, cd.Format, want))
		}
		if cd.OID != t.OIDs[j] {
			return viol("rowdesc", "column type oid differs", fmt.Sprintf("column %d oid %d want %d", j, cd.OID, t.OIDs[j]))
		}
		if want == 1 {
			nontrivial = true
		}
	}
	for ri, r := range rows {
		if len(r.Fields) != len(desc.Cols) {
			return viol("fieldcount", "DataRow field count differs from RowDescription", fmt.Sprintf("row %d has %d fields, %d columns", ri, len(r.Fields), len(desc.Cols)))
		}
		c.Count("rows_compared", 1)
		for j, f := range r.Fields {
			c.Count("fields_compared", 1)
			format := desc.Cols[j].Format
			form := t.Forms[ri][j]
			typ := fmt.Sprintf("oid=%d fmt=%d", t.OIDs[j], format)
			if form != "" {
				c.Count("null_fields", 1)
				if form != "untyped-nil" {
					c.Count("typed_null_forms", 1)
					nontrivial = true
				}
				if f != nil {
					return viol("null", fmt.Sprintf("NULL (%s) sent as a %d-byte value", form, len(f)), fmt.Sprintf("row %d column %d (%s): NULL form %s arrived as length %d %q", ri, j, typ, form, len(f), f))
				}
				continue
			}
			if f == nil {
				return viol("null", "non-NULL value sent as NULL", fmt.Sprintf("row %d column %d (%s): value %v arrived as NULL", ri, j, typ, t.Rows[ri][j]))
			}
			if len(f) == 0 {
				c.Count("empty_nonnull_fields", 1)
			}
			if format == 1 {
				c.Count("binary_fields", 1)
			}
			got, derr := pg.Decode(t.OIDs[j], format, f)
			want := pg.Canon(t.OIDs[j], t.Rows[ri][j])
			if derr != nil {
				return viol("decode", fmt.Sprintf("field not decodable (%s)", typ), fmt.Sprintf("row %d column %d: %v; bytes %s; value written %s", ri, j, derr, hexs(f), trim(want, 100)))
			}
			if got != want {
				return viol("value", fmt.Sprintf("decoded value differs (%s)", typ), fmt.Sprintf("row %d column %d: got %s want %s (bytes %s)", ri, j, trim(got, 120), trim(want, 120), hexs(f)))
			}
		}
	}
	c.Eval(t.sig(), nontrivial)
	if idx < 2 {
		c.Sample(map[string]any{"table": t.sig(), "reply": trim(replyKinds(out), 200)})
	}
	return true
}

func normErr(s string) string {
	if len(s) > 60 {
		s = s[:60]
	}
	return s
}
