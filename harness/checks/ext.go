package checks

import (
	"context"
	"fmt"
	"sort"
	"strings"

	wire "github.com/jeroenrinzema/psql-wire"
	"github.com/lib/pq/oid"

	"verifharness/core"
	"verifharness/hs"
	"verifharness/pg"
	"verifharness/tr"
)

// Extended-protocol reference model. It states what the properties (C06/C07)
// say and nothing more: where they leave a behaviour open the model is
// non-deterministic (a set of admissible states is carried along and every
// reading is accepted, consistently).

type xMsg struct {
	K      string // parse bind descS descP exec closeS closeP flush sync query unknown oversize
	Name   string // statement name
	Portal string
	Query  string
	Prog   *hs.Prog
	Params [][]byte
	PFmts  []int16
	RFmts  []int16
	OIDs   []uint32
	Raw    []byte
	BindID int
	Lim    int // Execute row limit: 0 or a value no smaller than the rows any scripted statement writes
}

func (m xMsg) bytes() []byte {
	switch m.K {
	case "parse":
		return pg.Parse(m.Name, m.Query, m.OIDs)
	case "bind":
		return pg.Bind(m.Portal, m.Name, m.PFmts, m.Params, m.RFmts)
	case "descS":
		return pg.Describe('S', m.Name)
	case "descP":
		return pg.Describe('P', m.Portal)
	case "exec":
		return pg.Execute(m.Portal, uint32(m.Lim))
	case "closeS":
		return pg.Close('S', m.Name)
	case "closeP":
		return pg.Close('P', m.Portal)
	case "flush":
		return pg.Flush()
	case "sync":
		return pg.Sync()
	case "query":
		return pg.Query(m.Query)
	case "terminate":
		return pg.Terminate()
	default:
		return m.Raw
	}
}

func (m xMsg) short() string {
	switch m.K {
	case "parse":
		return fmt.Sprintf("Parse(%q,%s)", m.Name, progKind(m.Prog))
	case "bind":
		return fmt.Sprintf("Bind(%q<-%q)", m.Portal, m.Name)
	case "descS", "closeS":
		return fmt.Sprintf("%s(%q)", m.K, m.Name)
	case "descP", "closeP", "exec":
		return fmt.Sprintf("%s(%q)", m.K, m.Portal)
	case "query":
		return fmt.Sprintf("Query(%s)", progKind(m.Prog))
	}
	return m.K
}

func progKind(p *hs.Prog) string {
	if p == nil {
		return "noprog"
	}
	if p.Err != nil {
		return "parseerr"
	}
	if len(p.Stmts) != 1 {
		return fmt.Sprintf("%dstmts", len(p.Stmts))
	}
	k := ""
	for _, o := range p.Stmts[0].Ops {
		k += o.K[:1]
	}
	return fmt.Sprintf("ok[%d:%s]", len(p.Stmts[0].Cols), k)
}

type xStmt struct {
	H *hs.Stmt
}
type xPortal struct {
	St     *xStmt
	Off    int // rows already delivered, on a server that honours Execute row limits (-1: ran to its end)
	BindID int
	Params [][]byte
	PFmts  []int16
	RFmts  []int16
	Odd    bool // bound with a number of result format codes that is neither 0, 1 nor the number of columns
}
type xState struct {
	stmts   map[string]*xStmt
	portals map[string]*xPortal
	skip    bool
	// pol: what a Sync does to the portals of this connection, once a Sync has been seen to do it
	// (0 = not seen yet, 1 = keeps them, 2 = destroys them all, 3 = destroys the unnamed one).
	// Which of the three the server does is left open; that it does the same at every Sync is not.
	pol int
	// lim: what the server does with an Execute row limit below the number of rows (0 = not seen yet,
	// 1 = ignores it and sends everything, 2 = honours it: sends that many rows and PortalSuspended,
	// the rest on further Executes). Either is admissible; the same at every Execute.
	lim int
}

func newXState() *xState { return &xState{stmts: map[string]*xStmt{}, portals: map[string]*xPortal{}} }

func (s *xState) clone() *xState {
	n := &xState{stmts: map[string]*xStmt{}, portals: map[string]*xPortal{}, skip: s.skip, pol: s.pol, lim: s.lim}
	for k, v := range s.stmts {
		n.stmts[k] = v
	}
	for k, v := range s.portals {
		n.portals[k] = v
	}
	return n
}

func (s *xState) key() string {
	var parts []string
	for k, v := range s.stmts {
		parts = append(parts, "s"+k+"="+v.H.ID)
	}
	for k, v := range s.portals {
		parts = append(parts, fmt.Sprintf("p%s=%d@%d", k, v.BindID, v.Off))
	}
	sort.Strings(parts)
	return fmt.Sprintf("%v%d%d|%s", s.skip, s.pol, s.lim, strings.Join(parts, ","))
}

// xExp is one admissible outcome of a message.
type xExp struct {
	reply   []expMsg
	parses  int      // parser invocations
	exec    *xPortal // portal whose statement must run (nil: none)
	next    *xState
	any     bool // reply left open: E with or without Z, or nothing
	free    bool // reply and callbacks left open altogether (Execute of a portal that has run to its end on a server that honours row limits)
	execAny bool // the statement function may or may not run (a suspended portal that is continued)
	simple  *hs.Prog
	closes  bool // the server must close the connection (Terminate)
}

func rowDescExp(cols wire.Columns, rfmts []int16) expMsg {
	m := expMsg{T: 'T', NCols: len(cols)}
	for i, c := range cols {
		m.Names = append(m.Names, c.Name)
		f := int16(0)
		if len(rfmts) == 1 {
			f = rfmts[0]
		} else if len(rfmts) > 1 {
			f = rfmts[i]
		}
		m.Fmts = append(m.Fmts, f)
		m.OIDs = append(m.OIDs, uint32(c.Oid))
	}
	return m
}

// stmtReply is the expected output of running a statement program through a
// fresh result writer (Execute or one statement of a simple Query).
func stmtReply(h *hs.Stmt) (reply []expMsg, failed bool) {
	for _, op := range h.Ops {
		switch op.K {
		case "row":
			em := expMsg{T: 'D'}
			for _, v := range op.Vals {
				em.Vals = append(em.Vals, []byte(fmt.Sprint(v)))
			}
			reply = append(reply, em)
		case "badrow", "arity":
		case "complete":
			reply = append(reply, expMsg{T: 'C', Tag: op.Tag})
		case "err":
			e := op.Err.Expect()
			reply = append(reply, expMsg{T: 'E', Code: e['C'], Msg: e['M']})
			return reply, true
		case "panic":
			reply = append(reply, expMsg{T: 'E'})
			return reply, true
		}
	}
	return reply, false
}

// step returns every admissible outcome of msg in state s.
func (s *xState) step(m xMsg) []xExp {
	if m.K == "terminate" {
		return []xExp{{next: s, closes: true}}
	}
	if s.skip {
		switch m.K {
		case "sync":
			// portals may or may not survive the end of the batch (left open)
			return syncOutcomes(s)
		case "unknown", "oversize":
			return openOutcomes(s)
		default:
			return []xExp{{next: s}}
		}
	}
	fail := func(parses int) []xExp {
		n := s.clone()
		n.skip = true
		return []xExp{{reply: []expMsg{{T: 'E'}}, parses: parses, next: n}}
	}
	switch m.K {
	case "parse":
		p := m.Prog
		if p == nil || p.Err != nil || len(p.Stmts) != 1 {
			out := fail(1)
			if p != nil && p.Err != nil {
				e := p.Err.Expect()
				out[0].reply = []expMsg{{T: 'E', Code: e['C'], Msg: e['M']}}
			}
			return out
		}
		n := s.clone()
		n.stmts[m.Name] = &xStmt{H: p.Stmts[0]}
		return []xExp{{reply: []expMsg{{T: '1'}}, parses: 1, next: n}}
	case "bind":
		st := s.stmts[m.Name]
		if st == nil {
			return fail(0)
		}
		if badFormats(m.PFmts) || badFormats(m.RFmts) {
			// a format code other than 0/1 cannot be honoured: the Bind fails (and the rest of
			// the batch is skipped); the portal is then not (re)defined
			return fail(0)
		}
		n := s.clone()
		pt := &xPortal{St: st, BindID: m.BindID, Params: m.Params, PFmts: m.PFmts, RFmts: m.RFmts}
		n.portals[m.Portal] = pt
		out := []xExp{{reply: []expMsg{{T: '2'}}, next: n}}
		if len(m.RFmts) > 1 && len(m.RFmts) != len(st.H.Cols) {
			// result format codes whose number is neither 0, 1 nor the number of columns: PostgreSQL refuses
			// such a Bind, the pinned tree takes it. Either - but a refused Bind defines nothing, and which
			// codes an accepted one announces is not judged here
			pt.Odd = true
			out = append(out, fail(0)...)
		}
		return out
	case "descS":
		st := s.stmts[m.Name]
		if st == nil {
			return fail(0)
		}
		r := []expMsg{{T: 't', NParams: len(st.H.Params), POIDs: st.H.Params}}
		if len(st.H.Cols) == 0 {
			r = append(r, expMsg{T: 'n'})
		} else {
			r = append(r, rowDescExp(st.H.Cols, nil))
		}
		return []xExp{{reply: r, next: s}}
	case "descP":
		p := s.portals[m.Portal]
		if p == nil {
			return fail(0)
		}
		if len(p.St.H.Cols) == 0 {
			return []xExp{{reply: []expMsg{{T: 'n'}}, next: s}}
		}
		if p.Odd {
			e := rowDescExp(p.St.H.Cols, nil)
			e.Fmts = nil
			return []xExp{{reply: []expMsg{e}, next: s}}
		}
		return []xExp{{reply: []expMsg{rowDescExp(p.St.H.Cols, p.RFmts)}, next: s}}
	case "exec":
		p := s.portals[m.Portal]
		if p == nil {
			return fail(0)
		}
		r, failed := stmtReply(p.St.H)
		nrows := 0
		for _, em := range r {
			if em.T == 'D' {
				nrows++
			}
		}
		var out []xExp
		limited := m.Lim > 0 && m.Lim < nrows
		if s.lim != 2 && p.Off == 0 {
			// the server sends everything (no limit, a limit not below the number of rows, or a limit it ignores)
			n := s
			if failed || limited {
				n = s.clone()
				n.skip = failed
				if limited {
					n.lim = 1
				}
			}
			out = append(out, xExp{reply: r, exec: p, next: n})
		}
		if s.lim != 1 && (limited || p.Off != 0) {
			// the server honours row limits: rows p.Off .. p.Off+limit-1, then PortalSuspended - or the rest and the end
			if p.Off < 0 {
				return append(out, xExp{free: true, next: s})
			}
			rem := nrows - p.Off
			np := *p
			n := s.clone()
			n.lim = 2
			n.portals[m.Portal] = &np
			var part []expMsg
			seen := 0
			for _, em := range r {
				if em.T != 'D' {
					continue
				}
				if seen >= p.Off && (m.Lim == 0 || seen < p.Off+m.Lim) {
					part = append(part, em)
				}
				seen++
			}
			if m.Lim > 0 && rem > m.Lim {
				np.Off = p.Off + m.Lim
				part = append(part, expMsg{T: 's'})
			} else {
				np.Off = -1
				for _, em := range r {
					if em.T != 'D' {
						part = append(part, em)
					}
				}
				n.skip = failed
			}
			e := xExp{reply: part, next: n}
			if p.Off == 0 {
				e.exec = p
			} else {
				e.execAny = true
			}
			out = append(out, e)
		}
		return out
	case "closeS":
		n := s.clone()
		st := n.stmts[m.Name]
		delete(n.stmts, m.Name)
		out := []xExp{{reply: []expMsg{{T: '3'}}, next: n}}
		if st != nil {
			// closing a statement may also close the portals built from it (left open)
			n2 := n.clone()
			casc := false
			for k, p := range n2.portals {
				if p.St == st {
					delete(n2.portals, k)
					casc = true
				}
			}
			if casc {
				out = append(out, xExp{reply: []expMsg{{T: '3'}}, next: n2})
			}
		}
		return out
	case "closeP":
		n := s.clone()
		delete(n.portals, m.Portal)
		return []xExp{{reply: []expMsg{{T: '3'}}, next: n}}
	case "flush":
		return []xExp{{next: s}}
	case "sync":
		return syncOutcomes(s)
	case "query":
		var r []expMsg
		parses := 1
		p := m.Prog
		switch {
		case strings.TrimSpace(m.Query) == "":
			r, parses = []expMsg{{T: 'I'}}, 0
		case p == nil || len(p.Stmts) == 0 && p.Err == nil:
			r = []expMsg{{T: 'E'}}
		case p.Err != nil:
			e := p.Err.Expect()
			r = []expMsg{{T: 'E', Code: e['C'], Msg: e['M']}}
		default:
			for _, st := range p.Stmts {
				if len(st.Cols) > 0 {
					r = append(r, rowDescExp(st.Cols, nil))
				}
				sr, failed := stmtReply(st)
				r = append(r, sr...)
				if failed {
					break
				}
			}
		}
		r = append(r, expMsg{T: 'Z'})
		// a simple Query may or may not destroy the unnamed statement/portal (left open)
		out := []xExp{{reply: r, parses: parses, next: s, simple: p}}
		if s.stmts[""] != nil || s.portals[""] != nil {
			n := s.clone()
			delete(n.stmts, "")
			delete(n.portals, "")
			out = append(out, xExp{reply: r, parses: parses, next: n, simple: p})
		}
		return out
	case "unknown", "oversize":
		return openOutcomes(s)
	}
	return nil
}

func badFormats(f []int16) bool {
	for _, x := range f {
		if x != 0 && x != 1 {
			return true
		}
	}
	return false
}

func syncOutcomes(s *xState) []xExp {
	n := s.clone()
	n.skip = false
	if len(n.portals) == 0 {
		return []xExp{{reply: []expMsg{{T: 'Z'}}, next: n}}
	}
	var out []xExp
	for pol := 1; pol <= 3; pol++ {
		if s.pol != 0 && s.pol != pol {
			continue
		}
		nx := n.clone()
		nx.pol = pol
		switch pol {
		case 2:
			nx.portals = map[string]*xPortal{}
		case 3:
			delete(nx.portals, "")
		}
		out = append(out, xExp{reply: []expMsg{{T: 'Z'}}, next: nx})
	}
	return out
}

// openOutcomes: the properties do not fix what follows an unknown-type or an
// oversized non-Query message inside a batch: nothing, E, or E Z; skipping or not.
func openOutcomes(s *xState) []xExp {
	a, b := s.clone(), s.clone()
	a.skip, b.skip = true, false
	return []xExp{{any: true, next: a}, {any: true, next: b}}
}

// matchReply compares an observed reply with an expected one.
func matchReply(msgs []pg.BMsg, e xExp) (bool, string) {
	if e.free {
		return true, ""
	}
	if e.any {
		t := pg.Types(msgs)
		if t == "" || t == "E" || t == "EZ" {
			return true, ""
		}
		return false, "expected nothing, E or E Z, got " + t
	}
	return matchMsgs(msgs, e.reply)
}

func matchMsgs(msgs []pg.BMsg, exp []expMsg) (bool, string) {
	if len(msgs) != len(exp) {
		return false, fmt.Sprintf("got %s want %s", collapse(pg.Types(msgs)), collapse(expKinds(exp)))
	}
	for i, e := range exp {
		m := msgs[i]
		if m.T != e.T {
			return false, fmt.Sprintf("got %s want %s", collapse(pg.Types(msgs)), collapse(expKinds(exp)))
		}
		switch e.T {
		case 'C':
			if m.Tag != e.Tag {
				return false, fmt.Sprintf("CommandComplete tag %q want %q", m.Tag, e.Tag)
			}
		case 'T':
			if len(m.Cols) != e.NCols {
				return false, fmt.Sprintf("RowDescription has %d columns want %d", len(m.Cols), e.NCols)
			}
			for j, cd := range m.Cols {
				if cd.Name != e.Names[j] {
					return false, fmt.Sprintf("RowDescription column %d name %q want %q", j, cd.Name, e.Names[j])
				}
				if e.Fmts != nil && cd.Format != e.Fmts[j] {
					return false, fmt.Sprintf("RowDescription column %d format %d want %d", j, cd.Format, e.Fmts[j])
				}
				if e.OIDs != nil && cd.OID != e.OIDs[j] {
					return false, fmt.Sprintf("RowDescription column %d oid %d want %d", j, cd.OID, e.OIDs[j])
				}
			}
		case 't':
			if len(m.OIDs) != e.NParams {
				return false, fmt.Sprintf("ParameterDescription has %d parameters want %d", len(m.OIDs), e.NParams)
			}
			for j, o := range e.POIDs {
				if m.OIDs[j] != uint32(o) {
					return false, fmt.Sprintf("ParameterDescription parameter %d oid %d want %d", j, m.OIDs[j], o)
				}
			}
		case 'D':
			if len(m.Fields) != len(e.Vals) {
				return false, fmt.Sprintf("DataRow has %d fields want %d", len(m.Fields), len(e.Vals))
			}
			for j := range e.Vals {
				if m.Fields[j] == nil || string(m.Fields[j]) != string(e.Vals[j]) {
					return false, fmt.Sprintf("DataRow field %d %q want %q", j, m.Fields[j], e.Vals[j])
				}
			}
		case 'E':
			if e.Code != "" && (m.Err['C'] != e.Code || m.Err['M'] != e.Msg) {
				return false, fmt.Sprintf("ErrorResponse C=%q M=%q want C=%q M=%q", m.Err['C'], m.Err['M'], e.Code, e.Msg)
			}
		case 'Z':
			if m.Status != 'I' {
				return false, fmt.Sprintf("ReadyForQuery status %q", m.Status)
			}
		}
	}
	return true, ""
}

// ---- generator pieces shared by C06/C07 ------------------------------------------

var xNames = []string{"", "a", "b"}

// xLongNames renames a and b, in one history out of six, to names of 64 and more bytes that differ only
// behind their 63rd byte (PostgreSQL would truncate identifiers there; names in this protocol are byte
// strings, and two different ones are two names).
func xLongNames(rng *core.Rng, h []xMsg) []xMsg {
	if rng.Intn(6) != 0 {
		return h
	}
	long := map[string]string{"a": strings.Repeat("n", 63) + "-first", "b": strings.Repeat("n", 63) + "-second-and-longer"}
	for i := range h {
		if l, ok := long[h[i].Name]; ok {
			h[i].Name = l
		}
		if l, ok := long[h[i].Portal]; ok {
			h[i].Portal = l
		}
	}
	return h
}

// xProgFor builds a deterministic statement program; kind selects the outcome.
// Every statement declares exactly two parameters (Binds always send two).
// xCause: every third failing statement fails with an error that wraps a standard-library error
// (io.EOF, net.ErrClosed, context.Canceled, ...), as handlers backed by real I/O do.
func xCause(id string) int {
	h := core.H64("cause " + id)
	if h%3 != 0 {
		return 0
	}
	return 1 + int((h/3)%uint64(len(hs.Causes)-1))
}

func xProg(id string, kind int) *hs.Prog {
	switch kind {
	case 0: // parser error
		return &hs.Prog{Err: &hs.ErrSpec{Base: "cannot parse " + id, Wraps: []hs.Wrap{{K: 'c', S: "42601"}}}}
	case 1: // zero statements
		return &hs.Prog{}
	case 2: // two statements
		return &hs.Prog{Stmts: []*hs.Stmt{{ID: id + ".0"}, {ID: id + ".1"}}}
	}
	st := &hs.Stmt{ID: id, Params: []oid.Oid{oid.T_text, oid.T_int4}}
	withCols := kind%2 == 0
	if withCols {
		st.Cols = wire.Columns{{Name: "x_" + id, Oid: oid.T_text, Width: -1}, {Name: "y_" + id, Oid: oid.T_text, Width: -1}}
	}
	row := func(i int) hs.Op {
		if !withCols {
			return hs.Op{K: "row", Vals: []any{}}
		}
		return hs.Op{K: "row", Vals: []any{fmt.Sprintf("%s-r%d", id, i), fmt.Sprintf("%d", i)}}
	}
	switch kind {
	case 3, 4: // rows then complete
		st.Ops = []hs.Op{row(0), row(1), {K: "complete", Tag: "SELECT 2 " + id}}
	case 5, 6: // fail before rows (whatever severity the error is decorated with: a failure is a failure)
		ws := []hs.Wrap{{K: 'c', S: "22012"}}
		if sev := []string{"", "", "WARNING", "NOTICE", "LOG", "INFO", "DEBUG", "FATAL", "PANIC"}[core.H64("sev"+id)%9]; sev != "" {
			ws = append(ws, hs.Wrap{K: 's', S: sev})
		}
		st.Ops = []hs.Op{{K: "err", Err: &hs.ErrSpec{Base: "early failure " + id, Cause: xCause(id), Wraps: ws}}}
	case 7, 8: // fail after rows
		st.Ops = []hs.Op{row(0), {K: "err", Err: &hs.ErrSpec{Base: "late failure " + id, Cause: xCause("l" + id), Wraps: []hs.Wrap{{K: 'c', S: "22003"}, {K: 's', S: "ERROR"}}}}}
	case 9, 10: // panic inside the statement function
		st.Ops = []hs.Op{row(0), {K: "panic"}}
	case 11, 12: // complete only
		st.Ops = []hs.Op{{K: "complete", Tag: "OK " + id}}
	case 15, 16: // the result is completed, then the statement function fails all the same: an error is an error
		st.Ops = []hs.Op{row(0), {K: "complete", Tag: "SELECT 1 " + id}, {K: "err", Err: &hs.ErrSpec{Base: "failure after completion " + id, Wraps: []hs.Wrap{{K: 'c', S: "40001"}}}}}
	case 19, 20: // a row refused half-way (its last value cannot be encoded), then failure
		if withCols {
			st.Ops = []hs.Op{row(0), {K: "badrow", Vals: []any{"partly written " + id, make(chan int)}}, {K: "err", Err: &hs.ErrSpec{Base: "failure after a refused row " + id, Wraps: []hs.Wrap{{K: 'c', S: "22P02"}}}}}
		} else {
			st.Ops = []hs.Op{{K: "err", Err: &hs.ErrSpec{Base: "failure " + id, Wraps: []hs.Wrap{{K: 'c', S: "22P02"}}}}}
		}
	case 17, 18: // Empty(), then failure
		st.Ops = []hs.Op{{K: "empty"}, {K: "err", Err: &hs.ErrSpec{Base: "failure after Empty " + id, Wraps: []hs.Wrap{{K: 'c', S: "40P01"}}}}}
	default: // bad row then rows
		st.Ops = []hs.Op{{K: "arity", Vals: []any{"a", "b", "c"}}, row(0), {K: "complete", Tag: "SELECT 1 " + id}}
	}
	return &hs.Prog{Stmts: []*hs.Stmt{st}}
}

const xProgKinds = 21

// runHistory executes a history in lock-step against a fresh connection and
// judges every step with the model. Returns false when a violation was reported.
type xRun struct {
	Replies [][]pg.BMsg
	Raw     []byte
	Trace   []string // callback trace (parse/exec) in order
	Closed  bool
}

func xCollectTrace(evs []trEvent) (parses []string, execs []hs.ExecRec) {
	for _, e := range evs {
		if e.Kind != "cb" {
			continue
		}
		switch e.Name {
		case "parse":
			parses = append(parses, e.Data.(hs.ParseRec).Query)
		case "exec":
			execs = append(execs, e.Data.(hs.ExecRec))
		}
	}
	return
}

func histString(h []xMsg) string {
	parts := make([]string, len(h))
	for i, m := range h {
		parts[i] = m.short()
	}
	return strings.Join(parts, " ")
}

// judgeHistory runs h in lock-step and checks it against the NFA model.
// promptness is inherent: each message's complete reply must be on the wire
// when the server blocks for more input.
// xPrepare fills in what the generators leave open, as a deterministic function of the history: the
// row limits of Execute messages and, in a quarter of the histories, long names for "a" and "b".
func xPrepare(c *core.Ctx, h []xMsg) []xMsg {
	h = append([]xMsg(nil), h...)
	// row limits of Execute: none, one that the (at most two) rows of a scripted statement never reach, or 1:
	// a server may ignore a limit below the row count or honour it (PortalSuspended, the rest later) - the model
	// admits both, the same one at every Execute
	if core.H64("names "+histString(h))%4 == 0 {
		// names are arbitrary strings: in a quarter of the histories "a" and "b" are two long names that
		// share their first 63 bytes (PostgreSQL's identifier length) and differ only behind them
		long := map[string]string{"a": strings.Repeat("n", 63) + "_first", "b": strings.Repeat("n", 63) + "_second_and_longer"}
		for i := range h {
			if v, ok := long[h[i].Name]; ok {
				h[i].Name = v
			}
			if v, ok := long[h[i].Portal]; ok {
				h[i].Portal = v
			}
		}
		c.Count("histories_with_long_names", 1)
	}
	for i := range h {
		if h[i].K == "exec" {
			h[i].Lim = []int{0, 0, 2, 3, 1000, 1<<31 - 1, 1, 1}[core.H64(fmt.Sprint(i, h[i].Portal, len(h)))%8]
		}
		// the second value of a Bind is, in a quarter of the Binds, the empty value or NULL (the first one
		// identifies the Bind): the portal carries what was bound - '' stays '', NULL stays NULL - whatever its name
		if h[i].K == "bind" && len(h[i].Params) == 2 {
			switch core.H64(fmt.Sprint("empty", i, h[i].Portal, h[i].BindID, len(h))) % 8 {
			case 0:
				h[i].Params = [][]byte{h[i].Params[0], {}}
				c.Count("binds_with_an_empty_value", 1)
			case 1:
				h[i].Params = [][]byte{h[i].Params[0], nil}
				c.Count("binds_with_a_null_value", 1)
			}
		}
	}
	return h
}

func judgeHistory(c *core.Ctx, env *hs.Env, h []xMsg, cs any, prop string) (ok bool, run xRun) {
	return judgeHistoryY(c, env, h, cs, nil)
}

func judgeHistoryY(c *core.Ctx, env *hs.Env, h []xMsg, cs any, yield func()) (ok bool, run xRun) {
	sess := &hs.Sess{Progs: map[string]*hs.Prog{}}
	for _, m := range h {
		if (m.K == "parse" || m.K == "query") && m.Prog != nil {
			sess.Progs[m.Query] = m.Prog
		}
	}
	// the statement functions decode their parameters the way a handler expecting dates would (the result
	// does not matter here; that decoding is nobody else's business does)
	sess.OnExec = func(ctx context.Context, _ *hs.Stmt, _ wire.DataWriter, params []wire.Parameter) {
		for _, p := range params {
			p.Scan(uint32(oid.T_timestamptz))
			p.Scan(uint32(oid.T_timestamp))
		}
	}
	conn := tr.NewConn(sess)
	conn.Yield = yield
	env.L.DialConn(conn)
	cl := hs.NewClient(conn)
	if err := cl.StartupOK("u"); err != nil {
		c.Violate("startup", "plain startup failed", err.Error(), cs)
		return false, run
	}
	h = xPrepare(c, h)
	states := []*xState{newXState()}
	viol := func(i int, rule, sig, detail string) {
		c.Violate(rule, sig, fmt.Sprintf("history [%s], step %d %s: %s", histString(h), i, h[i].short(), detail), cs)
	}
	// a third of the histories: every message arrives together with the first bytes of the next one (a
	// client whose writes do not end on message boundaries); the reply to a message is due when the
	// message is complete, not when the next one is
	overlap := core.H64(histString(h))%3 == 0
	sent := 0 // bytes of h[i] that arrived with the previous step
	for i, m := range h {
		evStart := cl.C.NEvents()
		in := m.bytes()[sent:]
		sent = 0
		if overlap && i+1 < len(h) {
			if nb := h[i+1].bytes(); len(nb) >= 2 {
				sent = 1 + int(core.H64(fmt.Sprint(i, len(nb)))%uint64(len(nb)-1))
				in = append(append([]byte{}, in...), nb[:sent]...)
				c.Count("steps_with_the_head_of_the_next_message", 1)
			}
		}
		out, closed := cl.Step(in)
		if hangCheck(c, cl, cs) {
			return false, run
		}
		run.Raw = append(run.Raw, out...)
		evs := cl.C.EventsFrom(evStart)
		parses, execs := xCollectTrace(evs)
		for _, q := range parses {
			run.Trace = append(run.Trace, "parse:"+q)
		}
		for _, e := range execs {
			run.Trace = append(run.Trace, "exec:"+e.Stmt)
		}
		c.Count("messages_stepped", 1)
		if m.K == "terminate" {
			if !closed || len(out) != 0 || len(parses)+len(execs) != 0 {
				viol(i, "terminate", "Terminate did not simply close the connection"+skipTag(states), fmt.Sprintf("closed=%v reply=%q callbacks=%d", closed, replyKinds(out), len(parses)+len(execs)))
				return false, run
			}
			c.Count("terminates", 1)
			return true, run
		}
		if closed {
			run.Closed = true
			viol(i, "dropped", "connection dropped on "+m.K+skipTag(states), "the server closed the connection; reply so far: "+replyKinds(out))
			return false, run
		}
		msgs, err := parseAll(out)
		if err != nil {
			viol(i, "grammar", "reply not well-formed after "+m.K, err.Error())
			return false, run
		}
		run.Replies = append(run.Replies, msgs)
		var next []*xState
		seen := map[string]bool{}
		why := ""
		for _, s := range states {
			for _, e := range s.step(m) {
				okr, w := matchReply(msgs, e)
				if !okr {
					why = w
					continue
				}
				if !e.any && !e.free {
					if len(parses) != e.parses {
						why = fmt.Sprintf("parser invoked %d time(s), expected %d", len(parses), e.parses)
						continue
					}
					nexec := 0
					if e.exec != nil {
						nexec = 1
					}
					if e.simple != nil || e.execAny {
						nexec = -1 // simple query: statement count judged by C05; a continued portal: the function may have run to its end before
					}
					if nexec >= 0 && len(execs) != nexec {
						why = fmt.Sprintf("%d statement function(s) ran, expected %d", len(execs), nexec)
						continue
					}
					if e.exec != nil {
						if w := matchExec(execs[0], e.exec); w != "" {
							why = w
							continue
						}
					}
				}
				k := e.next.key()
				if !seen[k] {
					seen[k] = true
					next = append(next, e.next)
				}
			}
		}
		if len(next) == 0 {
			rule, sig := classifyX(m, states, msgs, len(parses)+len(execs))
			viol(i, rule, sig, fmt.Sprintf("no admissible model state explains the reply %q: %s", pg.Kinds(msgs), why))
			return false, run
		}
		if states[0].skip && m.K != "sync" {
			c.Count("messages_discarded_while_skipping", 1)
		}
		if len(msgs) > 0 && msgs[0].T == 'E' && m.K != "query" {
			c.Count("extended_errors", 1)
		}
		states = next
	}
	cl.Finish()
	return true, run
}

func skipTag(states []*xState) string {
	if len(states) > 0 && states[0].skip {
		return " while skipping"
	}
	return ""
}

// matchExec checks that the statement function that ran is the one the model
// resolves, with exactly the parameters of the resolving Bind.
func matchExec(got hs.ExecRec, p *xPortal) string {
	if got.Stmt != p.St.H.ID {
		return fmt.Sprintf("statement function %q ran, the portal resolves to %q", got.Stmt, p.St.H.ID)
	}
	if len(got.Params) != len(p.Params) {
		return fmt.Sprintf("statement received %d parameters, Bind sent %d", len(got.Params), len(p.Params))
	}
	for i := range p.Params {
		if (got.Params[i] == nil) != (p.Params[i] == nil) || string(got.Params[i]) != string(p.Params[i]) {
			return fmt.Sprintf("parameter %d = %q, Bind #%d sent %q", i, got.Params[i], p.BindID, p.Params[i])
		}
	}
	return ""
}

// classifyX names the failed rule for signatures.
func classifyX(m xMsg, states []*xState, msgs []pg.BMsg, callbacks int) (rule, sig string) {
	t := collapse(pg.Types(msgs))
	skipping := len(states) > 0 && states[0].skip
	switch {
	case skipping && m.K != "sync" && (t != "" || callbacks > 0):
		return "skip", fmt.Sprintf("%s processed while discarding until Sync (reply %q, %d callbacks)", m.K, t, callbacks)
	case strings.Contains(t, "Z") && m.K != "sync" && m.K != "query":
		return "ready", fmt.Sprintf("ReadyForQuery sent for %s (reply %q)", m.K, t)
	case t == "":
		return "silence", fmt.Sprintf("no reply to %s", m.K)
	}
	return "reply", fmt.Sprintf("%s answered %q", m.K, t)
}
