package checks

import (
	"bytes"
	"context"
	"crypto/tls"
	"errors"
	"fmt"
	"github.com/jeroenrinzema/psql-wire/pkg/buffer"
	"github.com/jeroenrinzema/psql-wire/pkg/types"
	"maps"
	"sort"
	"strings"
	"sync"
	"sync/atomic"

	wire "github.com/jeroenrinzema/psql-wire"

	"verifharness/core"
	"verifharness/hs"
	"verifharness/pg"
	"verifharness/tr"
)

// C12 - Startup negotiation delivers parameters both ways, once, in order.

type c12 struct{ base }

func init() {
	core.Register(c12{base{id: "C12", race: true, level: "exploration", quickB: 16, thoroughB: 32,
		rule:        "startup packets with 0-50 key/value pairs (duplicates, empty values, unicode, long values; malformed: key without value, last value unterminated, complete pairs without the list terminator (also an empty body), truncated packet), server configurations (global parameter maps of 0-20 entries including keys that collide with the fixed ones, with/without Version, with/without password auth); the reply must be the auth exchange, then ParameterStatus messages whose multiset equals configured + {server_encoding, client_encoding = UTF8, is_superuser, session_authorization = this user, server_version iff configured}, each key once, then exactly one ReadyForQuery(I); ClientParameters / ServerParameters / AuthenticatedUsername / RemoteAddress read inside the parser callback must equal what this connection sent / was told; the configured map is deep-compared after serving; groups of 2-64 connections connect at once (yield injection, race detector); CancelRequest as first packet, after 'N' and after a TLS upgrade must be closed without reply or callback. Non-trivial = duplicates, collisions, malformed packet, concurrency or cancel; distinct = (config shape, packet shape).",
		need:        []string{"startups_checked", "parameter_status_multisets_compared", "context_reads_compared", "malformed_startups", "concurrent_groups", "cancel_requests", "configured_map_compared", "race_detector_active_batches"},
		assumptions: append([]string{"for a duplicated startup key the handler may see any one of the sent values; is_superuser may be 'on' or 'off'"}, commonAssumptions...)}})
}

type c12ctx struct {
	Client map[string]string
	Server map[string]string
	User   string
	Addr   string
}

func c12parse(ctx context.Context, query string) (wire.PreparedStatements, error) {
	c := hs.ConnOf(ctx)
	rec := c12ctx{Client: map[string]string{}, Server: map[string]string{}, User: strings.Clone(wire.AuthenticatedUsername(ctx))}
	for k, v := range wire.ClientParameters(ctx) {
		rec.Client[strings.Clone(string(k))] = strings.Clone(v)
	}
	for k, v := range wire.ServerParameters(ctx) {
		rec.Server[strings.Clone(string(k))] = strings.Clone(v)
	}
	if a := wire.RemoteAddress(ctx); a != nil {
		rec.Addr = a.String()
	}
	c.CB("ctx", rec)
	return wire.Prepared(wire.NewStatement(func(ctx context.Context, w wire.DataWriter, _ []wire.Parameter) error {
		return w.Complete("OK")
	})), nil
}

// c12closeConn is registered as CloseConn/TerminateConn hook: whatever it is used for, it is a
// user callback and must not run for CancelRequest connections.
var c12hookCalls atomic.Int64

func c12closeConn(ctx context.Context) error {
	c12hookCalls.Add(1)
	if ctx != nil {
		if conn := hs.ConnOf(ctx); conn != nil {
			conn.CB("connhook", nil)
		}
	}
	return nil
}

type c12config struct {
	Params  map[string]string
	Version string
	Auth    bool
}

func c12genConfig(rng *core.Rng) c12config {
	cfg := c12config{}
	if rng.Intn(4) != 0 {
		cfg.Params = map[string]string{}
		for n := rng.Intn(21); n > 0; n-- {
			k := core.Pick(rng, []string{"application_name", "DateStyle", "TimeZone", "integer_datetimes", "standard_conforming_strings", "server_encoding", "client_encoding", "is_superuser", "session_authorization", "server_version", rng.Ident(1 + rng.Intn(12)), "ключ", "k " + rng.Ident(3),
				// names that differ from PostgreSQL's own only in letter case: other names, to a protocol whose
				// parameter names are case-sensitive byte strings
				"datestyle", "timezone", "TIMEZONE", "Client_Encoding", "CLIENT_ENCODING", "Search_Path", "APPLICATION_NAME", "Server_Version", "integer_DateTimes", "intervalstyle", "Is_Superuser"})
			cfg.Params[k] = core.Pick(rng, []string{"", "on", "UTF8", "LATIN1", "someone-else", "9.6", rng.Text(1+rng.Intn(30), true)})
		}
	}
	if rng.Bool() {
		cfg.Version = core.Pick(rng, []string{"15.0", "16.2 (verif)", "0"})
	}
	cfg.Auth = rng.Intn(3) == 0
	return cfg
}

func c12validator(ctx context.Context, database, username, password string) (context.Context, bool, error) {
	return ctx, true, nil
}

func (cfg c12config) start() *hs.Env {
	var opts []wire.OptionFn
	if cfg.Params != nil {
		p := wire.Parameters{}
		for k, v := range cfg.Params {
			p[wire.ParameterStatus(k)] = v
		}
		opts = append(opts, wire.GlobalParameters(p))
	}
	if cfg.Version != "" {
		opts = append(opts, wire.Version(cfg.Version))
	}
	if cfg.Auth {
		strategy := wire.ClearTextPassword(c12validator)
		if len(cfg.Params)%2 == 1 {
			// a strategy of the embedding program: it asks for the password itself, reads the answer and
			// accepts (one write-then-read round trip, as any challenge-response method has)
			strategy = func(ctx context.Context, w *buffer.Writer, r *buffer.Reader) (context.Context, error) {
				w.Start(types.ServerAuth)
				w.AddInt32(3)
				if err := w.End(); err != nil {
					return ctx, err
				}
				t, _, err := r.ReadTypedMsg()
				if err != nil {
					return ctx, err
				}
				if t != types.ClientPassword {
					return ctx, errors.New("password message expected")
				}
				if _, err := r.GetString(); err != nil {
					return ctx, err
				}
				w.Start(types.ServerAuth)
				w.AddInt32(0)
				return ctx, w.End()
			}
		}
		opts = append(opts, wire.SessionAuthStrategy(strategy))
	}
	opts = append(opts, wire.CloseConn(c12closeConn), wire.TerminateConn(c12closeConn))
	return hs.Start(c12parse, opts...)
}

func (cfg c12config) expectStatus(user string) map[string]string {
	exp := map[string]string{}
	for k, v := range cfg.Params {
		exp[k] = v
	}
	exp["server_encoding"], exp["client_encoding"] = "UTF8", "UTF8"
	exp["session_authorization"] = user
	exp["is_superuser"] = "\x00on-or-off"
	if cfg.Version != "" {
		exp["server_version"] = cfg.Version
	}
	return exp
}

type c12packet struct {
	Pairs [][2]string
	Bad   string // "" | novalue | noterm | truncated
}

func c12genPacket(rng *core.Rng, tag string) c12packet {
	p := c12packet{}
	if rng.Intn(10) != 0 {
		p.Pairs = append(p.Pairs, [2]string{"user", core.Pick(rng, []string{"u" + tag, "", "postgres", "ü" + tag, strings.Repeat("n", 300), rng.Ident(rng.BoundaryLen())})})
	}
	npairs := rng.Intn(core.Pick(rng, []int{1, 4, 10, 50, 50, 600}))
	for n := npairs; n > 0; n-- {
		k := core.Pick(rng, []string{"database", "application_name", "client_encoding", "options", "user", "DateStyle", rng.Ident(1 + rng.Intn(10)), "ключ" + rng.Ident(2), "_pq_." + rng.Ident(1+rng.Intn(8)), "_pq_.", "_pq_", "pq." + rng.Ident(3), "replication",
			// names that look like credentials or like something a server may want to treat specially: to the
			// protocol they are parameters like any other
			"password", "Password", "passwd", "auth_token", "client_secret", "Upstream.Password", "sslpassword", "passfile", "sslkey", "krbsrvname", "gssencmode", "sslmode", "channel_binding", "target_session_attrs", "host", "port", "search_path", "TimeZone", "IntervalStyle", "extra_float_digits", "server_version", "is_superuser", "session_authorization"})
		v := core.Pick(rng, []string{"", "v" + tag, rng.Text(1+rng.Intn(40), true), strings.Repeat("v", 2000), "-c user=postgres", "--application_name=x -c geqo=off", "-c search_path=public -e", "LATIN1"})
		if npairs > 20 && len(v) > 60 {
			v = v[:8] // keep the whole packet below the 64 KiB message limit of the harness servers
		}
		p.Pairs = append(p.Pairs, [2]string{k, v})
	}
	if rng.Intn(6) == 0 {
		p.Bad = core.Pick(rng, []string{"novalue", "noterm", "nolistterm", "truncated"})
	}
	return p
}

func (p c12packet) bytes() []byte {
	var rest []byte
	for _, kv := range p.Pairs {
		rest = append(rest, kv[0]...)
		rest = append(rest, 0)
		rest = append(rest, kv[1]...)
		rest = append(rest, 0)
	}
	switch p.Bad {
	case "":
		rest = append(rest, 0)
	case "novalue":
		rest = append(rest, []byte("dangling")...)
		rest = append(rest, 0)
	case "noterm":
		if len(rest) == 0 {
			rest = []byte("x")
		} else {
			rest = rest[:len(rest)-1] // last value unterminated, no final terminator
		}
	case "nolistterm":
		// every pair is complete but the empty key closing the list is missing (with no pairs: an empty body)
	case "truncated":
		rest = append(rest, 0)
		full := pg.StartupRaw(pg.Version30, rest)
		return full[:len(full)-1-len(rest)/2]
	}
	return pg.StartupRaw(pg.Version30, rest)
}

func (p c12packet) user() string {
	u := ""
	for _, kv := range p.Pairs {
		if kv[0] == "user" {
			u = kv[1]
		}
	}
	return u
}

func (p c12packet) shape() string {
	dups := 0
	seen := map[string]bool{}
	for _, kv := range p.Pairs {
		if seen[kv[0]] {
			dups++
		}
		seen[kv[0]] = true
	}
	return fmt.Sprintf("pairs=%d dups=%d bad=%s", len(p.Pairs), dups, p.Bad)
}

// connect runs one connection and judges it. Returns false on violation.
func (ch c12) connect(c *core.Ctx, env *hs.Env, cfg c12config, p c12packet, yield func(), cs map[string]any) bool {
	viol := func(rule, sig, detail string) bool {
		c.Violate(rule, sig, fmt.Sprintf("config{params=%d version=%q auth=%v} packet{%s}: %s", len(cfg.Params), cfg.Version, cfg.Auth, p.shape(), detail), cs)
		return false
	}
	conn := tr.NewConn(nil)
	conn.Yield = yield
	env.L.DialConn(conn)
	cl := hs.NewClient(conn)
	sslFirst := p.Bad == "" && core.H64(p.shape())%5 == 0
	if sslFirst {
		// the client does not wait for the answer to its SSLRequest (declined here: no certificates): the
		// start-up packet is in the same segment
		cl.C.Send(append(pg.SSLRequest(), p.bytes()...))
		c.Count("startups_in_one_segment_with_a_declined_sslrequest", 1)
	} else {
		cl.C.Send(p.bytes())
	}
	if p.Bad == "truncated" {
		cl.C.CloseWrite()
	}
	closed, _ := cl.C.Quiesce()
	if sslFirst {
		if o := cl.C.Out(); len(o) == 0 || o[0] != 'N' {
			return viol("ssl-reply", "SSLRequest on a server without certificates not answered with N", trim(replyKinds(o), 100))
		}
	}
	outAll := func() []byte {
		if o := cl.C.Out(); sslFirst && len(o) > 0 {
			return o[1:]
		} else {
			return o
		}
	}
	if hangCheck(c, cl, cs) {
		return false
	}
	if p.Bad != "" {
		c.Count("malformed_startups", 1)
		out := outAll()
		k := replyKinds(out)
		cbs := 0
		for _, e := range cl.C.Events() {
			if e.Kind == "cb" {
				cbs++
			}
		}
		if !closed || strings.Contains(k, "Z") || strings.Contains(k, "R(0)") || cbs > 0 {
			return viol("malformed-startup", "malformed startup packet ("+p.Bad+") did not end the connection", fmt.Sprintf("closed=%v reply=%s callbacks=%d", closed, k, cbs))
		}
		return true
	}
	if cfg.Auth {
		out := outAll()
		if replyKinds(out) != "R(3)" || closed {
			return viol("auth-first", "authentication exchange is not first", replyKinds(out))
		}
		if len(p.Pairs)%6 == 5 {
			// an answer to the password request that is no password message (oversized, below the minimum
			// length, another type, unterminated): the start-up ends there - no AuthenticationOk, no
			// ParameterStatus, no ReadyForQuery, whatever else the server says on its way out
			v := len(p.user()) % 4
			bad := [][]byte{pg.Raw('p', bytes.Repeat([]byte{'x'}, 1<<16+10)), pg.RawLen('p', uint32(len(p.Pairs)%4), nil), pg.Query("select 1"), pg.Raw('p', []byte("unterminated"))}[v]
			cl.C.Send(append(bad, pg.Query("pipelined behind the answer")...))
			cl.C.CloseWrite()
			cl.C.WaitClosed()
			k := replyKinds(outAll())
			after, _, _ := pg.ParseStream(outAll())
			ok0 := false
			for _, m := range after {
				ok0 = ok0 || (m.T == 'R' && m.Auth == 0)
			}
			c.Count("password_requests_answered_by_something_else", 1)
			if ok0 || strings.ContainsAny(pg.Types(after), "ZS") {
				return viol("auth-order", "a start-up whose password request was not answered by a password message goes on", fmt.Sprintf("variant %d: after the password request the server sent %s", v, k))
			}
			return true
		}
		cl.C.Send(pg.Password("pw"))
		closed, _ = cl.C.Quiesce()
	}
	out := outAll()
	msgs, err := parseAll(out)
	if err != nil || closed {
		return viol("grammar", "startup reply not well-formed", fmt.Sprint(err, " closed=", closed))
	}
	// order: auth exchange, S*, exactly one Z(I)
	i := 0
	if cfg.Auth {
		if len(msgs) < 2 || msgs[0].T != 'R' || msgs[0].Auth != 3 || msgs[1].T != 'R' || msgs[1].Auth != 0 {
			return viol("auth-first", "authentication exchange is not first", pg.Kinds(msgs))
		}
		i = 2
	} else {
		if len(msgs) < 1 || msgs[0].T != 'R' || msgs[0].Auth != 0 {
			return viol("auth-first", "AuthenticationOk is not first", pg.Kinds(msgs))
		}
		i = 1
	}
	got := map[string]string{}
	for ; i < len(msgs) && msgs[i].T == 'S'; i++ {
		if _, dup := got[msgs[i].Key]; dup {
			return viol("status-duplicate", "ParameterStatus key sent twice", msgs[i].Key)
		}
		got[msgs[i].Key] = msgs[i].Val
	}
	if i != len(msgs)-1 || msgs[i].T != 'Z' || msgs[i].Status != 'I' {
		return viol("order", "startup reply is not auth, ParameterStatus*, one ReadyForQuery(I)", collapse(pg.Types(msgs)))
	}
	user := p.user()
	exp := cfg.expectStatus(user)
	c.Count("parameter_status_multisets_compared", 1)
	var keys []string
	for k := range exp {
		keys = append(keys, k)
	}
	for k := range got {
		if _, ok := exp[k]; !ok {
			keys = append(keys, k)
		}
	}
	sort.Strings(keys)
	for _, k := range keys {
		e, eok := exp[k]
		g, gok := got[k]
		switch {
		case eok && !gok:
			return viol("status-missing", "ParameterStatus missing: "+classKey(k), fmt.Sprintf("key %q expected %q", k, e))
		case !eok && gok:
			return viol("status-unexpected", "unexpected ParameterStatus", fmt.Sprintf("key %q = %q", k, g))
		case e == "\x00on-or-off":
			if g != "on" && g != "off" {
				return viol("status-value", "is_superuser value", g)
			}
		case e != g:
			return viol("status-value", "ParameterStatus value wrong: "+classKey(k), fmt.Sprintf("key %q = %q want %q", k, g, e))
		}
	}
	// what the handler sees - at once, or after some kilobytes of other traffic on the connection
	cl.Wait()
	if core.H64(p.shape())%4 == 1 {
		for i := 0; i < 6; i++ {
			cl.Step(pg.Query("filler " + strings.Repeat("x", 900+i)))
		}
		c.Count("contexts_read_after_5KB_of_traffic", 1)
	}
	cl.Step(pg.Query("read context"))
	var rec *c12ctx
	for _, e := range cl.C.Events() {
		if e.Kind == "cb" && e.Name == "ctx" {
			r := e.Data.(c12ctx)
			rec = &r
		}
	}
	if rec == nil {
		return viol("context", "parser callback did not run", replyKinds(cl.C.Out()))
	}
	c.Count("context_reads_compared", 1)
	sent := map[string][]string{}
	for _, kv := range p.Pairs {
		sent[kv[0]] = append(sent[kv[0]], kv[1])
	}
	if len(rec.Client) != len(sent) {
		return viol("client-params", "handler sees a different set of client parameters", fmt.Sprintf("saw %d keys, sent %d distinct keys", len(rec.Client), len(sent)))
	}
	for k, vs := range sent {
		g, ok := rec.Client[k]
		found := false
		for _, v := range vs {
			if v == g {
				found = true
			}
		}
		if !ok || !found {
			return viol("client-params", "handler sees a client parameter value that was not sent", fmt.Sprintf("key %q: saw %q, sent %q", k, g, vs))
		}
	}
	// AuthenticatedUsername may be any of the sent user values
	uok := len(sent["user"]) == 0 && rec.User == ""
	for _, v := range sent["user"] {
		if v == rec.User {
			uok = true
		}
	}
	if !uok {
		return viol("username", "AuthenticatedUsername is not this connection's user", fmt.Sprintf("saw %q sent %q", rec.User, sent["user"]))
	}
	if got["session_authorization"] != rec.User && len(sent["user"]) <= 1 {
		return viol("username", "session_authorization differs from the authenticated user", fmt.Sprintf("%q vs %q", got["session_authorization"], rec.User))
	}
	if !maps.Equal(rec.Server, got) {
		return viol("server-params", "ServerParameters in the handler differ from the ParameterStatus messages sent", fmt.Sprintf("handler %v wire %v", rec.Server, got))
	}
	if rec.Addr != fmt.Sprintf("mem:%d", conn.ID) {
		return viol("remote-addr", "RemoteAddress is another connection's", rec.Addr)
	}
	cl.Finish()
	c.Count("startups_checked", 1)
	return true
}

func (ch c12) interrupted(c *core.Ctx, env *hs.Env, cfg c12config, rng *core.Rng) {
	var p c12packet
	for p = c12genPacket(rng, "intr"); p.Bad != ""; p = c12genPacket(rng, "intr") {
	}
	exp := cfg.expectStatus(p.user())
	for k := 1; k <= len(exp)+4; k++ {
		cs := map[string]any{"config": fmt.Sprintf("%+v", cfg), "packet": p.shape(), "interrupted_write": k}
		conn := tr.NewConn(nil)
		conn.TempWriteAt = k
		env.L.DialConn(conn)
		conn.Send(p.bytes())
		closed, _ := conn.Quiesce()
		if cfg.Auth && !closed {
			conn.Send(pg.Password("pw"))
			conn.Quiesce()
		}
		conn.CloseWrite()
		if !conn.WaitClosed() {
			c.Inconclusive("connection did not close (C12 interrupted-write workload)")
			return
		}
		out := conn.Out()
		msgs, rest, err := pg.ParseStream(out)
		viol := func(sig, detail string) {
			c.Violate("interrupted", "after an interrupted write: "+sig, fmt.Sprintf("config{params=%d version=%q auth=%v} write %d interrupted half-way: %s; reply %s + %d bytes", len(cfg.Params), cfg.Version, cfg.Auth, k, detail, trim(pg.Kinds(msgs), 300), rest), cs)
		}
		c.Count("interrupted_write_startups", 1)
		if conn.TempFired() > 0 {
			c.Count("interrupted_writes_delivered", 1)
		}
		if err != nil {
			viol("reply not well-formed", err.Error())
			return
		}
		i, seen := 0, map[string]bool{}
		if cfg.Auth && len(msgs) > 0 {
			if msgs[0].T != 'R' || msgs[0].Auth != 3 {
				viol("authentication exchange is not first", "")
				return
			}
			i = 1
		}
		if i < len(msgs) {
			if msgs[i].T != 'R' || msgs[i].Auth != 0 {
				viol("AuthenticationOk does not follow", "")
				return
			}
			i++
		}
		for ; i < len(msgs) && msgs[i].T == 'S'; i++ {
			e, ok := exp[msgs[i].Key]
			if !ok || seen[msgs[i].Key] || (e != msgs[i].Val && e != "\x00on-or-off") {
				viol("ParameterStatus not configured, repeated or with another value", fmt.Sprintf("key %q = %q", msgs[i].Key, msgs[i].Val))
				return
			}
			seen[msgs[i].Key] = true
		}
		if i < len(msgs) && (msgs[i].T != 'Z' || msgs[i].Status != 'I' || i != len(msgs)-1 || len(seen) != len(exp)) {
			viol("reply is not auth, each ParameterStatus once, one ReadyForQuery(I)", collapse(pg.Types(msgs)))
			return
		}
		if rest > 0 {
			// the accepted half of the interrupted message, at the very end of a given-up connection
			tail := out[len(out)-rest:]
			if !strings.ContainsRune("RSZE", rune(tail[0])) {
				viol("trailing bytes are not the head of a message", hexs(tail))
				return
			}
			c.Count("given_up_after_interrupted_write", 1)
		}
		c.Eval(fmt.Sprintf("interrupted write %d cfg{%d,%v,%v}", k, len(cfg.Params), cfg.Version != "", cfg.Auth), true)
	}
}

func classKey(k string) string {
	switch k {
	case "server_encoding", "client_encoding", "is_superuser", "session_authorization", "server_version":
		return k
	}
	return "configured key"
}

func (ch c12) cancel(c *core.Ctx, cfg c12config, stage string) {
	cs := map[string]any{"cancel_stage": stage}
	var env *hs.Env
	if stage == "after-tls" {
		env = hs.Start(c12parse, wire.TLSConfig(hs.ServerTLS()), wire.CloseConn(c12closeConn), wire.TerminateConn(c12closeConn))
	} else {
		env = cfg.start()
	}
	defer env.Stop()
	conn := env.Dial(nil)
	hooksBefore := c12hookCalls.Load()
	defer func() {
		if n := c12hookCalls.Load() - hooksBefore; n != 0 {
			c.Violate("cancel", "user callback on a CancelRequest connection ("+stage+")", fmt.Sprintf("the connection hook ran %d time(s)", n), cs)
		}
	}()
	c.Count("cancel_requests", 1)
	c.Eval("cancel "+stage, true)
	allowed := ""
	switch stage {
	case "first":
		conn.Send(pg.CancelRequest(1234, 5678))
	case "after-N":
		conn.Send(pg.SSLRequest())
		conn.Quiesce()
		allowed = "N"
		conn.Send(pg.CancelRequest(1, 2))
	case "after-tls":
		conn.Send(pg.SSLRequest())
		conn.Quiesce()
		if string(conn.Out()) != "S" {
			c.Violate("cancel", "SSLRequest not answered with S", fmt.Sprintf("%q", conn.Out()), cs)
			return
		}
		tc := tls.Client(&tr.ClientConn{C: conn, Pos: 1}, hs.ClientTLS())
		if err := tc.Handshake(); err != nil {
			c.Violate("cancel", "TLS handshake failed", err.Error(), cs)
			return
		}
		tc.Write(pg.CancelRequest(1, 2))
		// anything the server says afterwards inside TLS would be readable here
		buf := make([]byte, 64)
		n, _ := tc.Read(buf)
		if n > 0 {
			c.Violate("cancel", "protocol reply to a CancelRequest after TLS upgrade", fmt.Sprintf("%q", buf[:n]), cs)
		}
	}
	if ok := conn.WaitClosed(); !ok {
		_, lib := core.ClassifyHang()
		c.Violate("cancel", "connection not closed after CancelRequest ("+stage+")", strings.Join(lib, ";"), cs)
		return
	}
	if stage != "after-tls" && string(conn.Out()) != allowed {
		c.Violate("cancel", "protocol reply to a CancelRequest ("+stage+")", fmt.Sprintf("server wrote %q", conn.Out()), cs)
	}
	for _, e := range conn.Events() {
		if e.Kind == "cb" {
			c.Violate("cancel", "callback on a CancelRequest connection", e.Name, cs)
		}
	}
}

func (ch c12) Run(c *core.Ctx) {
	ncfg, perCfg, groups := 30, 25, 30
	if c.Tier == "thorough" {
		ncfg, perCfg, groups = 1200, 30, 2400
	}
	idx := 0
	for ci := 0; ci < ncfg; ci++ {
		rng := core.NewRng(c.Seed, "C12", c.Batch, ci)
		cfg := c12genConfig(rng)
		before := maps.Clone(cfg.Params)
		env := cfg.start()
		live := wire.Parameters(nil)
		_ = live
		for i := 0; i < perCfg; i++ {
			idx++
			if !c.Begin(idx) || c.NViol() >= 10 {
				continue
			}
			p := c12genPacket(rng, fmt.Sprintf("%d_%d", ci, i))
			cs := map[string]any{"config": fmt.Sprintf("%+v", cfg), "packet": p.shape()}
			ch.connect(c, env, cfg, p, nil, cs)
			dups := strings.Contains(p.shape(), "dups=0")
			c.Eval(fmt.Sprintf("cfg{%d,%v,%v} %s", len(cfg.Params), cfg.Version != "", cfg.Auth, p.shape()), !dups || p.Bad != "" || len(cfg.Params) > 0)
			if ci == 0 && i < 2 {
				c.Sample(map[string]any{"config": fmt.Sprintf("%+v", cfg), "packet": p.shape()})
			}
		}
		// the k-th transport Write interrupted half-way with a temporary (timeout) error, for every k: the
		// connection may end there or the message may be completed; each message still arrives at most once
		// and in order
		if ci%5 == 0 {
			idx++
			if c.Begin(idx) && c.NViol() < 10 {
				ch.interrupted(c, env, cfg, rng)
			}
		}
		// concurrent connects on the same server
		ng := 1
		if ci < groups {
			ng = 1 + rng.Intn(2)
		} else {
			ng = 0
		}
		for g := 0; g < ng; g++ {
			idx++
			if !c.Begin(idx) || c.NViol() >= 10 {
				continue
			}
			n := 2 + rng.Intn(63)
			var wg sync.WaitGroup
			for k := 0; k < n; k++ {
				p := c12genPacket(rng, fmt.Sprintf("%d_g%d_%d", ci, g, k))
				seed := rng.U64()
				wg.Add(1)
				go func(p c12packet) {
					defer wg.Done()
					ch.connect(c, env, cfg, p, tr.YieldFn(seed), map[string]any{"config": fmt.Sprintf("%+v", cfg), "packet": p.shape(), "concurrent": n})
				}(p)
			}
			wg.Wait()
			c.Count("concurrent_groups", 1)
			c.Count("concurrent_connections", int64(n))
			c.Eval(fmt.Sprintf("group n=%d cfg{%d,%v,%v}", n, len(cfg.Params), cfg.Version != "", cfg.Auth), true)
		}
		env.Stop()
		// the configured map must be untouched (the harness built the live map from cfg.Params)
		c.Count("configured_map_compared", 1)
		if !maps.Equal(before, cfg.Params) {
			c.Violate("map-mutated", "harness copy of the configured map changed", "", nil)
		}
		if env.Srv.Parameters != nil {
			lm := map[string]string{}
			for k, v := range env.Srv.Parameters {
				lm[string(k)] = v
			}
			if !maps.Equal(lm, before) {
				c.Violate("map-mutated", "the user-supplied global parameter map was modified", fmt.Sprintf("now %v, configured %v", lm, before), map[string]any{"config": fmt.Sprintf("%+v", cfg)})
			}
		}
		// cancel requests
		stage := []string{"first", "after-N", "after-tls"}[ci%3]
		idx++
		if c.Begin(idx) {
			ch.cancel(c, cfg, stage)
		}
	}
}
