package checks

import (
	"bytes"
	"fmt"
	"sort"
	"strings"

	wire "github.com/jeroenrinzema/psql-wire"
	"github.com/lib/pq/oid"

	"verifharness/core"
	"verifharness/hs"
	"verifharness/pg"
)

// C13 - COPY-in: data delivered in order, abort reported exactly once.

type c13 struct{ base }

func init() {
	core.Register(c13{base{id: "C13", level: "exploration", quickB: 16, thoroughB: 32,
		rule:        "after a scripted COPY handler starts COPY-in (1-20 columns, text or binary), the client sends sequences over {CopyData(payload of size 0,1,4095-4097,near L,random), Flush, Sync} ended by one of {CopyDone, CopyFail(text), Query, Parse, unknown-type message, oversized CopyData, Terminate, nothing (handler stops first)}, followed by stray CopyData/CopyDone/CopyFail and a probe Query; handler variants: read to the end and propagate errors / answer an abort with its own error / stop after k chunks with its own error / stop after k chunks and complete / swallow the abort and complete; the handler's own error is plain or wraps io.ErrUnexpectedEOF, net.ErrClosed, context.Canceled or io.EOF. Simple-Query mode and Execute mode (trailing Sync). Row-reader part: generated binary tables (1-3 columns, 0-3 rows, with/without trailer) cut into CopyData messages with interleaved Flush/Sync, read through the binary row reader of the library, ended by CopyDone / CopyFail / Query / Parse / unknown message - rows must arrive, CopyDone is io.EOF, everything else a non-EOF error also after the trailer. quick: exhaustive sequences of length <= 4 over a 6-symbol alphabet x terminators + random length <= 8; lock-step, every step's reply and the chunks/errors the handler observed are compared with the COPY model. Non-trivial = abort path, interleaved Flush/Sync, stop-early handler or stray messages; distinct = (mode, handler variant, message-kind sequence).",
		need:        []string{"row_reader_cycles", "copy_cycles", "chunks_compared", "copyfail_aborts", "foreign_message_aborts", "flush_sync_ignored", "stray_copy_messages", "handler_stops_early", "execute_mode_cycles"},
		assumptions: append([]string{"'exactly one ErrorResponse' is judged for handlers that propagate the reader's error or fail themselves; a handler that swallows the abort and completes is judged for well-formedness, chunk fidelity and a single ReadyForQuery"}, commonAssumptions...)}})
}

type c13case struct {
	NCols   int
	Format  int16
	Exec    bool     // Execute mode
	Seq     []string // d:<size> H S
	Term    string   // done fail query parse unknown oversize none
	Handler string   // propagate | stop-own | stop-complete | swallow
	StopAt  int
	Strays  []string
	OwnErr  int // which error the handler fails with (index into hs.OwnErrs)
}

func (k c13case) sig() string {
	seq := make([]string, len(k.Seq))
	for i, s := range k.Seq {
		seq[i] = s[:1]
	}
	return fmt.Sprintf("exec=%v h=%s@%d/e%d [%s] %s strays=%d", k.Exec, k.Handler, k.StopAt, k.OwnErr, strings.Join(seq, ""), k.Term, len(k.Strays))
}

const c13L = 1 << 16

func c13payload(rng *core.Rng, tag string) []byte {
	sizes := []int{0, 1, 2, 100, 4095, 4096, 4097, 8192, c13L - 1, c13L, 40000}
	n := core.Pick(rng, sizes)
	if rng.Intn(3) == 0 {
		n = rng.Intn(300)
	}
	b := rng.Bytes(n)
	copy(b, tag)
	if rng.Intn(8) == 0 {
		// payloads are opaque to the server: text that a COPY text parser would read as its end-of-data
		// marker, in a message of its own or at the end of one
		return []byte(core.Pick(rng, []string{"\\.\n", "\\.", "1\ta\n\\.\n", tag + "\n\\.\n", "\\.\r\n", "\n\\.\n"}))
	}
	return b
}

func (ch c13) runCase(c *core.Ctx, env *hs.Env, k c13case, rng *core.Rng, idx int) {
	cs := map[string]any{"case": k.sig()}
	viol := func(rule, sig, detail string) {
		c.Violate(rule, sig, fmt.Sprintf("case %s: %s", k.sig(), detail), cs)
	}
	cols := wire.Columns{}
	for j := 0; j < k.NCols; j++ {
		cols = append(cols, wire.Column{Name: fmt.Sprintf("c%d", j), Oid: oid.T_text, Width: -1})
	}
	plan := &hs.CopyPlan{Format: wire.FormatCode(k.Format), MaxReads: -1, OnErr: "propagate", OwnErr: k.OwnErr}
	if k.Handler == "own-on-error" {
		plan.OnErr = "own"
	}
	switch k.Handler {
	case "stop-own":
		plan.MaxReads, plan.OnStop = k.StopAt, "own"
	case "stop-complete":
		plan.MaxReads, plan.OnStop = k.StopAt, "complete"
	case "swallow":
		plan.OnErr = "complete"
	}
	probe := &hs.Prog{Stmts: []*hs.Stmt{{ID: "probe", Cols: textCols(1), Ops: []hs.Op{{K: "row", Vals: []any{"p"}}, {K: "complete", Tag: "SELECT 1"}}}}}
	sess := &hs.Sess{Progs: map[string]*hs.Prog{
		"copy":  {Stmts: []*hs.Stmt{{ID: "copy", Cols: cols, Params: []oid.Oid{}, Ops: []hs.Op{{K: "copy", Copy: plan}}}}},
		"probe": probe,
		"never": probe,
	}}
	cl := hs.NewClient(env.Dial(sess))
	if err := cl.StartupOK("u"); err != nil {
		viol("startup", "startup failed", err.Error())
		return
	}
	defer cl.Finish()
	step := func(what string, in []byte, want string) bool {
		out, closed := cl.Step(in)
		if hangCheck(c, cl, cs) {
			return false
		}
		msgs, err := parseAll(out)
		if err != nil {
			viol("grammar", "reply not well-formed after "+what, err.Error())
			return false
		}
		got := pg.Types(msgs)
		if closed {
			viol("dropped", "connection dropped after "+what, "reply "+got)
			return false
		}
		if got != want {
			viol("reply", fmt.Sprintf("after %s (handler %s, exec=%v): got %q want %q", what, k.Handler, k.Exec, got, want), trim(replyKinds(out), 300))
			return false
		}
		if strings.Contains(want, "G") {
			g := msgs[len(msgs)-1]
			okG := g.T == 'G' && int16(g.CopyFmt) == k.Format && len(g.CopyCols) == k.NCols
			for _, f := range g.CopyCols {
				if f != k.Format {
					okG = false
				}
			}
			if !okG {
				viol("copyin-response", "CopyInResponse does not announce the requested format per column", fmt.Sprintf("format=%d cols=%v want format %d x %d", g.CopyFmt, g.CopyCols, k.Format, k.NCols))
				return false
			}
		}
		if strings.Contains(want, "E") && k.Term == "oversize" && (k.Handler == "propagate" || k.Handler == "swallow") {
			for _, m := range msgs {
				if m.T == 'E' && (m.Err['C'] != "54000" || m.Err['S'] != "ERROR") {
					viol("oversize-error", "oversized CopyData not reported as ERROR/54000", fmt.Sprint(m.Err))
					return false
				}
			}
		}
		return true
	}
	// start the COPY
	if k.Exec {
		// the Bind's result-format codes concern result rows, not the COPY-in format the handler asks for
		var rf []int16
		switch idx % 4 {
		case 1:
			rf = []int16{1 - k.Format}
		case 2:
			rf = []int16{k.Format}
		case 3:
			for j := 0; j < k.NCols; j++ {
				rf = append(rf, int16((idx+j)%2))
			}
		}
		in := append(append(pg.Parse("", "copy", nil), pg.Bind("", "", nil, nil, rf)...), pg.Execute("", 0)...)
		if !step("Parse/Bind/Execute", in, "12G") {
			return
		}
		c.Count("execute_mode_cycles", 1)
	} else {
		if idx%4 == 1 {
			// the COPY query arrives inside an open extended-query sequence (Parse + Flush, no Sync yet)
			if !step("Parse + Flush before the COPY query", append(pg.Parse("pre", "probe", nil), pg.Flush()...), "1") {
				return
			}
			c.Count("copy_inside_open_extended_sequence", 1)
		}
		if !step("Query", pg.Query("copy"), "TG") { // simple mode announces the columns first
			return
		}
	}
	c.Count("copy_cycles", 1)
	// model of what the handler must observe
	var wantChunks [][]byte
	reads := 0 // successful chunk reads so far
	active := true
	stopped := func() bool {
		return (k.Handler == "stop-own" || k.Handler == "stop-complete") && reads >= k.StopAt
	}
	endReply := func(kind string) string { // reply when the cycle ends
		r := ""
		switch kind {
		case "complete":
			r = "C"
		default:
			r = "E"
		}
		if !k.Exec {
			r += "Z"
		}
		return r
	}
	skipping := false // Execute mode: after an error, discard until Sync
	// a handler with StopAt==0 ends the cycle right after CopyInResponse: that
	// reply was already part of the first step for stop handlers
	if stopped() {
		// handler returned immediately: its end-of-cycle reply followed G in the same step
		// (re-check: the first step must have contained it)
		viol("harness", "stop-at-0 handlers are not generated", "")
		return
	}
	for i, s := range k.Seq {
		what := fmt.Sprintf("message %d (%s)", i, s[:1])
		switch s[0] {
		case 'd':
			p := c13payload(rng, fmt.Sprintf("chunk%d-", i))
			want := ""
			if active {
				wantChunks = append(wantChunks, p)
				reads++
				if stopped() {
					active = false
					c.Count("handler_stops_early", 1)
					if k.Handler == "stop-own" {
						want = endReply("error")
						skipping = k.Exec
					} else {
						want = endReply("complete")
					}
				}
			} else {
				c.Count("stray_copy_messages", 1)
			}
			if !step(what, pg.CopyData(p), want) {
				return
			}
		case 'H':
			if active {
				c.Count("flush_sync_ignored", 1)
			}
			if !step(what, pg.Flush(), "") {
				return
			}
		case 'S':
			want := ""
			if active {
				c.Count("flush_sync_ignored", 1)
			} else {
				want = "Z" // a Sync outside COPY mode is an ordinary Sync
				skipping = false
			}
			if !step(what, pg.Sync(), want) {
				return
			}
		}
	}
	// terminator
	termWant := ""
	var termMsg []byte
	handlerSawErr := false
	switch k.Term {
	case "done":
		termMsg = pg.CopyDone()
		if active {
			termWant = endReply("complete")
		}
	case "fail":
		termMsg = pg.CopyFail("client gives up")
		if active {
			handlerSawErr = true
			c.Count("copyfail_aborts", 1)
		}
	case "query":
		termMsg = pg.Query("never")
		handlerSawErr = active
	case "parse":
		termMsg = pg.Parse("x", "never", nil)
		handlerSawErr = active
	case "unknown":
		termMsg = pg.Raw('F', []byte{0, 0, 0, 1})
		handlerSawErr = active
	case "terminate":
		termMsg = pg.Terminate()
		handlerSawErr = active
	case "oversize":
		termMsg = pg.Raw('d', bytes.Repeat([]byte{'o'}, c13L+1+rng.Intn(3*c13L)))
		handlerSawErr = active
	}
	if handlerSawErr {
		if k.Term != "fail" {
			c.Count("foreign_message_aborts", 1)
		}
		if k.Handler == "swallow" {
			termWant = endReply("complete")
		} else {
			termWant = endReply("error")
			skipping = k.Exec
		}
	}
	if k.Term != "none" {
		if !active && (k.Term == "query" || k.Term == "parse" || k.Term == "unknown" || k.Term == "oversize" || k.Term == "terminate") {
			viol("harness", "foreign terminator after the handler stopped is not generated", "")
			return
		}
		if !active {
			c.Count("stray_copy_messages", 1)
		}
		if k.Term == "terminate" {
			out, _ := cl.Step(termMsg)
			if hangCheck(c, cl, cs) {
				return
			}
			if _, err := parseAll(out); err != nil {
				viol("grammar", "reply not well-formed after Terminate during COPY", err.Error())
				return
			}
			var last *hs.CopyRec
			for _, e := range cl.C.Events() {
				if e.Kind == "cb" && e.Name == "copyread" {
					r := e.Data.(hs.CopyRec)
					last = &r
				}
			}
			c.Count("foreign_message_aborts", 1)
			if last == nil || last.ErrNil || last.EOF {
				viol("abort-as-success", "terminate surfaced to the handler as end-of-stream or success", fmt.Sprintf("last observation %+v; reply %s", last, replyKinds(out)))
				return
			}
			if strings.Contains(pg.Types(mustMsgs(out)), "C") {
				viol("abort-as-success", "COPY interrupted by Terminate was completed", replyKinds(out))
			}
			c.Eval(k.sig(), true)
			return
		}
		if !step("terminator "+k.Term, termMsg, termWant) {
			return
		}
		active = false
	}
	if active {
		// COPY still running (no terminator): end it so the connection can finish
		if !step("final CopyDone", pg.CopyDone(), endReply("complete")) {
			return
		}
		active = false
	}
	// handler observations
	var got []hs.CopyRec
	for _, e := range cl.C.Events() {
		if e.Kind == "cb" && e.Name == "copyread" {
			got = append(got, e.Data.(hs.CopyRec))
		}
	}
	gi := 0
	for i, w := range wantChunks {
		if gi >= len(got) || !got[gi].ErrNil {
			viol("chunks", "handler did not receive every CopyData payload", fmt.Sprintf("chunk %d of %d missing; observations %d", i, len(wantChunks), len(got)))
			return
		}
		if !bytes.Equal(got[gi].Chunk, w) {
			viol("chunk-bytes", "CopyData payload not delivered byte-exact", fmt.Sprintf("chunk %d: got %s want %s", i, hexs(got[gi].Chunk), hexs(w)))
			return
		}
		c.Count("chunks_compared", 1)
		gi++
	}
	rest := got[gi:]
	switch {
	case len(rest) == 0:
		if k.Handler == "propagate" || k.Handler == "swallow" {
			viol("end", "handler never saw the end of the stream", "")
			return
		}
	case len(rest) > 1:
		viol("end", "handler saw more reads than the model", fmt.Sprintf("%d extra observations: %+v", len(rest), rest[0]))
		return
	default:
		r := rest[0]
		if handlerSawErr {
			if r.ErrNil || r.EOF {
				viol("abort-as-success", fmt.Sprintf("%s surfaced to the handler as %s", k.Term, map[bool]string{true: "end-of-stream", false: "success"}[r.EOF]), fmt.Sprintf("observation %+v", r))
				return
			}
		} else if !r.EOF {
			viol("done", "CopyDone did not surface as io.EOF", fmt.Sprintf("observation %+v", r))
			return
		}
	}
	// after the cycle: stray COPY messages are ignored without reply
	if idx%17 == 3 {
		// many stray COPY messages in a row (a client that keeps streaming after the abort)
		n := []int{65, 100, 300, 1000}[(idx/17)%4]
		var burst []byte
		for j := 0; j < n; j++ {
			burst = append(burst, pg.CopyData([]byte("late row\n"))...)
		}
		burst = append(burst, pg.CopyDone()...)
		c.Count("stray_copy_messages", int64(n+1))
		c.Count("stray_bursts", 1)
		if !step(fmt.Sprintf("%d stray CopyData + CopyDone", n), burst, "") {
			return
		}
	}
	for _, s := range k.Strays {
		var m []byte
		switch s {
		case "d":
			m = pg.CopyData([]byte("stray"))
		case "c":
			m = pg.CopyDone()
		default:
			m = pg.CopyFail("stray")
		}
		c.Count("stray_copy_messages", 1)
		if !step("stray "+s, m, "") {
			return
		}
	}
	if k.Exec {
		if !step("Sync", pg.Sync(), "Z") {
			return
		}
	} else if skipping {
		viol("harness", "skipping in simple mode", "")
	}
	if !step("probe Query", pg.Query("probe"), "TDCZ") {
		return
	}
	if idx%3 == 0 && (k.Handler == "propagate" || k.Handler == "swallow") {
		// a second COPY on the same connection starts from a clean slate
		evStart := len(cl.C.Events())
		second := []byte(fmt.Sprintf("second-copy-%d", idx))
		if !step("second COPY Query", pg.Query("copy"), "TG") || !step("second CopyData", pg.CopyData(second), "") || !step("second CopyDone", pg.CopyDone(), "CZ") {
			return
		}
		var recs []hs.CopyRec
		for _, e := range cl.C.Events()[evStart:] {
			if e.Kind == "cb" && e.Name == "copyread" {
				recs = append(recs, e.Data.(hs.CopyRec))
			}
		}
		if len(recs) != 2 || !recs[0].ErrNil || !bytes.Equal(recs[0].Chunk, second) || !recs[1].EOF {
			viol("second-copy", "a second COPY on the same connection does not deliver its data", fmt.Sprintf("observations %+v", recs))
			return
		}
		c.Count("second_copy_cycles", 1)
	}
	nt := k.Term != "done" || k.Handler != "propagate" || len(k.Strays) > 0 || strings.ContainsAny(strings.Join(k.Seq, ""), "HS")
	c.Eval(k.sig(), nt)
	if idx < 3 {
		c.Sample(map[string]any{"case": k.sig(), "server_output": trim(replyKinds(cl.C.Out()), 300)})
	}
}

// runRows: the same end-of-stream / abort rules observed through the library's binary row
// reader: a well-formed binary stream (with or without the trailer) cut into CopyData
// messages interleaved with Flush/Sync, then the terminator, lock-step.
func (ch c13) runRows(c *core.Ctx, env *hs.Env, rng *core.Rng, idx int) {
	t := c14gen(rng, true)
	switch rng.Intn(6) {
	case 0, 1:
		// no file header: the stream starts with the first row (tiny streams included: one row of one NULL
		// is 6 bytes, shorter than the signature a reader looks for)
		t.NoHeader = true
		c.Count("row_reader_streams_without_header", 1)
	case 2:
		// low (non-critical) bits of the header's flags field set
		t.Flags = core.Pick(rng, []uint32{1, 0x100, 0x8000, 0xffff, uint32(rng.Intn(1 << 16))})
		c.Count("row_reader_streams_with_header_flags", 1)
	case 3:
		t.Ext = rng.Bytes(1 + rng.Intn(24))
		c.Count("row_reader_streams_with_header_extension", 1)
	}
	stream, _ := t.encode()
	if len(stream) == 0 {
		t.NoHeader = false
		stream, _ = t.encode()
	}
	if t.Trailer && rng.Intn(5) == 0 {
		// bytes behind the end-of-data trailer (padding a tool appends): not rows, and no reason not to end
		stream = append(stream, rng.Bytes(1+rng.Intn(40))...)
		c.Count("row_reader_streams_with_bytes_behind_the_trailer", 1)
	}
	term := core.Pick(rng, []string{"done", "fail", "fail", "query", "parse", "unknown"})
	handler := core.Pick(rng, []string{"propagate", "propagate", "swallow"})
	exec := rng.Intn(3) == 0
	if _, ends := t.encode(); term != "done" && len(ends) > 0 && !t.NoHeader && rng.Intn(3) == 0 {
		// the abort arrives while a row is incomplete (behind its field count, inside a length word or a value):
		// the rows before it, then the abort - reported once
		k := rng.Intn(len(ends))
		from := t.hdrLen()
		if k > 0 {
			from = ends[k-1]
		}
		if ends[k]-from > 2 {
			whole, _ := t.encode()
			stream = whole[:from+2+rng.Intn(ends[k]-from-2)]
			t.Rows, t.Trailer = t.Rows[:k], false
			c.Count("row_reader_streams_aborted_inside_a_row", 1)
		}
	}
	sig := fmt.Sprintf("rows cols=%d rows=%d trailer=%v exec=%v h=%s %s", len(t.OIDs), len(t.Rows), t.Trailer, exec, handler, term)
	cs := map[string]any{"case": sig}
	viol := func(rule, s, detail string) {
		c.Violate(rule, s, fmt.Sprintf("case %s: %s", sig, detail), cs)
	}
	cols := wire.Columns{}
	for j, o := range t.OIDs {
		cols = append(cols, wire.Column{Name: fmt.Sprintf("c%d", j), Oid: oid.Oid(o), Width: -1})
	}
	plan := &hs.CopyPlan{Format: wire.BinaryFormat, MaxReads: -1, OnErr: "propagate", Binary: true}
	if handler == "swallow" {
		plan.OnErr = "complete"
	}
	probe := &hs.Prog{Stmts: []*hs.Stmt{{ID: "probe", Cols: textCols(1), Ops: []hs.Op{{K: "row", Vals: []any{"p"}}, {K: "complete", Tag: "SELECT 1"}}}}}
	sess := &hs.Sess{Progs: map[string]*hs.Prog{
		"copy":  {Stmts: []*hs.Stmt{{ID: "copy", Cols: cols, Params: []oid.Oid{}, Ops: []hs.Op{{K: "copy", Copy: plan}}}}},
		"probe": probe, "never": probe,
	}}
	cl := hs.NewClient(env.Dial(sess))
	if err := cl.StartupOK("u"); err != nil {
		viol("startup", "startup failed", err.Error())
		return
	}
	defer cl.Finish()
	step := func(what string, in []byte, want string) bool {
		out, closed := cl.Step(in)
		if hangCheck(c, cl, cs) {
			return false
		}
		msgs, err := parseAll(out)
		if err != nil {
			viol("grammar", "reply not well-formed after "+what, err.Error())
			return false
		}
		if got := pg.Types(msgs); closed || got != want {
			viol("reply", fmt.Sprintf("row reader, after %s (handler %s, exec=%v, trailer=%v): got %q want %q", what, handler, exec, t.Trailer, got, want), fmt.Sprintf("closed=%v %s", closed, trim(replyKinds(out), 300)))
			return false
		}
		return true
	}
	if exec {
		if !step("Parse/Bind/Execute", append(append(pg.Parse("", "copy", nil), pg.Bind("", "", nil, nil, nil)...), pg.Execute("", 0)...), "12G") {
			return
		}
	} else if !step("Query", pg.Query("copy"), "TG") {
		return
	}
	c.Count("row_reader_cycles", 1)
	var cuts []int
	for n := rng.Intn(5); n > 0; n-- {
		cuts = append(cuts, 1+rng.Intn(len(stream)))
	}
	if t.Trailer && rng.Bool() {
		cuts = append(cuts, len(stream)-2) // the trailer in a message of its own
	}
	sort.Ints(cuts)
	prev := 0
	for _, k := range append(cuts, len(stream)) {
		if k <= prev {
			continue
		}
		if !step(fmt.Sprintf("CopyData [%d:%d] of %d", prev, k, len(stream)), pg.CopyData(stream[prev:k]), "") {
			return
		}
		prev = k
		if rng.Intn(4) == 0 {
			if !step("Flush/Sync inside COPY", core.Pick(rng, [][]byte{pg.Flush(), pg.Sync()}), "") {
				return
			}
		}
	}
	end := func(kind string) string {
		if exec {
			return kind
		}
		return kind + "Z"
	}
	var termMsg []byte
	want := end("E")
	switch term {
	case "done":
		termMsg, want = pg.CopyDone(), end("C")
	case "fail":
		termMsg = pg.CopyFail("client gives up after the rows")
		c.Count("copyfail_aborts", 1)
	case "query":
		termMsg = pg.Query("never")
	case "parse":
		termMsg = pg.Parse("x", "never", nil)
	default:
		termMsg = pg.Raw('F', []byte{0, 0, 0, 1})
	}
	if term != "done" && handler == "swallow" {
		want = end("C")
	}
	if !step("terminator "+term, termMsg, want) {
		return
	}
	var got []hs.CopyRec
	for _, e := range cl.C.Events() {
		if e.Kind == "cb" && e.Name == "copyread" {
			got = append(got, e.Data.(hs.CopyRec))
		}
	}
	rows := t.Rows
	if t.NoHeader && term != "done" && len(stream) < 19 && len(got) >= 1 && len(got) <= len(rows) {
		// a stream without header, shorter than a header, that is aborted: a reader still looking for the
		// optional header when the abort arrives may report the abort before the rows (the property asks
		// for the error, not for the rows of an aborted COPY)
		rows = rows[:len(got)-1]
		c.Count("aborted_while_looking_for_the_header", 1)
	}
	if len(got) != len(rows)+1 {
		viol("rows", "row reader observations differ from the rows sent", fmt.Sprintf("%d observations for %d rows + end", len(got), len(rows)))
		return
	}
	for i, w := range rows {
		if !got[i].ErrNil {
			viol("rows", "row reader failed on a well-formed row", got[i].Err)
			return
		}
		if d := c14rowEq(t.OIDs, got[i].Row, w); d != "" {
			viol("rows", "row differs from the row sent", fmt.Sprintf("row %d: %s", i, d))
			return
		}
		c.Count("chunks_compared", 1)
	}
	last := got[len(got)-1]
	if term == "done" {
		if !last.EOF {
			viol("done", "CopyDone did not surface as io.EOF (row reader)", fmt.Sprintf("observation %+v", last))
			return
		}
	} else if last.ErrNil || last.EOF {
		viol("abort-as-success", fmt.Sprintf("%s surfaced to the row reader as %s", term, map[bool]string{true: "end-of-stream", false: "success"}[last.EOF]), fmt.Sprintf("observation %+v", last))
		return
	}
	if exec && !step("Sync", pg.Sync(), "Z") {
		return
	}
	if !step("probe Query", pg.Query("probe"), "TDCZ") {
		return
	}
	c.Eval(sig, term != "done" || t.Trailer)
}

func mustMsgs(out []byte) []pg.BMsg {
	m, _, _ := pg.ParseStream(out)
	return m
}

func (ch c13) Run(c *core.Ctx) {
	nb := ch.Batches(c.Tier)
	env := hs.Start(hs.Parse, wire.MessageBufferSize(c13L))
	defer env.Stop()
	terms := []string{"done", "fail", "query", "parse", "unknown", "oversize", "terminate", "none"}
	handlers := []string{"propagate", "stop-own", "stop-complete", "swallow", "own-on-error"}
	fix := func(k *c13case, rng *core.Rng) {
		nd := 0
		for _, s := range k.Seq {
			if s[0] == 'd' {
				nd++
			}
		}
		if k.Handler == "stop-own" || k.Handler == "stop-complete" {
			if nd == 0 {
				k.Handler = "propagate"
			} else {
				k.StopAt = 1 + rng.Intn(nd)
				// once the handler has stopped only COPY messages, Flush and Sync may follow
				if k.Term != "done" && k.Term != "fail" && k.Term != "none" {
					k.Term = "done"
				}
			}
		}
		if k.Term == "terminate" {
			// after a Terminate the server may go on or close the connection: nothing is sent afterwards
			k.Strays = nil
			if k.Handler == "swallow" {
				k.Handler = "propagate"
			}
		}
		if k.Exec {
			// in Execute mode a Sync after the handler stopped would end the batch early: keep Sync inside COPY only
			if k.Handler == "stop-own" || k.Handler == "stop-complete" {
				seen := 0
				for i, s := range k.Seq {
					if s[0] == 'd' {
						seen++
					}
					if seen >= k.StopAt && s[0] == 'S' {
						k.Seq[i] = "H"
					}
				}
			}
		}
	}
	idx := 0
	alpha := []string{"d", "d", "H", "S"}
	total := 0
	var rec func(cur []string)
	rec = func(cur []string) {
		for ti, term := range terms {
			for hi, h := range handlers {
				if total%nb == c.Batch && c.Begin(idx) && c.NViol() < 10 {
					rng := core.NewRng(c.Seed, "C13e", 0, total)
					k := c13case{NCols: 1 + (total % 20), Format: int16(total % 2), Exec: (total/2)%3 == 0, Seq: append([]string(nil), cur...), Term: term, Handler: h, OwnErr: total % len(hs.OwnErrs)}
					for n := (ti + hi) % 3; n > 0; n-- {
						k.Strays = append(k.Strays, core.Pick(rng, []string{"d", "c", "f"}))
					}
					fix(&k, rng)
					ch.runCase(c, env, k, rng, idx)
				}
				total++
				idx++
			}
		}
		if len(cur) == 3 {
			return
		}
		for _, a := range alpha {
			rec(append(cur, a))
		}
	}
	rec(nil)
	if c.Batch == 0 {
		c.Count("exhaustive_parts", 1)
	}
	nrand := 30000
	if c.Tier == "thorough" {
		nrand = 1500000
	}
	for i := c.Batch; i < nrand; i += nb {
		idx = 1000000 + i
		if !c.Begin(idx) || c.NViol() >= 10 {
			continue
		}
		rng := core.NewRng(c.Seed, "C13", 0, i)
		k := c13case{NCols: core.Pick(rng, []int{1, 2, 3, 5, 20, 255, 256, 1000, 1600}), Format: int16(rng.Intn(2)), Exec: rng.Intn(3) == 0, Term: core.Pick(rng, terms), Handler: core.Pick(rng, handlers), OwnErr: rng.Intn(len(hs.OwnErrs))}
		for n := rng.Intn(9); n > 0; n-- {
			k.Seq = append(k.Seq, core.Pick(rng, []string{"d", "d", "d", "H", "S"}))
		}
		for n := rng.Intn(4); n > 0; n-- {
			k.Strays = append(k.Strays, core.Pick(rng, []string{"d", "c", "f"}))
		}
		fix(&k, rng)
		ch.runCase(c, env, k, rng, idx)
	}
	if c.Batch == 1%nb && c.Begin(2999990) {
		ch.oneSegment(c, env)
	}
	// COPY started by a statement without columns: CopyIn fails, the handler's error ends the cycle
	if c.Begin(2999999) {
		for _, exec := range []bool{false, true} {
			plan := &hs.CopyPlan{Format: wire.TextFormat, MaxReads: -1, OnErr: "propagate"}
			probe := &hs.Prog{Stmts: []*hs.Stmt{{ID: "probe", Cols: textCols(1), Ops: []hs.Op{{K: "row", Vals: []any{"p"}}, {K: "complete", Tag: "SELECT 1"}}}}}
			sess := &hs.Sess{Progs: map[string]*hs.Prog{"copy": {Stmts: []*hs.Stmt{{ID: "copy", Params: []oid.Oid{}, Ops: []hs.Op{{K: "copy", Copy: plan}}}}}, "probe": probe}}
			cl := hs.NewClient(env.Dial(sess))
			if err := cl.StartupOK("u"); err != nil {
				continue
			}
			in, want := pg.Query("copy"), "EZ"
			if exec {
				in = append(append(append(pg.Parse("", "copy", nil), pg.Bind("", "", nil, nil, nil)...), pg.Execute("", 0)...), pg.Sync()...)
				want = "12EZ"
			}
			out, closed := cl.Step(in)
			out2, _ := cl.Step(pg.Query("probe"))
			if got := pg.Types(mustMsgs(out)); closed || got != want || pg.Types(mustMsgs(out2)) != "TDCZ" {
				c.Violate("no-columns", "COPY started without columns does not end in one ErrorResponse and one ReadyForQuery", fmt.Sprintf("exec=%v reply %q (want %q), probe %q", exec, got, want, pg.Types(mustMsgs(out2))), nil)
			}
			c.Count("copy_without_columns", 1)
			cl.Finish()
		}
	}
	for i := c.Batch; i < nrand/5; i += nb {
		idx = 3000000 + i
		if !c.Begin(idx) || c.NViol() >= 10 {
			continue
		}
		ch.runRows(c, env, core.NewRng(c.Seed, "C13rows", 0, i), idx)
	}
	// the handler reads one row through the row reader and then gives up for a reason of its own while the
	// client pauses; what the client sends next (Sync, a Query, more CopyData and CopyDone) is the command
	// loop's to read: one ErrorResponse, one ReadyForQuery, the next Query answered
	if c.Batch == 2%nb && c.Begin(4100000) {
		for v := 0; v < 4; v++ {
			t := c14table{OIDs: []uint32{pg.OIDInt4, pg.OIDText}, Rows: [][]any{{int32(1), "one"}, {int32(2), "two"}, {int32(3), "three"}}, Trailer: true}
			stream, ends := t.encode()
			plan := &hs.CopyPlan{Format: wire.BinaryFormat, MaxReads: 1, OnStop: "own", OnErr: "propagate", Binary: true}
			cols := wire.Columns{{Name: "a", Oid: oid.T_int4, Width: 4}, {Name: "b", Oid: oid.T_text, Width: -1}}
			probe := &hs.Prog{Stmts: []*hs.Stmt{{ID: "probe", Cols: textCols(1), Ops: []hs.Op{{K: "row", Vals: []any{"p"}}, {K: "complete", Tag: "SELECT 1"}}}}}
			sess := &hs.Sess{Progs: map[string]*hs.Prog{"copy": {Stmts: []*hs.Stmt{{ID: "copy", Cols: cols, Params: []oid.Oid{}, Ops: []hs.Op{{K: "copy", Copy: plan}}}}}, "probe": probe}}
			cl := hs.NewClient(env.Dial(sess))
			if err := cl.StartupOK("u"); err != nil {
				continue
			}
			exec := v%2 == 1
			var steps [][]byte
			var want []string
			if exec {
				steps, want = append(steps, append(append(pg.Parse("", "copy", nil), pg.Bind("", "", nil, nil, nil)...), pg.Execute("", 0)...)), append(want, "12G")
				steps, want = append(steps, pg.CopyData(stream[:ends[0]])), append(want, "E")
				steps, want = append(steps, pg.Sync()), append(want, "Z")
			} else {
				steps, want = append(steps, pg.Query("copy")), append(want, "TG")
				steps, want = append(steps, pg.CopyData(stream[:ends[0]])), append(want, "EZ")
			}
			if v >= 2 {
				steps, want = append(steps, pg.CopyData(stream[ends[0]:])), append(want, "")
				steps, want = append(steps, pg.CopyDone()), append(want, "")
			}
			steps, want = append(steps, pg.Query("probe")), append(want, "TDCZ")
			var got []string
			for _, in := range steps {
				out, _ := cl.Step(in)
				got = append(got, pg.Types(mustMsgs(out)))
				if hangCheck(c, cl, nil) {
					return
				}
			}
			c.Count("row_reader_handlers_that_stop_early", 1)
			c.Eval(fmt.Sprintf("row reader stops early %d", v), true)
			if strings.Join(got, "|") != strings.Join(want, "|") {
				c.Violate("stop-early", "after a row-reader handler gave up in the middle of the stream the cycle does not end with one error and one ReadyForQuery, or what the client sends next is not answered", fmt.Sprintf("variant %d (extended=%v): replies %q want %q", v, exec, got, want), map[string]any{"variant": v})
			}
			cl.C.CloseWrite()
			cl.C.WaitClosed()
		}
	}
	// one statement that asks for COPY data twice (a second CopyIn on the same writer once the first
	// stream has ended): each stream is announced and delivered like the first
	if c.Batch == 1%nb && c.Begin(4000000) {
		for v, ends := range [][2][]byte{{pg.CopyDone(), pg.CopyDone()}, {pg.CopyDone(), pg.CopyFail("second stream aborted")}} {
			first := &hs.CopyPlan{Format: wire.TextFormat, MaxReads: -1, OnErr: "propagate", NoComplete: true}
			second := &hs.CopyPlan{Format: wire.TextFormat, MaxReads: -1, OnErr: "propagate"}
			sess := &hs.Sess{Progs: map[string]*hs.Prog{"twice": {Stmts: []*hs.Stmt{{ID: "twice", Cols: textCols(1), Ops: []hs.Op{{K: "copy", Copy: first}, {K: "copy", Copy: second}}}}}}}
			cl := hs.NewClient(env.Dial(sess))
			if err := cl.StartupOK("u"); err != nil {
				continue
			}
			var got []string
			for _, in := range [][]byte{pg.Query("twice"), pg.CopyData([]byte("a1\n")), pg.CopyData([]byte("a2\n")), ends[0], pg.CopyData([]byte("b1\n")), ends[1], pg.Query("twice")} {
				out, _ := cl.Step(in)
				got = append(got, pg.Types(mustMsgs(out)))
			}
			want := []string{"TG", "", "", "G", "", "CZ", "TG"}
			if v == 1 {
				want[5] = "EZ"
			}
			var chunks []string
			for _, e := range cl.C.Events() {
				if e.Kind == "cb" && e.Name == "copyread" {
					if r := e.Data.(hs.CopyRec); r.ErrNil {
						chunks = append(chunks, string(r.Chunk))
					}
				}
			}
			c.Count("statements_with_two_copy_streams", 1)
			c.Eval(fmt.Sprintf("two copy streams %d", v), true)
			if strings.Join(got, "|") != strings.Join(want, "|") || strings.Join(chunks, "") != "a1\na2\nb1\n" {
				c.Violate("second-stream", "a second COPY-in of the same statement is not announced and delivered like the first", fmt.Sprintf("replies %q want %q; payloads seen by the handler %q want a1 a2 b1", got, want, chunks), map[string]any{"variant": v})
			}
			cl.C.CloseWrite()
			cl.C.WaitClosed()
		}
	}
}

// oneSegment: the whole COPY - start, data, the message that ends it - and what the client sends next
// (Sync, a Query) travel in one segment (a client that does not wait for replies). Whatever the COPY
// machinery reads ahead of the end of the COPY belongs to the command loop: every message is answered.
func (ch c13) oneSegment(c *core.Ctx, env *hs.Env) {
	probe := &hs.Prog{Stmts: []*hs.Stmt{{ID: "probe", Cols: textCols(1), Ops: []hs.Op{{K: "row", Vals: []any{"p"}}, {K: "complete", Tag: "SELECT 1"}}}}}
	for v := 0; v < 8; v++ {
		exec, fail, binary := v&1 == 1, v&2 == 2, v&4 == 4
		plan := &hs.CopyPlan{Format: wire.TextFormat, MaxReads: -1, OnErr: "propagate"}
		data := [][]byte{[]byte("a\t1\n"), []byte("b\t2\n")}
		if binary {
			t := c14table{OIDs: []uint32{pg.OIDText}, Rows: [][]any{{"one"}, {"two"}}, Trailer: true}
			stream, ends := t.encode()
			plan = &hs.CopyPlan{Format: wire.BinaryFormat, MaxReads: -1, OnErr: "propagate", Binary: true}
			data = [][]byte{stream[:ends[0]], stream[ends[0]:]}
		}
		sess := &hs.Sess{Progs: map[string]*hs.Prog{"copy": {Stmts: []*hs.Stmt{{ID: "copy", Cols: textCols(1), Params: []oid.Oid{}, Ops: []hs.Op{{K: "copy", Copy: plan}}}}}, "probe": probe}}
		cl := hs.NewClient(env.Dial(sess))
		if err := cl.StartupOK("u"); err != nil {
			continue
		}
		in, want := pg.Query("copy"), "TG"
		if exec {
			in, want = append(append(pg.Parse("", "copy", nil), pg.Bind("", "", nil, nil, nil)...), pg.Execute("", 0)...), "12G"
		}
		for _, d := range data {
			in = append(in, pg.CopyData(d)...)
		}
		if fail {
			in, want = append(in, pg.CopyFail("client gives up")...), want+"E"
		} else {
			in, want = append(in, pg.CopyDone()...), want+"C"
		}
		if !exec {
			want += "Z" // the simple-query cycle ends by itself
		}
		in, want = append(append(in, pg.Sync()...), pg.Query("probe")...), want+"ZTDCZ"
		out, closed := cl.Step(in)
		if hangCheck(c, cl, nil) {
			return
		}
		cl.Finish()
		c.Count("copy_and_what_follows_in_one_segment", 1)
		c.Eval(fmt.Sprintf("one segment %d", v), true)
		if got := pg.Types(mustMsgs(out)); closed || got != want {
			c.Violate("reply", "messages sent behind the end of a COPY in the same segment are not all answered", fmt.Sprintf("exec=%v fail=%v binary=%v: got %q want %q (closed=%v)", exec, fail, binary, got, want, closed), map[string]any{"workload": "COPY and what follows in one segment", "variant": v})
			return
		}
	}
}
