package checks

import (
	"encoding/binary"
	"fmt"
	"github.com/jackc/pgx/v5/pgtype"
	"math/big"
	"sort"
	"strings"

	wire "github.com/jeroenrinzema/psql-wire"
	"github.com/lib/pq/oid"

	"verifharness/core"
	"verifharness/hs"
	"verifharness/pg"
)

// C14 - Binary COPY rows decode to what was sent, however the stream is chunked.

type c14 struct{ base }

func init() {
	core.Register(c14{base{id: "C14", level: "exploration", quickB: 16, thoroughB: 32,
		rule:        "tables of 1-12 columns over {bool,int2,int4,int8,float4,float8,text,varchar,bytea,uuid,oid,date,timestamp,timestamptz,int4[],text[]}, 0-50 rows, NULL density 0-100%, encoded by the harness's own binary COPY encoder (19-byte header, rows, optional trailer); the stream is cut into CopyData messages: one message, every single cut position (exhaustive for streams <= 400 bytes), 1-byte messages, random multi-cuts, cuts inside header / field count / field length / value, empty CopyData messages interleaved; rows returned by the library's row reader must equal the rows sent (value per type, NULL as nil) and end with io.EOF, identically for all splits; streams of 3L+ bytes (fields of 5-30 KB) are cut into messages of L, L-1, L-r bytes that arrive while 1-60 bytes of a row are still buffered. Every truncation point of small streams (<= 200 bytes) followed by CopyDone: clean end exactly on row boundaries, error elsewhere. Corruptions (a well-framed array value whose own header lies, a well-framed value of an impossible size for its fixed-width type, field count +-1, 0, field length beyond the stream, length -2, stream ending mid-row, trailer mid-stream): a non-EOF error (or early EOF for the trailer), rows before it a prefix of the rows sent, no crash (child process). Non-trivial = split inside a row, trailer present, NULLs, or a corruption; distinct = (column types, rows, cut-set class, corruption).",
		need:        []string{"near_limit_messages", "streams_run", "rows_compared", "split_inside_row", "with_trailer", "single_cut_positions", "corruptions_run", "null_fields", "truncation_points", "connections_lost_inside_a_copydata_message", "oversized_copydata_inside_a_binary_stream"},
		assumptions: append([]string{"header flags and extension length are zero (standard header); a field longer than the message limit L is not generated"}, commonAssumptions...)}})
}

var c14types = []uint32{pg.OIDBool, pg.OIDInt2, pg.OIDInt4, pg.OIDInt8, pg.OIDFloat4, pg.OIDFloat8, pg.OIDText, pg.OIDVarchar, pg.OIDBytea, pg.OIDUUID, pg.OIDOid, pg.OIDDate, pg.OIDTimestamp, pg.OIDTimestamptz, pg.OIDInt4Array, pg.OIDTextArray, pg.OIDBit, pg.OIDVarbit, pg.OIDNumeric}

type c14table struct {
	OIDs     []uint32
	Rows     [][]any
	Trailer  bool
	NoHeader bool   // the stream starts with the first row (the file header is optional for the row reader)
	Flags    uint32 // header flags field: bits 0-15 are reserved for non-critical uses, readers ignore them
	Ext      []byte // header extension area, skipped by readers
}

func (t c14table) header() []byte {
	if t.NoHeader {
		return nil
	}
	h := append([]byte{}, c14header[:11]...)
	h = binary.BigEndian.AppendUint32(h, t.Flags)
	h = binary.BigEndian.AppendUint32(h, uint32(len(t.Ext)))
	return append(h, t.Ext...)
}

func (t c14table) hdrLen() int { return len(t.header()) }

// headerVariant gives one table in two another beginning of the stream: none, low flag bits, an extension area.
func (t *c14table) headerVariant(rng *core.Rng) string {
	switch rng.Intn(6) {
	case 0:
		t.NoHeader = true
		return "no-header"
	case 1:
		t.Flags = core.Pick(rng, []uint32{1, 0x100, 0x8000, 0xffff, uint32(rng.Intn(1 << 16))})
		return "flags"
	case 2:
		t.Ext = rng.Bytes(1 + rng.Intn(24))
		return "extension"
	}
	return ""
}

var c14header = append([]byte("PGCOPY\n\377\r\n\000"), 0, 0, 0, 0, 0, 0, 0, 0)

func (t c14table) encode() (stream []byte, rowEnds []int) {
	stream = append(stream, t.header()...)
	for _, r := range t.Rows {
		stream = binary.BigEndian.AppendUint16(stream, uint16(len(r)))
		for i, v := range r {
			if v == nil {
				stream = append(stream, 0xff, 0xff, 0xff, 0xff)
				continue
			}
			b := pg.Encode(t.OIDs[i], 1, v)
			stream = binary.BigEndian.AppendUint32(stream, uint32(len(b)))
			stream = append(stream, b...)
		}
		rowEnds = append(rowEnds, len(stream))
	}
	if t.Trailer {
		stream = append(stream, 0xff, 0xff)
	}
	return
}

func c14gen(rng *core.Rng, small bool) c14table {
	t := c14table{Trailer: rng.Intn(3) != 0}
	nc := 1 + rng.Intn(12)
	if rng.Intn(30) == 0 {
		nc = core.Pick(rng, []int{100, 255, 256, 1000})
	}
	nr := rng.Intn(51)
	if nc >= 100 {
		nr = rng.Intn(4)
	}
	if small {
		nc, nr = 1+rng.Intn(3), rng.Intn(4)
	}
	for i := 0; i < nc; i++ {
		t.OIDs = append(t.OIDs, core.Pick(rng, c14types))
	}
	nullPct := core.Pick(rng, []int{0, 10, 50, 100})
	for r := 0; r < nr; r++ {
		row := make([]any, nc)
		for i, o := range t.OIDs {
			if rng.Intn(100) >= nullPct {
				v := genValue(rng, o)
				if rng.Intn(12) == 0 && (o == pg.OIDBytea || o == pg.OIDText || o == pg.OIDVarchar) {
					// a value that looks like the start of a COPY file (signature + flags + extension length)
					blob := append(append([]byte{}, c14header...), rng.Bytes(rng.Intn(12))...)
					if o == pg.OIDBytea {
						v = blob
					} else {
						v = strings.ReplaceAll(string(blob), "\x00", "0")
						v = strings.ToValidUTF8(v.(string), "?")
					}
				}
				if s, ok := v.(string); ok && len(s) > 300 {
					v = s[:len(s)%300]
				}
				if b, ok := v.([]byte); ok && len(b) > 300 {
					v = b[:len(b)%300]
				}
				row[i] = v
			}
		}
		t.Rows = append(t.Rows, row)
	}
	return t
}

// runStream sends the stream cut at the given offsets and returns the rows and
// final error class observed by the library's row reader.
type c14obs struct {
	Rows   [][]any
	End    string // eof | error | none
	ErrTxt string
	Reply  string
	Rows2  [][]any // second COPY on the same connection (after an aborted first one)
	End2   string
}

func (ch c14) runStream(c *core.Ctx, env *hs.Env, t c14table, stream []byte, cuts []int, empties bool, cs any) (obs c14obs, ok bool) {
	return ch.runStreamF(c, env, t, stream, cuts, empties, false, cs)
}

// runStreamF: with abort set the stream is followed by CopyFail instead of CopyDone.
func (ch c14) runStreamF(c *core.Ctx, env *hs.Env, t c14table, stream []byte, cuts []int, empties bool, abort bool, cs any) (obs c14obs, ok bool) {
	cols := wire.Columns{}
	for j, o := range t.OIDs {
		cols = append(cols, wire.Column{Name: fmt.Sprintf("c%d", j), Oid: oid.Oid(o), Width: -1})
	}
	plan := &hs.CopyPlan{Format: wire.BinaryFormat, MaxReads: -1, OnErr: "propagate", Binary: true}
	sess := &hs.Sess{Progs: map[string]*hs.Prog{"copy": {Stmts: []*hs.Stmt{{ID: "copy", Cols: cols, Ops: []hs.Op{{K: "copy", Copy: plan}}}}}}}
	cl := hs.NewClient(env.Dial(sess))
	if err := cl.StartupOK("u"); err != nil {
		c.Violate("startup", "startup failed", err.Error(), cs)
		return obs, false
	}
	var in []byte
	in = append(in, pg.Query("copy")...)
	prev := 0
	for _, k := range cuts {
		if k <= prev || k >= len(stream) {
			continue
		}
		in = append(in, pg.CopyData(stream[prev:k])...)
		if empties {
			in = append(in, pg.CopyData(nil)...)
		}
		prev = k
	}
	in = append(in, pg.CopyData(stream[prev:])...)
	if abort {
		in = append(in, pg.CopyFail("client aborts")...)
	} else {
		in = append(in, pg.CopyDone()...)
	}
	in = append(in, pg.Sync()...) // resynchronisation point; ignored if still in COPY mode, otherwise yields Z
	if abort && len(cuts) == 0 {
		// after the aborted COPY, a complete one on the same connection
		full, _ := t.encode()
		in = append(in, pg.Query("copy")...)
		in = append(in, pg.CopyData(full)...)
		in = append(in, pg.CopyDone()...)
		in = append(in, pg.Sync()...)
	}
	out, closed := cl.Step(in)
	if hangCheck(c, cl, cs) {
		return obs, false
	}
	msgs, err := parseAll(out)
	if err != nil {
		c.Violate("grammar", "reply not well-formed", err.Error(), cs)
		return obs, false
	}
	obs.Reply = pg.Types(msgs)
	if closed {
		obs.Reply += "<connection closed>"
	}
	obs.End = "none"
	for _, e := range cl.C.Events() {
		if e.Kind == "cb" && e.Name == "copyread" {
			r := e.Data.(hs.CopyRec)
			if obs.End != "none" {
				// observations of the second COPY on the same connection
				switch {
				case r.ErrNil:
					obs.Rows2 = append(obs.Rows2, r.Row)
				case r.EOF:
					obs.End2 = "eof"
				default:
					obs.End2 = "error: " + r.Err
				}
				continue
			}
			switch {
			case r.ErrNil:
				obs.Rows = append(obs.Rows, r.Row)
			case r.EOF:
				obs.End = "eof"
			default:
				obs.End = "error"
				obs.ErrTxt = r.Err
			}
		}
	}
	cl.Finish()
	return obs, true
}

// runStreamCancel delivers the stream piece by piece in lock-step; the handler gives every Read a context
// of its own and the client cancels the one in flight after every piece (a per-row deadline that passes
// while the rest of the row is on its way) - the handler then simply reads again.
func (ch c14) runStreamCancel(c *core.Ctx, env *hs.Env, t c14table, stream []byte, cuts []int, cs any) (obs c14obs, ok bool) {
	cols := wire.Columns{}
	for j, o := range t.OIDs {
		cols = append(cols, wire.Column{Name: fmt.Sprintf("c%d", j), Oid: oid.Oid(o), Width: -1})
	}
	plan := &hs.CopyPlan{Format: wire.BinaryFormat, MaxReads: -1, OnErr: "propagate", Binary: true, RowCtx: true}
	sess := &hs.Sess{Progs: map[string]*hs.Prog{"copy": {Stmts: []*hs.Stmt{{ID: "copy", Cols: cols, Ops: []hs.Op{{K: "copy", Copy: plan}}}}}}}
	cl := hs.NewClient(env.Dial(sess))
	if err := cl.StartupOK("u"); err != nil {
		c.Violate("startup", "startup failed", err.Error(), cs)
		return obs, false
	}
	var out []byte
	step := func(in []byte) bool {
		o, _ := cl.Step(in)
		out = append(out, o...)
		return !hangCheck(c, cl, cs)
	}
	if !step(pg.Query("copy")) {
		return obs, false
	}
	prev := 0
	for _, k := range append(append([]int{}, cuts...), len(stream)) {
		if k <= prev || k > len(stream) {
			continue
		}
		if !step(pg.CopyData(stream[prev:k])) {
			return obs, false
		}
		prev = k
		if sess.CancelRead() {
			c.Count("reads_cancelled_while_waiting", 1)
		}
	}
	if !step(append(pg.CopyDone(), pg.Sync()...)) {
		return obs, false
	}
	msgs, err := parseAll(out)
	if err != nil {
		c.Violate("grammar", "reply not well-formed", err.Error(), cs)
		return obs, false
	}
	obs.Reply, obs.End = pg.Types(msgs), "none"
	for _, e := range cl.C.Events() {
		if e.Kind == "cb" && e.Name == "copyread" {
			switch r := e.Data.(hs.CopyRec); {
			case r.ErrNil:
				obs.Rows = append(obs.Rows, r.Row)
			case r.EOF:
				obs.End = "eof"
			default:
				obs.End, obs.ErrTxt = "error", r.Err
			}
		}
	}
	cl.Finish()
	return obs, true
}

func c14rowEq(oids []uint32, got, want []any) string {
	if len(got) != len(want) {
		return fmt.Sprintf("row has %d fields, sent %d", len(got), len(want))
	}
	for i := range want {
		if want[i] == nil {
			if got[i] != nil {
				return fmt.Sprintf("field %d: NULL decoded as %v", i, got[i])
			}
			continue
		}
		if got[i] == nil {
			return fmt.Sprintf("field %d: value decoded as NULL", i)
		}
		if b, ok := got[i].(pgtype.Bits); ok && b.Valid && int(b.Len) <= 8*len(b.Bytes) {
			d := make([]byte, b.Len)
			for k := range d {
				d[k] = '0' + b.Bytes[k/8]>>(7-k%8)&1
			}
			got[i] = pg.BitString(d)
		}
		if n, ok := got[i].(pgtype.Numeric); ok && n.Valid {
			digits, neg := "", false
			if n.Int != nil {
				digits, neg = new(big.Int).Abs(n.Int).String(), n.Int.Sign() < 0
			}
			if g, w := pg.NumericCanon(n.NaN, int(n.InfinityModifier), neg, digits, int(n.Exp)), pg.Canon(oids[i], want[i]); g != w {
				return fmt.Sprintf("field %d (numeric): got %s want %s", i, trim(g, 80), trim(w, 80))
			}
			continue
		}
		if g, w := pg.Canon(oids[i], got[i]), pg.Canon(oids[i], want[i]); g != w {
			return fmt.Sprintf("field %d (oid %d): got %s want %s", i, oids[i], trim(g, 80), trim(w, 80))
		}
	}
	return ""
}

func (ch c14) checkRows(c *core.Ctx, t c14table, obs c14obs, wantRows int, wantEnd string, what string, cs any) bool {
	viol := func(rule, sig, detail string) bool {
		c.Violate(rule, sig, fmt.Sprintf("table oids=%v rows=%d trailer=%v, %s: %s (reader error: %q, reply %s)", t.OIDs, len(t.Rows), t.Trailer, what, detail, obs.ErrTxt, obs.Reply), cs)
		return false
	}
	if len(obs.Rows) > len(t.Rows) {
		return viol("fabricated-row", "more rows returned than sent", fmt.Sprintf("%d rows returned, %d sent", len(obs.Rows), len(t.Rows)))
	}
	for i, r := range obs.Rows {
		if d := c14rowEq(t.OIDs, r, t.Rows[i]); d != "" {
			return viol("row-value", "row differs from the row sent", fmt.Sprintf("row %d: %s", i, d))
		}
		c.Count("rows_compared", 1)
	}
	if wantRows >= 0 && len(obs.Rows) != wantRows {
		return viol("row-count", fmt.Sprintf("rows lost (%s)", what), fmt.Sprintf("%d rows returned, want %d", len(obs.Rows), wantRows))
	}
	if wantEnd != "" && obs.End != wantEnd {
		return viol("end", fmt.Sprintf("stream end %q want %q (%s)", obs.End, wantEnd, what), "")
	}
	return true
}

func (ch c14) Run(c *core.Ctx) {
	env := hs.Start(hs.Parse)
	defer env.Stop()
	// the library's scanner constructor is an exported helper: text scanners for the same column types
	// are built and used in this process before any binary COPY (nothing about them may stick)
	if c.Batch%2 == 0 {
		tm := pgtype.NewMap()
		for _, o := range c14types {
			if sc, err := wire.NewScanner(tm, wire.Column{Oid: oid.Oid(o)}, wire.TextFormat); err == nil {
				sc([]byte("1"))
				c.Count("text_scanners_built_first", 1)
			}
		}
	}
	// the column's type is what the connection's type map says it is: a server that registers a codec of its
	// own for int8 (decoding to text "amount:<n>") gets its values through that codec, in COPY as elsewhere
	if c.Batch == 1 && c.Begin(9000000) {
		envC := hs.Start(hs.Parse, wire.ExtendTypes(func(m *pgtype.Map) {
			m.RegisterType(&pgtype.Type{Name: "int8", OID: pgtype.Int8OID, Codec: c14amount{}})
		}))
		t := c14table{OIDs: []uint32{pg.OIDInt4, pg.OIDInt8}, Rows: [][]any{{int32(1), int64(42)}, {int32(2), int64(-7)}, {nil, int64(1 << 40)}}, Trailer: true}
		stream, ends := t.encode()
		for _, cuts := range [][]int{nil, ends, {20, 27}} {
			obs, ok := ch.runStream(c, envC, t, stream, cuts, false, nil)
			if !ok {
				break
			}
			c.Count("streams_through_a_registered_codec", 1)
			c.Eval(fmt.Sprintf("registered codec %d", len(cuts)), true)
			bad := len(obs.Rows) != len(t.Rows) || obs.End != "eof"
			for i := 0; !bad && i < len(obs.Rows); i++ {
				if s, _ := obs.Rows[i][1].(string); s != fmt.Sprintf("amount:%d", t.Rows[i][1].(int64)) {
					bad = true
				}
			}
			if bad {
				c.Violate("row-value", "values of a column whose type has a codec registered by the server are not decoded through that codec", fmt.Sprintf("rows %v end %s (%s), want the int8 column as amount:<n> strings", obs.Rows, obs.End, obs.ErrTxt), nil)
				break
			}
		}
		envC.Stop()
	}
	n := 120
	if c.Tier == "thorough" {
		n = 3200
	}
	if c.Batch == 0 {
		c.Count("exhaustive_parts", 1)
	}
	for i := 0; i < n; i++ {
		if !c.Begin(i) || c.NViol() >= 10 {
			continue
		}
		rng := core.NewRng(c.Seed, "C14", c.Batch, i)
		small := i%2 == 0
		t := c14gen(rng, small)
		if hv := t.headerVariant(rng); hv != "" {
			c.Count("streams_with_header_variant_"+hv, 1)
		}
		stream, rowEnds := t.encode()
		if len(stream) == 0 {
			t.NoHeader = false
			stream, rowEnds = t.encode()
		}
		cs := map[string]any{"oids": t.OIDs, "rows": len(t.Rows), "trailer": t.Trailer, "stream_len": len(stream), "no_header": t.NoHeader, "flags": t.Flags, "extension": len(t.Ext)}
		nulls := 0
		for _, r := range t.Rows {
			for _, v := range r {
				if v == nil {
					nulls++
				}
			}
		}
		c.Count("null_fields", int64(nulls))
		if t.Trailer {
			c.Count("with_trailer", 1)
		}
		isRowEnd := map[int]bool{t.hdrLen(): true}
		for _, e := range rowEnds {
			isRowEnd[e] = true
		}
		run := func(cuts []int, empties bool, what string) bool {
			obs, ok := ch.runStream(c, env, t, stream, cuts, empties, cs)
			if !ok {
				return false
			}
			c.Count("streams_run", 1)
			inside := false
			for _, k := range cuts {
				if !isRowEnd[k] && k > 0 && k < len(stream) {
					inside = true
				}
			}
			if inside {
				c.Count("split_inside_row", 1)
			}
			c.Eval(fmt.Sprintf("%v r%d t%v %s", t.OIDs, len(t.Rows), t.Trailer, what), inside || t.Trailer || nulls > 0)
			if !ch.checkRows(c, t, obs, len(t.Rows), "eof", what, cs) {
				return false
			}
			if obs.Reply != "TGCZZ" { // cycle (T G C Z) + the Z of the trailing resynchronisation Sync
				c.Violate("reply", "COPY cycle transcript "+obs.Reply, fmt.Sprintf("%s: want TGCZZ", what), cs)
				return false
			}
			return true
		}
		if !run(nil, false, "single message") {
			continue
		}
		if i < 2 {
			c.Sample(map[string]any{"oids": t.OIDs, "rows": len(t.Rows), "trailer": t.Trailer, "stream_bytes": len(stream)})
		}
		// every single cut position (exhaustive for small streams)
		if len(stream) <= 400 {
			okAll := true
			for k := 1; k < len(stream) && okAll; k++ {
				okAll = run([]int{k}, false, "one cut")
				c.Count("single_cut_positions", 1)
			}
			if !okAll {
				continue
			}
		}
		// every truncation point (exhaustive for small streams): a stream ending on a row
		// boundary (or after the header / the trailer) is a clean end, everything else is an error
		if len(stream) <= 200 {
			okT := true
			for cut := 1; cut < len(stream) && okT; cut++ {
				okT = ch.truncated(c, env, t, stream, rowEnds, cut, cs)
			}
			if !okT {
				continue
			}
		}
		// the connection is lost inside a CopyData message: everything before it ended on a row boundary, the
		// message itself brought the first k bytes of the next row. A row that was cut short is an error to the
		// handler, not the end of the stream
		if len(stream) <= 200 && len(rowEnds) > 0 {
			okL := true
			bounds := append([]int{t.hdrLen()}, rowEnds[:len(rowEnds)-1]...)
			for bi, b := range bounds {
				next := rowEnds[bi]
				for _, k := range []int{1, (next - b) / 2, next - b - 1} {
					if k < 1 || k >= next-b || !okL {
						continue
					}
					okL = ch.lostMid(c, env, t, stream, b, k, bi, cs)
				}
			}
			if !okL {
				continue
			}
		}
		// one byte per message
		if len(stream) <= 1500 {
			cuts := make([]int, 0, len(stream))
			for k := 1; k < len(stream); k++ {
				cuts = append(cuts, k)
			}
			if !run(cuts, false, "one byte per message") {
				continue
			}
		}
		// a value of a few KiB in messages of one byte each (with an empty message behind every one in half
		// of the runs): thousands of messages for one field - how the stream is split is the client's
		// business, whatever the number
		if i%20 == 7 {
			lt := c14table{OIDs: []uint32{pg.OIDInt4, pg.OIDBytea, pg.OIDText}, Trailer: i%40 == 7}
			for r := 0; r < 2; r++ {
				lt.Rows = append(lt.Rows, []any{int32(i + r), rng.Bytes(1030 + rng.Intn(2200)), strings.Repeat("long text value ", 70+rng.Intn(60))})
			}
			ls, _ := lt.encode()
			cuts := make([]int, 0, len(ls))
			for k := 1; k < len(ls); k++ {
				cuts = append(cuts, k)
			}
			lcs := map[string]any{"oids": lt.OIDs, "rows": 2, "stream_len": len(ls), "split": "one byte per message"}
			obs, ok := ch.runStream(c, env, lt, ls, cuts, i%3 == 0, lcs)
			if !ok {
				continue
			}
			c.Count("values_spread_over_more_than_a_thousand_messages", 4)
			c.Eval(fmt.Sprintf("long values one byte per message %d", i%3), true)
			if !ch.checkRows(c, lt, obs, 2, "eof", "values of a few KiB, one byte per message", lcs) {
				continue
			}
		}
		// cuts at row boundaries only, with empty messages interleaved
		if !run(rowEnds, true, "row-aligned with empty messages") {
			continue
		}
		// lock-step pieces, the Read in flight cancelled after every piece and repeated by the handler
		if len(stream) > 2 {
			var cuts []int
			for m := 1 + rng.Intn(5); m > 0; m-- {
				cuts = append(cuts, 1+rng.Intn(len(stream)-1))
			}
			sort.Ints(cuts)
			obs, ok := ch.runStreamCancel(c, env, t, stream, cuts, cs)
			if !ok {
				continue
			}
			c.Count("streams_run", 1)
			c.Eval(fmt.Sprintf("%v r%d t%v cancelled reads", t.OIDs, len(t.Rows), t.Trailer), true)
			if !ch.checkRows(c, t, obs, len(t.Rows), "eof", "pieces in lock-step, the waiting Read cancelled after each and repeated", cs) {
				continue
			}
			if obs.Reply != "TGCZZ" {
				c.Violate("reply", "COPY cycle transcript "+obs.Reply, "lock-step with cancelled reads: want TGCZZ", cs)
				continue
			}
		}
		// random multi-cuts
		okR := true
		for r := 0; r < 6 && okR; r++ {
			var cuts []int
			for m := 1 + rng.Intn(8); m > 0; m-- {
				cuts = append(cuts, 1+rng.Intn(len(stream)))
			}
			sort.Ints(cuts)
			okR = run(cuts, rng.Intn(4) == 0, "random cuts")
		}
		if !okR || len(t.Rows) == 0 {
			continue
		}
		// corruptions
		ch.corrupt(c, env, t, stream, rowEnds, rng, cs)
	}
	// a CopyData message above the message limit in the middle of a binary stream: the rows it carries were
	// never accepted - the handler gets the rows before it and an error, never rows out of the refused message
	// and never a clean end
	for i := 0; i < 4; i++ {
		if !c.Begin(600000+i) || c.NViol() >= 10 {
			continue
		}
		rng := core.NewRng(c.Seed, "C14over", c.Batch, i)
		t := c14table{OIDs: []uint32{pg.OIDInt4, pg.OIDText}, Trailer: i%2 == 0}
		for r := 0; r < 2+rng.Intn(3); r++ {
			t.Rows = append(t.Rows, []any{int32(r + 1), fmt.Sprintf("accepted row %d", r)})
		}
		head, ends := t.encode()
		if t.Trailer {
			head = head[:len(head)-2]
		}
		cutAt := len(head)
		if i >= 2 {
			cutAt = ends[len(ends)-1] - 3 // the refused message arrives while a row is still open
		}
		// the refused message: well-formed rows of the same table, more than the limit of them
		crafted := c14table{OIDs: t.OIDs, NoHeader: true}
		for r := 0; r < 3000; r++ {
			crafted.Rows = append(crafted.Rows, []any{int32(666), "row out of a refused message"})
		}
		body, _ := crafted.encode()
		body = append(append([]byte{}, head[cutAt:]...), body...)
		cols := wire.Columns{{Name: "c0", Oid: oid.Oid(pg.OIDInt4), Width: -1}, {Name: "c1", Oid: oid.Oid(pg.OIDText), Width: -1}}
		plan := &hs.CopyPlan{Format: wire.BinaryFormat, MaxReads: -1, OnErr: "propagate", Binary: true}
		sess := &hs.Sess{Progs: map[string]*hs.Prog{"copy": {Stmts: []*hs.Stmt{{ID: "copy", Cols: cols, Ops: []hs.Op{{K: "copy", Copy: plan}}}}}}}
		cl := hs.NewClient(env.Dial(sess))
		if err := cl.StartupOK("u"); err != nil {
			continue
		}
		in := append(pg.Query("copy"), pg.CopyData(head[:cutAt])...)
		in = append(in, pg.CopyData(body)...)
		in = append(append(in, pg.CopyData([]byte{0xff, 0xff})...), pg.CopyDone()...)
		out, _ := cl.Step(append(in, pg.Sync()...))
		cs := map[string]any{"oversized_copydata_bytes": len(body), "rows_before_it": len(t.Rows), "inside_a_row": i >= 2}
		if hangCheck(c, cl, cs) {
			continue
		}
		nrows, end, fabricated := 0, "none", ""
		for _, e := range cl.C.Events() {
			if e.Kind == "cb" && e.Name == "copyread" {
				switch r := e.Data.(hs.CopyRec); {
				case r.ErrNil:
					if nrows >= len(t.Rows) || c14rowEq(t.OIDs, r.Row, t.Rows[nrows]) != "" {
						fabricated = fmt.Sprint(r.Row)
					}
					nrows++
				case r.EOF:
					end = "eof"
				default:
					end = "error"
				}
			}
		}
		c.Count("oversized_copydata_inside_a_binary_stream", 1)
		c.Eval(fmt.Sprintf("oversized CopyData in stream %d", i), true)
		what := fmt.Sprintf("%d rows, then a CopyData message of %d bytes (limit %d) full of well-formed rows, then CopyDone", len(t.Rows), len(body), 1<<16)
		switch {
		case fabricated != "":
			c.Violate("fabricated-row", "a row out of a CopyData message that was refused for its size reached the handler", fmt.Sprintf("%s: row %s (reply %s)", what, fabricated, replyKinds(out)), cs)
		case end == "eof":
			c.Violate("corruption-accepted", "a binary COPY stream with a refused message in it ends cleanly for the handler", fmt.Sprintf("%s: %d rows and io.EOF (reply %s)", what, nrows, replyKinds(out)), cs)
		}
		cl.Finish()
	}
	// CopyData messages at and just below the message limit L while part of a row is still
	// buffered from the message before: the split must not matter here either
	const L = 1 << 16 // hs.Start's MessageBufferSize
	nbig := 8
	if c.Tier == "thorough" {
		nbig = 200
	}
	for i := 0; i < nbig; i++ {
		if !c.Begin(500000+i) || c.NViol() >= 10 {
			continue
		}
		rng := core.NewRng(c.Seed, "C14big", c.Batch, i)
		t := c14table{Trailer: rng.Bool()}
		for j := 1 + rng.Intn(3); j > 0; j-- {
			t.OIDs = append(t.OIDs, core.Pick(rng, []uint32{pg.OIDBytea, pg.OIDBytea, pg.OIDText}))
		}
		size := 0
		for size < 3*L {
			row := make([]any, len(t.OIDs))
			for j, o := range t.OIDs {
				n := 5000 + rng.Intn(25000)
				size += n
				if o == pg.OIDBytea {
					row[j] = rng.Bytes(n)
				} else {
					row[j] = strings.Repeat(rng.Ident(10), n/10)
				}
			}
			t.Rows = append(t.Rows, row)
		}
		stream, _ := t.encode()
		s0 := 1 + rng.Intn(60)
		r := core.Pick(rng, []int{0, 0, 1, 2, s0 - 1, s0, s0 + 1, rng.Intn(64)})
		if r < 0 {
			r = 0
		}
		cuts := []int{s0, s0 + L - r}
		for k := cuts[1]; k < len(stream); {
			k += core.Pick(rng, []int{L, L - 1, L - rng.Intn(40), 1 + rng.Intn(L)})
			cuts = append(cuts, k)
		}
		cs := map[string]any{"oids": t.OIDs, "rows": len(t.Rows), "trailer": t.Trailer, "stream_len": len(stream), "cuts": cuts}
		what := fmt.Sprintf("messages near the limit (first %d bytes, then L-%d)", s0, r)
		obs, ok := ch.runStream(c, env, t, stream, cuts, false, cs)
		if !ok {
			continue
		}
		c.Count("streams_run", 1)
		c.Count("near_limit_messages", 1)
		c.Eval(fmt.Sprintf("big %v r%d t%v s0=%d r=%d", t.OIDs, len(t.Rows), t.Trailer, s0, r), true)
		if ch.checkRows(c, t, obs, len(t.Rows), "eof", what, cs) && obs.Reply != "TGCZZ" {
			c.Violate("reply", "COPY cycle transcript "+obs.Reply, what+": want TGCZZ", cs)
		}
	}
}

// truncated sends stream[:cut] followed by CopyDone.
func (ch c14) truncated(c *core.Ctx, env *hs.Env, t c14table, stream []byte, rowEnds []int, cut int, cs any) bool {
	obs, ok := ch.runStream(c, env, t, stream[:cut], nil, false, cs)
	if !ok {
		return false
	}
	c.Count("truncation_points", 1)
	complete := 0
	boundary := cut == t.hdrLen()
	for _, e := range rowEnds {
		if e <= cut {
			complete++
		}
		if e == cut {
			boundary = true
		}
	}
	what := fmt.Sprintf("stream truncated at offset %d of %d", cut, len(stream))
	c.Eval(fmt.Sprintf("%v trunc boundary=%v hdr=%v", t.OIDs, boundary, cut < t.hdrLen()), true)
	if !ch.checkRows(c, t, obs, -1, "", what, cs) {
		return false
	}
	if cut < t.hdrLen() {
		// inside the header: nothing may come back as a row, and it is not a clean stream
		if len(obs.Rows) != 0 {
			c.Violate("fabricated-row", "rows returned from a stream that ends inside the header", what, cs)
			return false
		}
		return true
	}
	if len(obs.Rows) != complete {
		c.Violate("row-count", "rows before the truncation point lost or fabricated", fmt.Sprintf("%s: %d rows returned, %d complete rows precede the cut (reader end=%s %q)", what, len(obs.Rows), complete, obs.End, obs.ErrTxt), cs)
		return false
	}
	if boundary && obs.End != "eof" {
		c.Violate("end", "stream ending on a row boundary not accepted", fmt.Sprintf("%s: reader end=%s %q", what, obs.End, obs.ErrTxt), cs)
		return false
	}
	if obs.End == "error" && obs.Reply != "TGEZZ" {
		c.Violate("abort-reply", "failed binary COPY is not answered with exactly one ErrorResponse and one ReadyForQuery (truncated stream)", fmt.Sprintf("%s: transcript %q, want TGEZZ; reader error %q", what, obs.Reply, obs.ErrTxt), cs)
		return false
	}
	if !boundary && obs.End != "error" {
		c.Violate("corruption-accepted", "truncated row or trailer reported as a clean end of stream", fmt.Sprintf("%s: reader end=%s, the cut is %d byte(s) past the last row boundary", what, obs.End, cut-lastBoundary(t.hdrLen(), rowEnds, cut)), cs)
		return false
	}
	return true
}

// lostMid sends stream[:b] (b a row boundary) in one complete CopyData message, then a CopyData message that
// declares the rest of the stream and carries k bytes of it, and ends the connection there.
func (ch c14) lostMid(c *core.Ctx, env *hs.Env, t c14table, stream []byte, b, k, complete int, cs any) bool {
	cols := wire.Columns{}
	for j, o := range t.OIDs {
		cols = append(cols, wire.Column{Name: fmt.Sprintf("c%d", j), Oid: oid.Oid(o), Width: -1})
	}
	plan := &hs.CopyPlan{Format: wire.BinaryFormat, MaxReads: -1, OnErr: "propagate", Binary: true}
	sess := &hs.Sess{Progs: map[string]*hs.Prog{"copy": {Stmts: []*hs.Stmt{{ID: "copy", Cols: cols, Ops: []hs.Op{{K: "copy", Copy: plan}}}}}}}
	cl := hs.NewClient(env.Dial(sess))
	if err := cl.StartupOK("u"); err != nil {
		c.Violate("startup", "startup failed", err.Error(), cs)
		return false
	}
	in := append(pg.Query("copy"), pg.CopyData(stream[:b])...)
	whole := pg.CopyData(stream[b:])
	in = append(in, whole[:5+k]...)
	cl.C.Send(in)
	cl.Finish()
	if hangCheck(c, cl, cs) {
		return false
	}
	var rows [][]any
	end, errTxt := "none", ""
	for _, e := range cl.C.Events() {
		if e.Kind == "cb" && e.Name == "copyread" {
			switch r := e.Data.(hs.CopyRec); {
			case r.ErrNil:
				rows = append(rows, r.Row)
			case r.EOF:
				end = "eof"
			default:
				end, errTxt = "error", r.Err
			}
		}
	}
	c.Count("connections_lost_inside_a_copydata_message", 1)
	what := fmt.Sprintf("%d complete row(s) in one CopyData message, then a CopyData message declaring %d bytes of which %d arrive before the connection ends", complete, len(stream)-b, k)
	c.Eval(fmt.Sprintf("%v lost mid message rows=%d k=%d", t.OIDs, complete, k), true)
	if len(rows) > complete {
		c.Violate("fabricated-row", "more rows returned than the client completed before the connection was lost", fmt.Sprintf("%s: %d rows", what, len(rows)), cs)
		return false
	}
	for i, r := range rows {
		if d := c14rowEq(t.OIDs, r, t.Rows[i]); d != "" {
			c.Violate("row-value", "row differs from what was sent", fmt.Sprintf("%s: row %d: %s", what, i, d), cs)
			return false
		}
	}
	if end == "eof" {
		c.Violate("corruption-accepted", "a row cut short by the loss of the connection is reported as a clean end of stream", fmt.Sprintf("%s: the reader returned %d row(s) and then io.EOF (%s)", what, len(rows), errTxt), cs)
		return false
	}
	return true
}

func lastBoundary(hdr int, rowEnds []int, cut int) int {
	b := hdr
	for _, e := range rowEnds {
		if e <= cut {
			b = e
		}
	}
	return b
}

func (ch c14) corrupt(c *core.Ctx, env *hs.Env, t c14table, stream []byte, rowEnds []int, rng *core.Rng, cs any) {
	ri := rng.Intn(len(t.Rows))
	rowStart := t.hdrLen()
	if ri > 0 {
		rowStart = rowEnds[ri-1]
	}
	mut := func(f func(s []byte) []byte) []byte { return f(append([]byte(nil), stream...)) }
	type corr struct {
		name    string
		s       []byte
		wantEnd string // "error", or "" when both early EOF and error are admissible
	}
	nc := uint16(len(t.OIDs))
	cases := []corr{
		{"field count +1", mut(func(s []byte) []byte { binary.BigEndian.PutUint16(s[rowStart:], nc+1); return s }), "error"},
		{"field count -1", mut(func(s []byte) []byte { binary.BigEndian.PutUint16(s[rowStart:], nc-1); return s }), "error"},
		{"field count +1 with an extra NULL field", mut(func(s []byte) []byte {
			binary.BigEndian.PutUint16(s[rowStart:], nc+1)
			return append(append(append([]byte{}, s[:rowEnds[ri]]...), 0xff, 0xff, 0xff, 0xff), s[rowEnds[ri]:]...)
		}), "error"},
		{"field count 300", mut(func(s []byte) []byte { binary.BigEndian.PutUint16(s[rowStart:], 300); return s }), "error"},
		{"field count 0x8000", mut(func(s []byte) []byte { binary.BigEndian.PutUint16(s[rowStart:], 0x8000); return s }), "error"},
		{"field count 0xFFFE", mut(func(s []byte) []byte { binary.BigEndian.PutUint16(s[rowStart:], 0xfffe); return s }), "error"},
		{"field count with the high bit set", mut(func(s []byte) []byte { binary.BigEndian.PutUint16(s[rowStart:], nc|0x8000); return s }), "error"},
		{"field count 0x7FFF", mut(func(s []byte) []byte { binary.BigEndian.PutUint16(s[rowStart:], 0x7fff); return s }), "error"},
		{"trailer mid-stream", mut(func(s []byte) []byte { binary.BigEndian.PutUint16(s[rowStart:], 0xffff); return s }), ""},
		{"stream ends mid-row", append([]byte(nil), stream[:rowStart+2+rng.Intn(rowEnds[ri]-rowStart-2+1)]...), ""},
		{"first field length -2", mut(func(s []byte) []byte { binary.BigEndian.PutUint32(s[rowStart+2:], 0xfffffffe); return s }), "error"},
		{"first field length beyond the stream", mut(func(s []byte) []byte { binary.BigEndian.PutUint32(s[rowStart+2:], uint32(len(s))); return s }), "error"},
		{"first field length 2^31-1", mut(func(s []byte) []byte { binary.BigEndian.PutUint32(s[rowStart+2:], 0x7fffffff); return s }), "error"},
	}
	// a well-framed value whose size is impossible for its (fixed-width) column type: the framing of the
	// row stays intact, only the value cannot be decoded
	fixed := map[uint32]int{pg.OIDBool: 1, pg.OIDInt2: 2, pg.OIDInt4: 4, pg.OIDInt8: 8, pg.OIDFloat4: 4, pg.OIDFloat8: 8, pg.OIDUUID: 16, pg.OIDOid: 4, pg.OIDDate: 4, pg.OIDTimestamp: 8, pg.OIDTimestamptz: 8}
	var cand []int
	for j, v := range t.Rows[ri] {
		if v != nil && fixed[t.OIDs[j]] > 0 {
			cand = append(cand, j)
		}
	}
	if len(cand) > 0 {
		j := core.Pick(rng, cand)
		w := fixed[t.OIDs[j]]
		n := core.Pick(rng, []int{w - 1, w + 1, 0, w / 2, 2 * w, w + 3})
		if n == w {
			n = w + 1
		}
		bad := append([]byte{}, c14header...)
		for r, row := range t.Rows {
			bad = binary.BigEndian.AppendUint16(bad, nc)
			for i, v := range row {
				switch {
				case r == ri && i == j:
					bad = binary.BigEndian.AppendUint32(bad, uint32(n))
					bad = append(bad, rng.Bytes(n)...)
				case v == nil:
					bad = append(bad, 0xff, 0xff, 0xff, 0xff)
				default:
					b := pg.Encode(t.OIDs[i], 1, v)
					bad = binary.BigEndian.AppendUint32(bad, uint32(len(b)))
					bad = append(bad, b...)
				}
			}
		}
		if t.Trailer {
			bad = append(bad, 0xff, 0xff)
		}
		cases = append(cases, corr{fmt.Sprintf("value of %d bytes in a column of a %d-byte type", n, w), bad, "error"})
		c.Count("undecodable_values", 1)
	}
	// a well-framed array value whose own header lies (negative dimension length, element length
	// beyond the value, absurd dimension count): the type codecs were written for trusted input
	var acand []int
	for j, v := range t.Rows[ri] {
		if v != nil && (t.OIDs[j] == pg.OIDInt4Array || t.OIDs[j] == pg.OIDTextArray) {
			acand = append(acand, j)
		}
	}
	if len(acand) > 0 {
		j := core.Pick(rng, acand)
		elem := uint32(pg.OIDInt4)
		if t.OIDs[j] == pg.OIDTextArray {
			elem = pg.OIDText
		}
		be := func(vs ...uint32) []byte {
			var b []byte
			for _, v := range vs {
				b = binary.BigEndian.AppendUint32(b, v)
			}
			return b
		}
		hostile := map[string][]byte{
			"negative dimension length":       be(1, 0, elem, 0xfffffff0, 1),
			"element length beyond the value": append(be(1, 0, elem, 2, 1, 0x0200002c), 1),
			"three million dimensions":        be(3000000, 0, elem, 1, 1),
			"dimension of three million":      be(1, 0, elem, 3000000, 1), // (what gets allocated for it is C04's business)
		}
		names := make([]string, 0, len(hostile))
		for n := range hostile {
			names = append(names, n)
		}
		sort.Strings(names)
		name := core.Pick(rng, names)
		bad := append([]byte{}, c14header...)
		for r, row := range t.Rows {
			bad = binary.BigEndian.AppendUint16(bad, nc)
			for i, v := range row {
				switch {
				case r == ri && i == j:
					bad = binary.BigEndian.AppendUint32(bad, uint32(len(hostile[name])))
					bad = append(bad, hostile[name]...)
				case v == nil:
					bad = append(bad, 0xff, 0xff, 0xff, 0xff)
				default:
					b := pg.Encode(t.OIDs[i], 1, v)
					bad = binary.BigEndian.AppendUint32(bad, uint32(len(b)))
					bad = append(bad, b...)
				}
			}
		}
		if t.Trailer {
			bad = append(bad, 0xff, 0xff)
		}
		cases = append(cases, corr{"array value with a lying header (" + name + ")", bad, "error"})
		c.Count("hostile_array_values", 1)
	}
	if nc == 1 {
		cases = append(cases, corr{"field count 0", mut(func(s []byte) []byte { binary.BigEndian.PutUint16(s[rowStart:], 0); return s }), "error"})
	}
	// client abort (CopyFail) at a row boundary and inside a row
	for _, at := range []int{rowStart, rowStart + 1 + rng.Intn(rowEnds[ri]-rowStart-1)} {
		obs, ok := ch.runStreamF(c, env, t, stream[:at], nil, false, true, cs)
		if !ok {
			return
		}
		c.Count("corruptions_run", 1)
		c.Count("aborts_run", 1)
		c.Eval(fmt.Sprintf("%v abort inrow=%v", t.OIDs, at != rowStart), true)
		wantRows := ri
		if t.NoHeader && at < 19 {
			// fewer bytes than a header, then the abort: a reader still looking for the optional header
			// reports the abort before the rows (the rows of an aborted COPY are not owed)
			wantRows = -1
		}
		if !ch.checkRows(c, t, obs, wantRows, "error", "CopyFail after part of the stream", cs) {
			return
		}
		if obs.Reply != "TGEZZTGCZZ" {
			c.Violate("abort-reply", "aborted binary COPY transcript "+obs.Reply, "want TGEZZ (one ErrorResponse, one ReadyForQuery, then the Sync's) followed by TGCZZ for the complete COPY sent afterwards", cs)
			return
		}
		if obs.End2 != "eof" || len(obs.Rows2) != len(t.Rows) {
			c.Violate("second-copy", "a complete COPY after an aborted one on the same connection does not yield its rows", fmt.Sprintf("second COPY: %d rows (want %d), end %q", len(obs.Rows2), len(t.Rows), obs.End2), cs)
			return
		}
		for i, r := range obs.Rows2 {
			if d := c14rowEq(t.OIDs, r, t.Rows[i]); d != "" {
				c.Violate("second-copy", "rows of a COPY that follows an aborted one are wrong", fmt.Sprintf("row %d: %s", i, d), cs)
				return
			}
		}
		c.Count("copy_after_abort", 1)
	}
	for _, k := range cases {
		if k.name == "stream ends mid-row" && len(k.s) == rowEnds[ri] {
			continue // cut landed exactly on the row end: not a corruption
		}
		var cuts []int
		if rng.Bool() {
			cuts = []int{1 + rng.Intn(len(k.s))}
		}
		obs, ok := ch.runStream(c, env, t, k.s, cuts, false, cs)
		if !ok {
			return
		}
		c.Count("corruptions_run", 1)
		c.Eval(fmt.Sprintf("%v corrupt %s", t.OIDs, k.name), true)
		what := "corruption: " + k.name
		// rows before the corrupted one must be a prefix; the corrupted row itself must not be returned as data
		if len(obs.Rows) > ri {
			// the corrupted row (or later ones) came back as data
			if k.name == "stream ends mid-row" || k.name == "trailer mid-stream" || len(obs.Rows) > ri {
				c.Violate("fabricated-row", "corrupted row returned as data ("+k.name+")", fmt.Sprintf("table oids=%v: %d rows returned although row %d was corrupted; reader end=%s %q", t.OIDs, len(obs.Rows), ri, obs.End, obs.ErrTxt), cs)
				return
			}
		}
		if !ch.checkRows(c, t, obs, -1, "", what, cs) {
			return
		}
		if len(obs.Rows) != ri {
			c.Violate("row-count", "rows before the corruption lost ("+k.name+")", fmt.Sprintf("%d rows returned, %d intact rows precede the corruption; reader end=%s %q", len(obs.Rows), ri, obs.End, obs.ErrTxt), cs)
			return
		}
		if obs.End == "error" && obs.Reply != "TGEZZ" {
			c.Violate("abort-reply", "failed binary COPY is not answered with exactly one ErrorResponse and one ReadyForQuery ("+k.name+")", fmt.Sprintf("transcript %q, want TGEZZ (cycle + the Z of the trailing Sync); reader error %q", obs.Reply, obs.ErrTxt), cs)
			return
		}
		if k.wantEnd == "error" && obs.End != "error" {
			c.Violate("corruption-accepted", "corrupted stream not reported as an error ("+k.name+")", fmt.Sprintf("reader end=%s, rows=%d", obs.End, len(obs.Rows)), cs)
			return
		}
		if k.name == "stream ends mid-row" && obs.End == "eof" && len(k.s) != rowStart {
			c.Violate("corruption-accepted", "truncated row reported as a clean end of stream", fmt.Sprintf("stream cut at %d inside row %d", len(k.s), ri), cs)
			return
		}
	}
}

// c14amount: an int8 codec of the embedding program; binary values decode to the text "amount:<n>".
type c14amount struct{ pgtype.Int8Codec }

func (c14amount) DecodeValue(m *pgtype.Map, oid uint32, format int16, src []byte) (any, error) {
	if src == nil {
		return nil, nil
	}
	if format != 1 || len(src) != 8 {
		return nil, fmt.Errorf("amount: unexpected format %d / length %d", format, len(src))
	}
	return fmt.Sprintf("amount:%d", int64(binary.BigEndian.Uint64(src))), nil
}
