package checks

import (
	"bytes"
	"context"
	"crypto/tls"
	"encoding/binary"
	"errors"
	"fmt"
	"runtime"
	"sort"
	"strings"

	wire "github.com/jeroenrinzema/psql-wire"

	"verifharness/core"
	"verifharness/hs"
	"verifharness/pg"
	"verifharness/tr"
)

// C11 - TLS upgrade: everything after 'S' is encrypted, nothing before it is trusted.

type c11 struct{ base }

func init() {
	core.Register(c11{base{id: "C11", level: "exploration", quickB: 16, thoroughB: 32,
		rule:        "server TLS configurations {none, empty tls.Config, self-signed certificate (TLS 1.2 only / TLS 1.3)} x client behaviours {plain startup, SSLRequest + handshake + generated session, SSLRequest with plaintext startup + canary Query stuffed into the same segment or a later segment before the handshake, repeated SSLRequest inside TLS, malformed / oversized / sub-minimum startup packets sent inside TLS, GSSENCRequest (and, if it is declined with N on an open connection, an SSLRequest after it), raw plaintext protocol bytes injected under an established TLS session, SSLRequest on a connection accepted before Server.Close} x sessions from the C15 session generator (typed tables, extended histories, COPY, errors, oversized). Monitors on the raw wire tap: reply to SSLRequest is exactly 'S' (certificates) or 'N' (none); every raw server byte after 'S' parses as TLS records (type 20-23, version 0x0301-0x0304, length <= 2^14+256, exact framing); unique canary strings (query texts, values, tags, error texts) never appear in the raw server stream; the decrypted transcript and callback trace equal the plaintext run of the same session; stuffed/injected canaries never reach a callback. Non-trivial = TLS session with at least one query, or a stuffing/injection case; distinct = (config, behaviour, session shape).",
		need:        []string{"tls_sessions", "tls_records_parsed", "canary_searches", "plaintext_equal_sessions", "stuffing_cases", "injection_cases", "no_cert_replies_N"},
		assumptions: append([]string{"crypto/tls is trusted for the cryptography itself; the check decides which bytes travel inside the session and what the server does with bytes outside it"}, commonAssumptions...)}})
}

// tlsRecords parses raw bytes as TLS records; returns the number of complete records.
func tlsRecords(raw []byte) (n int, err error) {
	off := 0
	for off < len(raw) {
		if len(raw)-off < 5 {
			return n, fmt.Errorf("offset %d: %d trailing byte(s) do not form a TLS record header", off, len(raw)-off)
		}
		typ := raw[off]
		ver := binary.BigEndian.Uint16(raw[off+1:])
		l := int(binary.BigEndian.Uint16(raw[off+3:]))
		if typ < 20 || typ > 23 {
			return n, fmt.Errorf("offset %d: byte 0x%02x is not a TLS record type", off, typ)
		}
		if ver < 0x0301 || ver > 0x0304 {
			return n, fmt.Errorf("offset %d: record version 0x%04x", off, ver)
		}
		if l > 1<<14+256 {
			return n, fmt.Errorf("offset %d: record length %d", off, l)
		}
		if len(raw)-off-5 < l {
			return n, fmt.Errorf("offset %d: truncated TLS record (%d of %d bytes)", off, len(raw)-off-5, l)
		}
		off += 5 + l
		n++
	}
	return n, nil
}

type c11tls struct {
	conn *tr.Conn
	cc   *tr.ClientConn
	tc   *tls.Conn
	dec  []byte // decrypted server bytes
}

// upgrade sends SSLRequest (plus optional stuffed plaintext) and performs the handshake.
func c11upgrade(env *hs.Env, sess *hs.Sess, stuffed []byte, late bool, maxVer uint16) (*c11tls, string, error) {
	conn := env.Dial(sess)
	first := pg.SSLRequest()
	if stuffed != nil && !late {
		first = append(first, stuffed...)
	}
	conn.Send(first)
	conn.Quiesce()
	reply := string(conn.Out())
	if reply != "S" {
		return &c11tls{conn: conn}, reply, errors.New("no S")
	}
	if stuffed != nil && late {
		conn.Send(stuffed)
	}
	t := &c11tls{conn: conn, cc: &tr.ClientConn{C: conn, Pos: 1}}
	cfg := hs.ClientTLS()
	cfg.MaxVersion = maxVer
	t.tc = tls.Client(t.cc, cfg)
	if err := t.tc.Handshake(); err != nil {
		return t, reply, err
	}
	return t, reply, nil
}

// step writes b inside TLS, waits for quiescence and returns the newly decrypted server bytes.
func (t *c11tls) step(b []byte) ([]byte, bool) {
	if len(b) > 0 {
		if _, err := t.tc.Write(b); err != nil {
			return nil, true
		}
	}
	closed, _ := t.conn.Quiesce()
	t.cc.NonBlock = true
	defer func() { t.cc.NonBlock = false }()
	var out []byte
	buf := make([]byte, 1<<16)
	for {
		n, err := t.tc.Read(buf)
		out = append(out, buf[:n]...)
		if err != nil {
			break
		}
	}
	t.dec = append(t.dec, out...)
	return out, closed
}

func c11canaries(s c15session) [][]byte {
	var cs [][]byte
	seen := map[string]bool{}
	add := func(x string) {
		if len(x) >= 8 && !seen[x] {
			seen[x] = true
			cs = append(cs, []byte(x))
		}
	}
	for q, p := range s.Progs {
		add(q)
		if p.Err != nil {
			add(p.Err.Base)
		}
		for _, st := range p.Stmts {
			for _, op := range st.Ops {
				add(op.Tag)
				for _, v := range op.Vals {
					if sv, ok := v.(string); ok {
						add(sv)
					}
				}
			}
		}
	}
	add(s.User)
	return cs
}

func normStartup(msgs []pg.BMsg) string {
	var ps []string
	for _, m := range msgs {
		if m.T == 'S' {
			ps = append(ps, m.Key+"="+m.Val)
		}
	}
	sort.Strings(ps)
	return collapse(pg.Types(msgs)) + " " + strings.Join(ps, ",")
}

func (ch c11) Run(c *core.Ctx) {
	n := 400
	if c.Tier == "thorough" {
		n = 30000
	}
	envTLS := hs.Start(hs.Parse, wire.TLSConfig(hs.ServerTLS()))
	envNone := hs.Start(hs.Parse)
	envEmpty := hs.Start(hs.Parse, wire.TLSConfig(&tls.Config{}))
	envTLSAuth := hs.Start(hs.Parse, wire.TLSConfig(hs.ServerTLS()), wire.SessionAuthStrategy(wire.ClearTextPassword(c03validator)))
	defer envTLSAuth.Stop()
	defer envTLS.Stop()
	defer envNone.Stop()
	defer envEmpty.Stop()
	// an SSLRequest that arrives on a connection accepted before Server.Close was called: the answer is
	// still the single byte of the rule (or the connection is closed without any answer), never anything else
	for k := 0; k < 2 && c.Begin(900000+k); k++ {
		want := "S"
		e2 := hs.Start(hs.Parse, wire.TLSConfig(hs.ServerTLS()))
		if k == 1 {
			want = "N"
			e2.Stop()
			e2 = hs.Start(hs.Parse)
		}
		conn := e2.Dial(&hs.Sess{})
		conn.Quiesce() // accepted, the server waits for the first packet
		e2.Srv.Close()
		conn.Send(pg.SSLRequest())
		closed, _ := conn.Quiesce()
		if got := string(conn.Out()); got != want && !(got == "" && closed) {
			c.Violate("ssl-reply", "SSLRequest on a connection accepted before Close not answered with the single byte "+want, fmt.Sprintf("%q closed=%v", trim(got, 80), closed), nil)
		}
		c.Count("sslrequest_after_close", 1)
		c.Eval("sslrequest after close "+want, true)
		conn.CloseWrite()
		conn.WaitClosed()
	}
	// the same upgrade on connections of another address family (a unix-domain socket listener, where peers
	// also share one address string): with certificates configured the answer is S there too
	if c.Begin(934000) {
		tr.UnixNet.Store(true)
		tr.AnonAddrs.Store(true)
		prog := &hs.Prog{Stmts: []*hs.Stmt{{ID: "t", Cols: textCols(1), Ops: []hs.Op{{K: "row", Vals: []any{"v"}}, {K: "complete", Tag: "SELECT 1"}}}}}
		for _, ver := range []uint16{tls.VersionTLS12, tls.VersionTLS13} {
			t, reply, err := c11upgrade(envTLS, &hs.Sess{Default: func(string) *hs.Prog { return prog }}, nil, false, ver)
			c.Count("upgrades_on_unix_socket_connections", 1)
			if err != nil {
				c.Violate("ssl-reply", "SSLRequest on a unix-socket connection of a server with certificates not answered S / not upgraded", fmt.Sprintf("reply %q: %v", trim(reply, 40), err), nil)
				break
			}
			if o, _ := t.step(append(pg.Startup([][2]string{{"user", "u"}}), pg.Query("t")...)); !strings.HasSuffix(pg.Types(mustMsgs(o)), "TDCZ") {
				c.Violate("tls-differs", "session inside TLS on a unix-socket connection not served", replyKinds(o), nil)
			}
			t.tc.Close()
			t.conn.CloseWrite()
			t.conn.WaitClosed()
		}
		tr.UnixNet.Store(false)
		tr.AnonAddrs.Store(false)
		c.Eval("unix socket upgrade", true)
	}
	// start-up packets of every shape - protocol versions other than 3.0, odd parameter lists - followed by
	// a query: the packet gets inside TLS, and in plaintext after a declined SSLRequest, what it gets as the
	// first packet of a plaintext connection (replies, error codes, callbacks, whether the connection ends)
	if c.Begin(935000) {
		ch.startupVariants(c, envTLS, envNone)
	}
	// Terminate on a server with a terminate hook: over either transport nothing is sent between the
	// arrival of the Terminate and the hook (the end of the stream - FIN, or close_notify and FIN - comes
	// after the hook, as it does in plaintext)
	if c.Begin(930000) {
		hook := wire.TerminateConn(func(ctx context.Context) error {
			cn := hs.ConnOf(ctx)
			cn.CB("term-hook", cn.WOff())
			return nil
		})
		envHookTLS := hs.Start(hs.Parse, wire.TLSConfig(hs.ServerTLS()), hook)
		envHookPlain := hs.Start(hs.Parse, hook)
		prog := &hs.Prog{Stmts: []*hs.Stmt{{ID: "t", Cols: textCols(1), Ops: []hs.Op{{K: "row", Vals: []any{"v"}}, {K: "complete", Tag: "SELECT 1"}}}}}
		for v, ver := range []uint16{0, tls.VersionTLS12, tls.VersionTLS13} {
			sess := &hs.Sess{Default: func(string) *hs.Prog { return prog }}
			var conn *tr.Conn
			in := append(pg.Startup([][2]string{{"user", "u"}}), pg.Query("t")...)
			if ver == 0 {
				conn = envHookPlain.Dial(sess)
				conn.Send(in)
				conn.Quiesce()
			} else {
				t, reply, err := c11upgrade(envHookTLS, sess, nil, false, ver)
				if err != nil {
					c.Violate("upgrade", "TLS upgrade failed", fmt.Sprintf("reply %q: %v", reply, err), nil)
					continue
				}
				conn = t.conn
				t.step(in)
				defer t.tc.Close()
				before := conn.WOff()
				t.tc.Write(pg.Terminate())
				conn.WaitClosed()
				ch.termOrder(c, conn, before, fmt.Sprintf("TLS %x", ver))
				// the end of the stream is announced inside the TLS session too (a closure alert: a record of
				// type alert, or in TLS 1.3 an encrypted one), as a FIN announces it in plaintext - a bare FIN
				// is what a client cannot tell from a truncation
				if all := conn.Out(); before <= len(all) {
					tail := all[before:]
					c.Count("terminated_tls_sessions_checked_for_a_closure_alert", 1)
					if len(tail) < 5 || (tail[0] != 0x15 && tail[0] != 0x17) || tail[1] != 3 {
						c.Violate("tls-differs", "after Terminate the server ends an upgraded connection without a TLS closure alert", fmt.Sprintf("TLS %x: %d raw bytes after the Terminate: %s", ver, len(tail), hexs(tail[:min(len(tail), 16)])), nil)
					}
				}
				continue
			}
			before := conn.WOff()
			conn.Send(pg.Terminate())
			conn.WaitClosed()
			ch.termOrder(c, conn, before, "plaintext")
			_ = v
		}
		envHookTLS.Stop()
		envHookPlain.Stop()
	}
	// the hooks an embedding program registers for the end of a connection (TerminateConn, CloseConn): which of
	// them run, and in which order, after a Terminate is the same over TLS as in plaintext - also for a client
	// that is gone by then (every write after its Terminate fails: in plaintext nobody notices, an upgraded
	// connection fails to send its closure alert)
	if c.Begin(931000) {
		rec := func(name string) func(ctx context.Context) error {
			return func(ctx context.Context) error {
				if cn := hs.ConnOf(ctx); cn != nil {
					cn.CB("end-hook", name)
				}
				return nil
			}
		}
		opts := []wire.OptionFn{wire.TerminateConn(rec("TerminateConn")), wire.CloseConn(rec("CloseConn"))}
		envT := hs.Start(hs.Parse, append([]wire.OptionFn{wire.TLSConfig(hs.ServerTLS())}, opts...)...)
		envP := hs.Start(hs.Parse, opts...)
		prog := &hs.Prog{Stmts: []*hs.Stmt{{ID: "t", Cols: textCols(1), Ops: []hs.Op{{K: "row", Vals: []any{"v"}}, {K: "complete", Tag: "SELECT 1"}}}}}
		in := append(pg.Startup([][2]string{{"user", "u"}}), pg.Query("t")...)
		for _, gone := range []bool{false, true} {
			var ref string
			for _, ver := range []uint16{0, tls.VersionTLS12, tls.VersionTLS13} {
				sess := &hs.Sess{Default: func(string) *hs.Prog { return prog }}
				var conn *tr.Conn
				send := func(b []byte) {}
				if ver == 0 {
					conn = envP.Dial(sess)
					conn.Send(in)
					conn.Quiesce()
					send = conn.Send
				} else {
					t, reply, err := c11upgrade(envT, sess, nil, false, ver)
					if err != nil {
						c.Violate("upgrade", "TLS upgrade failed", fmt.Sprintf("reply %q: %v", reply, err), nil)
						continue
					}
					conn = t.conn
					t.step(in)
					defer t.tc.Close()
					send = func(b []byte) { t.tc.Write(b) }
				}
				if gone {
					conn.FailWritesFromNow()
				}
				send(pg.Terminate())
				conn.WaitClosed()
				var hooks []string
				for _, e := range conn.Events() {
					if e.Kind == "cb" && e.Name == "end-hook" {
						hooks = append(hooks, e.Data.(string))
					}
				}
				got := strings.Join(hooks, " ")
				c.Count("end_of_connection_hook_traces_compared", 1)
				c.Eval(fmt.Sprintf("end hooks ver=%x gone=%v", ver, gone), true)
				if ver == 0 {
					ref = got
				} else if got != ref {
					c.Violate("tls-differs", "after a Terminate the hooks registered for the end of a connection run differently over TLS than in plaintext", fmt.Sprintf("TLS %x, client gone (writes fail) = %v: hooks [%s], plaintext: [%s]", ver, gone, got, ref), nil)
				}
			}
		}
		envT.Stop()
		envP.Stop()
	}
	// an SSLRequest whose length field announces more than the request code: the bytes behind the code
	// belong to that packet. They are no start-up packet (nothing is authenticated on their account) and
	// no part of the TLS handshake that follows the 'S'
	if c.Begin(940000) {
		startup := pg.Startup([][2]string{{"user", "smuggled"}})
		for _, payload := range [][]byte{startup, startup[:9], {0x16, 0x03, 0x01, 0x00, 0x05, 1, 0, 0, 1, 0}, {0}} {
			for _, e := range []*hs.Env{envNone, envTLS} {
				want := "N"
				if e == envTLS {
					want = "S"
				}
				prog := &hs.Prog{Stmts: []*hs.Stmt{{ID: "t", Cols: textCols(1), Ops: []hs.Op{{K: "row", Vals: []any{"v"}}, {K: "complete", Tag: "SELECT 1"}}}}}
				conn := e.Dial(&hs.Sess{Default: func(string) *hs.Prog { return prog }})
				conn.Send(pg.StartupRaw(pg.VerSSL, payload))
				closed, _ := conn.Quiesce()
				out := string(conn.Out())
				c.Count("sslrequests_with_payload", 1)
				c.Eval(fmt.Sprintf("sslrequest payload %d %s", len(payload), want), true)
				cs := map[string]any{"payload_bytes": len(payload), "certificates": want == "S"}
				if closed && out == "" {
					continue // refused outright: also fine
				}
				if out != want {
					c.Violate("ssl-reply", "an SSLRequest carrying bytes behind its code is answered with more than the single byte "+want, fmt.Sprintf("payload of %d bytes: server sent %s", len(payload), trim(replyKinds([]byte(out[min(1, len(out)):])), 200)), cs)
					conn.CloseWrite()
					conn.WaitClosed()
					continue
				}
				if want == "S" {
					t := &c11tls{conn: conn, cc: &tr.ClientConn{C: conn, Pos: 1}}
					t.tc = tls.Client(t.cc, hs.ClientTLS())
					if err := t.tc.Handshake(); err != nil {
						c.Violate("upgrade", "TLS handshake fails after an SSLRequest that carried bytes behind its code", err.Error(), cs)
					} else if o, _ := t.step(append(pg.Startup([][2]string{{"user", "u"}}), pg.Query("t")...)); !strings.HasSuffix(pg.Types(mustMsgs(o)), "TDCZ") {
						c.Violate("upgrade", "session inside TLS not served after an SSLRequest that carried bytes behind its code", replyKinds(o), cs)
					}
					t.tc.Close()
				} else {
					cl := &hs.Client{C: conn}
					cl.Wait()
					if o, _ := cl.Step(append(pg.Startup([][2]string{{"user", "u"}}), pg.Query("t")...)); !strings.HasSuffix(pg.Types(mustMsgs(o)), "TDCZ") {
						c.Violate("upgrade", "plaintext session not served after a declined SSLRequest that carried bytes behind its code", replyKinds(o), cs)
					}
				}
				conn.CloseWrite()
				conn.WaitClosed()
			}
		}
	}
	// many clients that get their 'S' and then fail the handshake (hang up, send something that is no
	// ClientHello): whatever they leave behind, the next SSLRequest is answered and upgraded as ever
	if c.Begin(920000) {
		// (the server has a history by then: a few connections that were open together and have ended)
		var early []*hs.Client
		for i := 0; i < 3; i++ {
			cl := hs.NewClient(envTLS.Dial(&hs.Sess{}))
			cl.StartupOK("early")
			early = append(early, cl)
		}
		for _, cl := range early {
			cl.Finish()
		}
		n := 3*runtime.GOMAXPROCS(0) + 8
		for i := 0; i < n; i++ {
			conn := envTLS.Dial(&hs.Sess{})
			conn.Send(pg.SSLRequest())
			if _, ok := conn.Quiesce(); !ok {
				break // no answer at all: the upgrade below will tell
			}
			if i%2 == 0 {
				conn.Send([]byte("GET / HTTP/1.1\r\nHost: not-a-client-hello\r\n\r\n"))
				conn.Quiesce()
			}
			conn.CloseWrite()
			conn.WaitClosed()
		}
		probe := &hs.Prog{Stmts: []*hs.Stmt{{ID: "probe", Cols: textCols(1), Ops: []hs.Op{{K: "row", Vals: []any{"after-failed-handshakes"}}, {K: "complete", Tag: "SELECT 1"}}}}}
		t, reply, err := c11upgrade(envTLS, &hs.Sess{Default: func(string) *hs.Prog { return probe }}, nil, false, tls.VersionTLS13)
		if err != nil {
			c.Violate("upgrade", fmt.Sprintf("after %d failed handshakes an SSLRequest is no longer answered with S and upgraded", n), fmt.Sprintf("reply %q: %v", reply, err), nil)
		} else {
			if out, _ := t.step(pg.Startup([][2]string{{"user", "u"}})); !strings.HasSuffix(pg.Types(mustMsgs(out)), "Z") {
				c.Violate("upgrade", "start-up inside TLS not served after many failed handshakes", replyKinds(out), nil)
			}
			t.tc.Close()
			t.conn.CloseWrite()
			t.conn.WaitClosed()
		}
		c.Count("failed_handshakes_before_upgrade", int64(n))
		c.Eval("upgrade after failed handshakes", true)
	}
	// the rule speaks of certificates being configured when the SSLRequest arrives: a configuration that
	// receives its key pair after it was handed to the option (or loses it) is judged by its state then
	for k := 0; k < 2 && c.Begin(910000+k); k++ {
		cfg := &tls.Config{}
		want := "S"
		if k == 1 {
			cfg, want = hs.ServerTLS(), "N"
		}
		e3 := hs.Start(hs.Parse, wire.TLSConfig(cfg))
		if k == 0 {
			cfg.Certificates = hs.ServerTLS().Certificates
		} else {
			cfg.Certificates = nil
		}
		conn := e3.Dial(&hs.Sess{})
		conn.Send(pg.SSLRequest())
		conn.Quiesce()
		if got := string(conn.Out()); got != want {
			c.Violate("ssl-reply", "the answer to SSLRequest does not follow the certificates configured when it arrives (changed after the option was applied)", fmt.Sprintf("got %q want %q", trim(got, 40), want), nil)
		}
		c.Count("certificates_changed_after_option", 1)
		c.Eval("certificates changed after option "+want, true)
		conn.CloseWrite()
		conn.WaitClosed()
		e3.Stop()
	}
	// a plaintext connection to the TLS-capable server that stays open beside everything below: after
	// every case it sends one query and must get exactly its own answer - never a byte of a TLS session
	byProbe := &hs.Prog{Stmts: []*hs.Stmt{{ID: "bystander", Cols: textCols(1), Ops: []hs.Op{{K: "row", Vals: []any{"bystander-row"}}, {K: "complete", Tag: "SELECT 1"}}}}}
	bystander := hs.NewClient(envTLS.Dial(&hs.Sess{Default: func(string) *hs.Prog { return byProbe }}))
	byOK := bystander.StartupOK("bystander") == nil
	checkBystander := func(i int, canaries [][]byte) {
		if !byOK {
			return
		}
		out, closed := bystander.Step(pg.Query(fmt.Sprintf("bystander %d", i)))
		c.Count("bystander_probes", 1)
		if k := pg.Types(mustMsgs(out)); closed || k != "TDCZ" || !bytes.Contains(out, []byte("bystander-row")) {
			c.Violate("bystander", "a plaintext connection open beside TLS sessions no longer gets exactly its own answers", fmt.Sprintf("after case %d: closed=%v reply %s", i, closed, trim(replyKinds(out), 300)), nil)
			byOK = false
			return
		}
		for _, can := range canaries {
			if bytes.Contains(out, can) {
				c.Violate("canary-in-clear", "content of a TLS session appears on another, plaintext connection", fmt.Sprintf("canary %q", can), nil)
				byOK = false
				return
			}
		}
	}
	defer func() {
		if byOK {
			bystander.Finish()
		}
	}()
	for i := 0; i < n; i++ {
		if !c.Begin(i) || c.NViol() >= 10 {
			continue
		}
		if i > 0 {
			checkBystander(i, nil)
		}
		rng := core.NewRng(c.Seed, "C11", c.Batch, i)
		s := c15gen(rng, fmt.Sprintf("canary%dx%dx", c.Batch, i), false)
		s.User = fmt.Sprintf("canaryuser%dx%d", c.Batch, i)
		maxVer := core.Pick(rng, []uint16{tls.VersionTLS12, tls.VersionTLS13})
		cs := map[string]any{"session_kinds": s.Kinds, "tls_max_version": fmt.Sprintf("%#x", maxVer)}
		switch k := i % 8; {
		case k < 4:
			ch.session(c, envTLS, s, maxVer, cs, i)
		case k == 4:
			ch.stuffing(c, envTLS, s, rng, maxVer, cs)
		case k == 5:
			ch.injection(c, envTLS, s, rng, maxVer, cs)
		case k == 6:
			ch.noCert(c, core.Pick(rng, []*hs.Env{envNone, envEmpty}), s, cs)
		default:
			if rng.Intn(3) == 0 {
				ch.authInsideTLS(c, envTLSAuth, s, rng, maxVer, cs)
			} else {
				ch.odd(c, envTLS, envNone, s, rng, maxVer, cs)
			}
		}
	}
}

// rawChecks runs the wire-tap monitors on a finished TLS connection.
func (ch c11) termOrder(c *core.Ctx, conn *tr.Conn, before int, what string) {
	hooks, at := 0, -1
	for _, e := range conn.Events() {
		if e.Kind == "cb" && e.Name == "term-hook" {
			hooks++
			at = e.Data.(int)
		}
	}
	c.Count("terminate_hook_orderings_compared", 1)
	c.Eval("terminate hook ordering "+what, true)
	switch {
	case hooks != 1:
		c.Violate("terminate-order", "terminate hook not invoked exactly once for a Terminate message ("+what+")", fmt.Sprintf("%d invocations", hooks), nil)
	case at != before:
		c.Violate("tls-differs", "bytes are sent between the arrival of Terminate and the terminate hook, which plaintext never does", fmt.Sprintf("%s: %d raw bytes written after the last reply and before the hook was entered (%d in all after the hook)", what, at-before, conn.WOff()-at), map[string]any{"transport": what})
	}
}

func (ch c11) rawChecks(c *core.Ctx, t *c11tls, canaries [][]byte, cs any, what string) bool {
	raw := t.conn.Out()
	if len(raw) == 0 || raw[0] != 'S' {
		c.Violate("ssl-reply", "SSLRequest not answered with the single byte S", fmt.Sprintf("%q", trim(string(raw), 20)), cs)
		return false
	}
	nrec, err := tlsRecords(raw[1:])
	c.Count("tls_records_parsed", int64(nrec))
	if err != nil {
		c.Violate("plaintext-after-S", "raw server bytes after S are not TLS records ("+what+")", err.Error()+"; raw tail "+hexs(raw[1:]), cs)
		return false
	}
	for _, can := range canaries {
		c.Count("canary_searches", 1)
		if bytes.Contains(raw, can) {
			c.Violate("canary-in-clear", "session content visible in the raw server stream ("+what+")", fmt.Sprintf("canary %q found in the raw bytes", can), cs)
			return false
		}
	}
	return true
}

func (ch c11) session(c *core.Ctx, env *hs.Env, s c15session, maxVer uint16, cs map[string]any, idx int) {
	// plaintext reference on the same server
	ref, _ := c15run(env, s, nil)
	if ref.Err != "" {
		c.Violate("plain-run", "plaintext reference run failed: "+ref.Err, "", cs)
		return
	}
	sess := &hs.Sess{Progs: s.Progs}
	t, reply, err := c11upgrade(env, sess, nil, false, maxVer)
	if err != nil {
		c.Violate("upgrade", "TLS upgrade failed", fmt.Sprintf("reply %q: %v", reply, err), cs)
		return
	}
	out, _ := t.step(pg.Startup([][2]string{{"user", s.User}}))
	msgs, perr := parseAll(out)
	if perr != nil || normStartup(msgs) != ref.Startup {
		c.Violate("tls-differs", "startup inside TLS differs from plaintext", fmt.Sprintf("%v: %q vs %q", perr, normStartup(msgs), ref.Startup), cs)
		return
	}
	for i, in := range s.Steps {
		if idx%3 == 0 && i == len(s.Steps)/2 {
			// the client stays silent for a long while in the middle of the session (virtual time: any
			// deadline the server has left pending on the connection passes)
			t.conn.Pause()
			c.Count("long_pauses_inside_tls_sessions", 1)
		}
		var o []byte
		var closed bool
		if i == len(s.Steps)-1 && idx%2 == 1 {
			// the last message and the client's close_notify reach the server in one segment, together with
			// the end of the stream (crypto/tls then hands the message to its reader along with io.EOF):
			// it is served like the last message before a plaintext FIN
			t.cc.Hold = true
			t.tc.Write(in)
			t.tc.CloseWrite()
			t.cc.Hold = false
			t.cc.FlushHeld(true)
			o, closed = t.step(nil)
			c.Count("last_message_and_close_notify_in_one_segment", 1)
		} else {
			o, closed = t.step(in)
		}
		if i >= len(ref.Outs) || !bytes.Equal(o, ref.Outs[i]) {
			want := ""
			if i < len(ref.Outs) {
				want = replyKinds(ref.Outs[i])
			}
			c.Violate("tls-differs", "reply inside TLS differs from the plaintext run ("+s.Kinds[min(i, len(s.Kinds)-1)]+" step)", fmt.Sprintf("step %d: TLS %s | plaintext %s", i, trim(replyKinds(o), 300), trim(want, 300)), cs)
			return
		}
		if closed {
			break
		}
	}
	t.tc.Close()
	t.conn.WaitClosed()
	var trace []string
	for _, e := range t.conn.Events() {
		if e.Kind == "cb" && (e.Name == "parse" || e.Name == "exec") {
			trace = append(trace, e.Name)
		}
	}
	var rtrace []string
	for _, x := range ref.Trace {
		if strings.HasPrefix(x, "parse:") {
			rtrace = append(rtrace, "parse")
		} else if strings.HasPrefix(x, "exec:") {
			rtrace = append(rtrace, "exec")
		}
	}
	if strings.Join(trace, ",") != strings.Join(rtrace, ",") {
		c.Violate("tls-differs", "callback trace inside TLS differs from plaintext", fmt.Sprintf("%v vs %v", trace, rtrace), cs)
		return
	}
	c.Count("plaintext_equal_sessions", 1)
	if !ch.rawChecks(c, t, c11canaries(s), cs, "session") {
		return
	}
	c.Count("tls_sessions", 1)
	c.Eval(fmt.Sprintf("session v%x %v", maxVer, s.Kinds), len(s.Steps) > 0)
	if idx < 2 {
		c.Sample(map[string]any{"behaviour": "SSLRequest+handshake+session", "session_kinds": s.Kinds, "raw_server_bytes": len(t.conn.Out()), "decrypted_bytes": len(t.dec)})
	}
}

func (ch c11) stuffing(c *core.Ctx, env *hs.Env, s c15session, rng *core.Rng, maxVer uint16, cs map[string]any) {
	canary := "STUFFED-CANARY-" + s.User
	probe := &hs.Prog{Stmts: []*hs.Stmt{{ID: "probe", Cols: textCols(1), Ops: []hs.Op{{K: "row", Vals: []any{"tls-probe-value-" + s.User}}, {K: "complete", Tag: "SELECT 1"}}}}}
	sess := &hs.Sess{Default: func(q string) *hs.Prog { return probe }}
	stuffed := append(pg.Startup([][2]string{{"user", "stuffed-" + s.User}}), pg.Query(canary)...)
	if rng.Bool() {
		stuffed = append(stuffed, pg.Terminate()...)
	}
	late := rng.Bool()
	cs["stuffing"] = map[string]any{"late_segment": late, "bytes": len(stuffed)}
	t, reply, err := c11upgrade(env, sess, stuffed, late, maxVer)
	c.Count("stuffing_cases", 1)
	c.Eval(fmt.Sprintf("stuffing late=%v v%x", late, maxVer), true)
	if reply != "S" {
		c.Violate("ssl-reply", "SSLRequest not answered with the single byte S", fmt.Sprintf("%q", trim(reply, 40)), cs)
		return
	}
	if err == nil {
		// handshake went through: the session inside TLS must be a fresh, normal one
		out, _ := t.step(pg.Startup([][2]string{{"user", s.User}}))
		if k := replyKinds(out); !strings.HasSuffix(k, "ZI") {
			c.Violate("stuffing", "startup inside TLS after stuffing not served normally", k, cs)
			return
		}
		out, _ = t.step(pg.Query("real query " + s.User))
		if k := replyKinds(out); k != `T1 D1 C("SELECT 1") ZI` {
			c.Violate("stuffing", "query inside TLS after stuffing not served normally", k, cs)
			return
		}
		t.tc.Close()
	}
	t.conn.CloseWrite()
	t.conn.WaitClosed()
	for _, e := range t.conn.Events() {
		if e.Kind == "cb" && e.Name == "parse" && strings.Contains(e.Data.(hs.ParseRec).Query, "STUFFED-CANARY") {
			c.Violate("stuffed-plaintext-trusted", "plaintext pushed ahead of the TLS handshake was interpreted as a protocol message", fmt.Sprintf("parser received %q (late=%v)", e.Data.(hs.ParseRec).Query, late), cs)
			return
		}
	}
	for _, kv := range []string{"stuffed-" + s.User} {
		_ = kv
	}
	ch.rawChecks(c, t, [][]byte{[]byte("tls-probe-value-" + s.User), []byte("stuffed-" + s.User)}, cs, "stuffing")
}

func (ch c11) injection(c *core.Ctx, env *hs.Env, s c15session, rng *core.Rng, maxVer uint16, cs map[string]any) {
	probe := &hs.Prog{Stmts: []*hs.Stmt{{ID: "probe", Cols: textCols(1), Ops: []hs.Op{{K: "row", Vals: []any{"tls-probe-value-" + s.User}}, {K: "complete", Tag: "SELECT 1"}}}}}
	sess := &hs.Sess{Default: func(q string) *hs.Prog { return probe }}
	t, reply, err := c11upgrade(env, sess, nil, false, maxVer)
	if err != nil {
		c.Violate("upgrade", "TLS upgrade failed", fmt.Sprintf("reply %q: %v", reply, err), cs)
		return
	}
	t.step(pg.Startup([][2]string{{"user", s.User}}))
	if rng.Bool() {
		t.step(pg.Query("before injection " + s.User))
	}
	c.Count("injection_cases", 1)
	c.Eval(fmt.Sprintf("injection v%x", maxVer), true)
	// raw plaintext protocol bytes pushed under the established session
	t.conn.Send(pg.Query("INJECTED-CANARY-" + s.User))
	t.conn.Quiesce()
	t.conn.CloseWrite()
	t.conn.WaitClosed()
	for _, e := range t.conn.Events() {
		if e.Kind == "cb" && e.Name == "parse" && strings.Contains(e.Data.(hs.ParseRec).Query, "INJECTED-CANARY") {
			c.Violate("injected-plaintext-accepted", "raw plaintext under an established TLS session reached a callback", e.Data.(hs.ParseRec).Query, cs)
			return
		}
	}
	ch.rawChecks(c, t, [][]byte{[]byte("tls-probe-value-" + s.User)}, cs, "injection")
}

func (ch c11) noCert(c *core.Ctx, env *hs.Env, s c15session, cs map[string]any) {
	ref, _ := c15run(env, s, nil)
	sess := &hs.Sess{Progs: s.Progs}
	conn := env.Dial(sess)
	pipelined := len(s.Steps)%2 == 0
	if pipelined {
		// the client does not wait for the answer: SSLRequest and startup packet in one segment
		conn.Send(append(pg.SSLRequest(), pg.Startup([][2]string{{"user", s.User}})...))
		closed, _ := conn.Quiesce()
		out := conn.Out()
		c.Eval("nocert pipelined "+fmt.Sprint(s.Kinds), true)
		if closed || len(out) == 0 || out[0] != 'N' {
			c.Violate("ssl-reply", "SSLRequest without certificates not answered with N (pipelined startup)", fmt.Sprintf("closed=%v %q", closed, trim(string(out), 40)), cs)
			return
		}
		c.Count("no_cert_replies_N", 1)
		msgs, err := parseAll(out[1:])
		if err != nil || normStartup(msgs) != ref.Startup {
			c.Violate("plaintext-after-N", "a startup packet pipelined behind the SSLRequest is not served after N", fmt.Sprintf("%v %q vs %q", err, normStartup(msgs), ref.Startup), cs)
			return
		}
		cl := hs.NewClient(conn)
		cl.Wait()
		for i, in := range s.Steps {
			o, closed := cl.Step(in)
			if i >= len(ref.Outs) || !bytes.Equal(o, ref.Outs[i]) {
				c.Violate("plaintext-after-N", "reply after N differs from a plain session (pipelined startup)", fmt.Sprintf("step %d: %s", i, trim(replyKinds(o), 200)), cs)
				return
			}
			if closed {
				break
			}
		}
		cl.Finish()
		return
	}
	conn.Send(pg.SSLRequest())
	conn.Quiesce()
	c.Eval("nocert "+fmt.Sprint(s.Kinds), true)
	if string(conn.Out()) != "N" {
		c.Violate("ssl-reply", "SSLRequest without certificates not answered with the single byte N", fmt.Sprintf("%q", trim(string(conn.Out()), 40)), cs)
		return
	}
	c.Count("no_cert_replies_N", 1)
	cl := hs.NewClient(conn)
	cl.Wait()
	msgs, err := cl.Startup(s.User)
	if err != nil || normStartup(msgs) != ref.Startup {
		c.Violate("plaintext-after-N", "plaintext session after N differs from a plain session", fmt.Sprintf("%v %q vs %q", err, normStartup(msgs), ref.Startup), cs)
		return
	}
	for i, in := range s.Steps {
		o, closed := cl.Step(in)
		if i >= len(ref.Outs) || !bytes.Equal(o, ref.Outs[i]) {
			c.Violate("plaintext-after-N", "reply after N differs from a plain session", fmt.Sprintf("step %d: %s", i, trim(replyKinds(o), 200)), cs)
			return
		}
		if closed {
			break
		}
	}
	cl.Finish()
}

// authInsideTLS: password authentication over the upgraded connection behaves as in plaintext
// (accepted: session; rejected: ErrorResponse class 28 and close) and stays inside TLS.
func (ch c11) authInsideTLS(c *core.Ctx, env *hs.Env, s c15session, rng *core.Rng, maxVer uint16, cs map[string]any) {
	probe := &hs.Prog{Stmts: []*hs.Stmt{{ID: "probe", Cols: textCols(1), Ops: []hs.Op{{K: "row", Vals: []any{"tls-probe-value-" + s.User}}, {K: "complete", Tag: "SELECT 1"}}}}}
	sess := &hs.Sess{Default: func(q string) *hs.Prog { return probe }}
	t, reply, err := c11upgrade(env, sess, nil, false, maxVer)
	if err != nil {
		c.Violate("upgrade", "TLS upgrade failed", fmt.Sprintf("reply %q: %v", reply, err), cs)
		return
	}
	good := rng.Bool()
	c.Count("auth_inside_tls", 1)
	c.Eval(fmt.Sprintf("auth-in-tls good=%v v%x", good, maxVer), true)
	out, _ := t.step(pg.Startup([][2]string{{"user", s.User}}))
	if replyKinds(out) != "R(3)" {
		c.Violate("tls-differs", "password request inside TLS", replyKinds(out), cs)
		return
	}
	pw := "wrong-" + s.User
	if good {
		pw = "pw"
	}
	out, closed := t.step(append(pg.Password(pw), pg.Query("after auth "+s.User)...))
	k := collapse(pg.Types(mustMsgs(out)))
	if good && (k != "RSZTDCZ" || closed) {
		c.Violate("tls-differs", "accepted password inside TLS does not give a session", k, cs)
		return
	}
	if !good {
		ms := mustMsgs(out)
		if !closed || len(ms) != 1 || ms[0].T != 'E' || !strings.HasPrefix(ms[0].Err['C'], "28") {
			c.Violate("tls-differs", "rejected password inside TLS is not answered by ErrorResponse(28xxx) + close", fmt.Sprintf("closed=%v reply=%s", closed, replyKinds(out)), cs)
			return
		}
	}
	t.tc.Close()
	t.conn.CloseWrite()
	t.conn.WaitClosed()
	ch.rawChecks(c, t, [][]byte{[]byte("tls-probe-value-" + s.User), []byte("invalid username")}, cs, "auth inside TLS")
}

// odd behaviours: repeated SSLRequest inside TLS, GSSENCRequest; only safety is judged.
func (ch c11) odd(c *core.Ctx, env, envNone *hs.Env, s c15session, rng *core.Rng, maxVer uint16, cs map[string]any) {
	probe := &hs.Prog{Stmts: []*hs.Stmt{{ID: "probe", Cols: textCols(1), Ops: []hs.Op{{K: "row", Vals: []any{"tls-probe-value-" + s.User}}, {K: "complete", Tag: "SELECT 1"}}}}}
	sess := &hs.Sess{Default: func(q string) *hs.Prog { return probe }}
	c.Eval("odd", true)
	if rng.Bool() {
		genv, wantSSL := env, "S"
		if rng.Intn(3) == 0 {
			genv, wantSSL = envNone, "N"
		}
		conn := genv.Dial(sess)
		conn.Send(pg.GSSENCRequest())
		if closed, _ := conn.Quiesce(); !closed && string(conn.Out()) == "N" {
			// GSS encryption declined and the connection kept open: like libpq with gssencmode=prefer the
			// client goes on with an SSLRequest, for which the rule of the property holds unchanged
			c.Count("gss_declined_then_sslrequest", 1)
			conn.Send(pg.SSLRequest())
			conn.Quiesce()
			if got := string(conn.Out()[1:]); got != wantSSL {
				c.Violate("ssl-reply", fmt.Sprintf("SSLRequest after a declined GSSENCRequest not answered with the single byte %s", wantSSL), fmt.Sprintf("%q", trim(got, 20)), cs)
				return
			}
			var stepf func([]byte) ([]byte, bool)
			if wantSSL == "S" {
				t := &c11tls{conn: conn, cc: &tr.ClientConn{C: conn, Pos: 2}}
				cfg := hs.ClientTLS()
				cfg.MaxVersion = maxVer
				t.tc = tls.Client(t.cc, cfg)
				if err := t.tc.Handshake(); err != nil {
					c.Violate("upgrade", "TLS handshake failed after GSSENCRequest + SSLRequest", err.Error(), cs)
					return
				}
				stepf = t.step
				defer func() {
					t.tc.Close()
					conn.CloseWrite()
					conn.WaitClosed()
					if _, err := tlsRecords(conn.Out()[2:]); err != nil {
						c.Violate("plaintext-after-S", "raw server bytes after S are not TLS records (GSSENCRequest first)", err.Error(), cs)
					}
				}()
			} else {
				cl := &hs.Client{C: conn}
				cl.Wait()
				stepf = cl.Step
				defer cl.Finish()
			}
			if out, _ := stepf(pg.Startup([][2]string{{"user", s.User}})); !strings.HasSuffix(pg.Types(mustMsgs(out)), "Z") {
				c.Violate("upgrade", "startup after GSSENCRequest + SSLRequest not served", replyKinds(out), cs)
				return
			}
			if out, _ := stepf(pg.Query("after gss decline " + s.User)); pg.Types(mustMsgs(out)) != "TDCZ" {
				c.Violate("upgrade", "query after GSSENCRequest + SSLRequest not served", replyKinds(out), cs)
			}
			return
		}
		conn.CloseWrite()
		conn.WaitClosed()
		for _, e := range conn.Events() {
			if e.Kind == "cb" {
				c.Violate("gssenc", "callback on a GSSENCRequest connection", e.Name, cs)
			}
		}
		if _, err := parseAll(conn.Out()); err != nil && len(conn.Out()) != 1 {
			c.Violate("gssenc", "reply to GSSENCRequest not well-formed", err.Error(), cs)
		}
		return
	}
	t, reply, err := c11upgrade(env, sess, nil, false, maxVer)
	if err != nil {
		c.Violate("upgrade", "TLS upgrade failed", fmt.Sprintf("reply %q: %v", reply, err), cs)
		return
	}
	switch rng.Intn(6) {
	case 5: // a CancelRequest as the first packet inside TLS: like its plaintext equivalent it is closed without any reply or callback
		out, closed := t.step(pg.CancelRequest(uint32(1+rng.Intn(1<<20)), uint32(rng.U64())))
		evs := 0
		for _, e := range t.conn.Events() {
			if e.Kind == "cb" {
				evs++
			}
		}
		if len(out) != 0 || !closed || evs != 0 {
			c.Violate("tls-differs", "a CancelRequest inside the TLS session is not handled like its plaintext equivalent (closed, no reply, no callback)", fmt.Sprintf("decrypted reply %s, closed=%v, callbacks=%d", replyKinds(out), closed, evs), cs)
		}
		c.Count("cancel_inside_tls", 1)
	case 0:
		t.step(pg.SSLRequest()) // a second SSLRequest, now inside TLS
		t.step(pg.Startup([][2]string{{"user", s.User}}))
		t.step(pg.Query("after repeated sslrequest " + s.User))
	case 1: // startup packet with a declared length below the minimum, inside TLS
		t.step([]byte{0, 0, 0, byte(rng.Intn(4)), 0, 3, 0, 0})
	case 2: // oversized startup packet inside TLS
		t.step(pg.StartupRaw(pg.Version30, bytes.Repeat([]byte{'x'}, 1<<16+10)))
	case 3: // startup packet whose body is shorter than the version word
		t.step([]byte{0, 0, 0, 6, 0, 3})
	default: // valid startup, then a malformed password-less garbage message
		t.step(pg.Startup([][2]string{{"user", s.User}}))
		t.step(pg.RawLen('Q', 2, nil))
	}
	c.Count("malformed_inside_tls", 1)
	t.tc.Close()
	t.conn.CloseWrite()
	t.conn.WaitClosed()
	ch.rawChecks(c, t, [][]byte{[]byte("tls-probe-value-" + s.User)}, cs, "odd client behaviour inside TLS")
}

func (ch c11) startupVariants(c *core.Ctx, envTLS, envNone *hs.Env) {
	rng := core.NewRng(c.Seed, "C11v", c.Batch, 0)
	kv := func(pairs ...string) []byte {
		var b []byte
		for _, x := range pairs {
			b = append(append(b, x...), 0)
		}
		return append(b, 0)
	}
	type variant struct {
		name string
		pkt  []byte
	}
	var vs []variant
	for _, v := range []uint32{0x00030000, 0x00030001, 0x00030002, 0x0003270f, 0x00020000, 0x00010000, 0x00040000, 0x00000001, 0, 0x04d20001, 0xffffffff, 0x00030000 + uint32(rng.Intn(1<<16)), uint32(rng.Intn(1<<16) << 16)} {
		if v == pg.VerSSL || v == pg.VerCancel || v == pg.VerGSSENC {
			continue
		}
		vs = append(vs, variant{fmt.Sprintf("version %d.%d", v>>16, v&0xffff), pg.StartupRaw(v, kv("user", "u", "database", "d"))})
	}
	vs = append(vs,
		variant{"no parameters", pg.StartupRaw(pg.Version30, []byte{0})},
		variant{"no user", pg.StartupRaw(pg.Version30, kv("database", "d"))},
		variant{"empty user", pg.StartupRaw(pg.Version30, kv("user", ""))},
		variant{"user twice", pg.StartupRaw(pg.Version30, kv("user", "u1", "user", "u2"))},
		variant{"key without value", pg.StartupRaw(pg.Version30, append([]byte("user\x00u\x00orphan\x00"), 0))},
		variant{"no list terminator", pg.StartupRaw(pg.Version30, []byte("user\x00u\x00"))},
		variant{"bytes behind the terminator", pg.StartupRaw(pg.Version30, append(kv("user", "u"), "surplus"...))},
		variant{"long value", pg.StartupRaw(pg.Version30, kv("user", strings.Repeat("u", 2000), "options", strings.Repeat("-c x=y ", 300)))},
		variant{"version word only", pg.StartupRaw(pg.Version30, nil)},
	)
	prog := &hs.Prog{Stmts: []*hs.Stmt{{ID: "t", Cols: textCols(1), Ops: []hs.Op{{K: "row", Vals: []any{"v"}}, {K: "complete", Tag: "SELECT 1"}}}}}
	sig := func(out []byte, closed bool, conn *tr.Conn) string {
		msgs, rest, err := pg.ParseStream(out)
		var b strings.Builder
		last := byte(0)
		for _, m := range msgs {
			if m.T == 'S' && last == 'S' {
				continue
			}
			last = m.T
			b.WriteByte(m.T)
			if m.T == 'E' {
				b.WriteString("(" + m.Err['S'] + " " + m.Err['C'] + ")")
			}
		}
		if err != nil || rest != 0 {
			b.WriteString(" +unparsable")
		}
		cbs := 0
		for _, e := range conn.Events() {
			if e.Kind == "cb" {
				cbs++
			}
		}
		return fmt.Sprintf("%s closed=%v callbacks=%d", b.String(), closed, cbs)
	}
	for vi, v := range vs {
		in := append(append([]byte(nil), v.pkt...), pg.Query("t")...)
		cs := map[string]any{"workload": "start-up variants", "variant": v.name}
		mk := func() *hs.Sess { return &hs.Sess{Default: func(string) *hs.Prog { return prog }} }
		// the reference: first packet of a plaintext connection
		conn := envTLS.Dial(mk())
		conn.Send(in)
		closed, _ := conn.Quiesce()
		ref := sig(conn.Out(), closed, conn)
		conn.CloseWrite()
		conn.WaitClosed()
		// after a declined SSLRequest
		conn = envNone.Dial(mk())
		conn.Send(pg.SSLRequest())
		conn.Quiesce()
		if string(conn.Out()) == "N" {
			conn.Send(in)
			closed, _ = conn.Quiesce()
			if got := sig(conn.Out()[1:], closed, conn); got != ref {
				c.Violate("plaintext-after-N", "a start-up packet is treated differently after a declined SSLRequest", fmt.Sprintf("%s: %s, as first packet %s", v.name, got, ref), cs)
			}
		}
		conn.CloseWrite()
		conn.WaitClosed()
		// inside TLS
		ver := []uint16{tls.VersionTLS12, tls.VersionTLS13}[vi%2]
		t, reply, err := c11upgrade(envTLS, mk(), nil, false, ver)
		if err != nil {
			c.Violate("upgrade", "TLS upgrade failed", fmt.Sprintf("reply %q: %v", reply, err), cs)
			return
		}
		out, closed := t.step(in)
		if got := sig(out, closed, t.conn); got != ref {
			c.Violate("tls-differs", "a start-up packet is treated differently inside TLS", fmt.Sprintf("%s: inside TLS %s, in plaintext %s", v.name, got, ref), cs)
		}
		t.tc.Close()
		t.conn.CloseWrite()
		t.conn.WaitClosed()
		c.Count("startup_variants_compared_across_transports", 1)
		c.Eval("startup variant "+v.name, true)
		if vi == 0 {
			c.Sample(map[string]any{"workload": "start-up variants", "variant": v.name, "outcome": ref})
		}
	}
}
