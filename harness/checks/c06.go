package checks

import (
	"bytes"
	"context"
	"fmt"
	"strings"

	wire "github.com/jeroenrinzema/psql-wire"

	"verifharness/core"
	"verifharness/hs"
	"verifharness/pg"
)

// C06 - Extended Query: designated replies, one ReadyForQuery per Sync, skip on error.

type c06 struct{ base }

func init() {
	core.Register(c06{base{id: "C06", level: "exploration", quickB: 16, thoroughB: 32,
		rule:        "histories over {Parse ok/err/0/2 statements, Bind known/unknown/with an unsupported format code, Describe S/P, Execute (ok, fail before/after rows, panic, unknown portal), Close S/P, Flush, Sync, simple Query, unknown-type, oversized} with names from {\"\",a,b}; every history is followed by Sync + probe Query, or (every fifth length) by Terminate in whatever state it left. quick: exhaustive over all histories of length <= 4 from a 14-symbol alphabet + random length <= 12; thorough: random length <= 30. Each history runs in lock-step (reply must be complete when the server blocks for input = promptness) and again pipelined in one segment (bytes and callback trace must be identical). Non-trivial = contains an error or an unknown name or a message while skipping; distinct = distinct message-kind/outcome sequence.",
		need:        []string{"messages_stepped", "extended_errors", "messages_discarded_while_skipping", "pipelined_runs", "session_contexts_ended_inside_a_history"},
		assumptions: append([]string{"after an unknown-type or oversized non-Query message inside a batch the reply (nothing / E / E Z) and the skipping state are left open; whether portals survive Sync, whether Close(statement) cascades to its portals and whether a simple Query destroys the unnamed statement are left open (all accepted consistently)"}, commonAssumptions...)}})
}

func (c06) alphabet(pfx string) []func(i int) xMsg {
	return []func(i int) xMsg{
		func(i int) xMsg {
			id := fmt.Sprintf("%s.%d", pfx, i)
			return xMsg{K: "parse", Name: "a", Query: "P " + id, Prog: xProg(id, 4)}
		},
		func(i int) xMsg {
			id := fmt.Sprintf("%s.%d", pfx, i)
			return xMsg{K: "parse", Name: "a", Query: "P " + id, Prog: xProg(id, 0)}
		},
		func(i int) xMsg {
			id := fmt.Sprintf("%s.%d", pfx, i)
			return xMsg{K: "parse", Name: "a", Query: "P " + id, Prog: xProg(id, 8)}
		},
		func(i int) xMsg {
			return xMsg{K: "bind", Portal: "a", Name: "a", Params: [][]byte{[]byte(fmt.Sprintf("p%d", i)), []byte("7")}, BindID: i}
		},
		func(i int) xMsg {
			return xMsg{K: "bind", Portal: "a", Name: "zz", Params: [][]byte{[]byte("x"), []byte("1")}, BindID: i}
		},
		func(i int) xMsg {
			return xMsg{K: "bind", Portal: "a", Name: "a", Params: [][]byte{[]byte("x"), []byte("1")}, RFmts: []int16{int16(2 + i)}, BindID: i}
		},
		func(i int) xMsg { return xMsg{K: "descS", Name: "a"} },
		func(i int) xMsg { return xMsg{K: "descP", Portal: "a"} },
		func(i int) xMsg { return xMsg{K: "exec", Portal: "a"} },
		func(i int) xMsg { return xMsg{K: "exec", Portal: "zz"} },
		func(i int) xMsg { return xMsg{K: "closeS", Name: "a"} },
		func(i int) xMsg { return xMsg{K: "flush"} },
		func(i int) xMsg { return xMsg{K: "sync"} },
		func(i int) xMsg {
			id := fmt.Sprintf("%s.%d", pfx, i)
			return xMsg{K: "query", Query: "Q " + id, Prog: xProg(id, 3)}
		},
	}
}

func randHistory(rng *core.Rng, pfx string, maxLen int, withOpen bool) []xMsg {
	n := 1 + rng.Intn(maxLen)
	emptyUsed := false
	var h []xMsg
	bind := 0
	if rng.Intn(12) == 0 {
		// a statement that panics inside Execute, then the connection goes on using portals
		id := pfx + ".boom"
		nm := core.Pick(rng, xNames)
		p := [][]byte{[]byte("x"), []byte("1")}
		h = append(h, xMsg{K: "parse", Name: nm, Query: "P " + id, Prog: xProg(id, 9+rng.Intn(2))},
			xMsg{K: "bind", Portal: "a", Name: nm, Params: p, BindID: 900}, xMsg{K: "exec", Portal: "a"}, xMsg{K: "sync"},
			xMsg{K: "bind", Portal: "b", Name: nm, Params: p, BindID: 901}, xMsg{K: "descP", Portal: "b"}, xMsg{K: "closeP", Portal: "a"}, xMsg{K: "sync"})
	}
	if rng.Intn(10) == 0 {
		// the very same Parse again (drivers that do not track what they prepared send it before every
		// execution), the second time after a Close of the name: the statement has to be there again
		id := pfx + ".again"
		nm := core.Pick(rng, xNames)
		pm := xMsg{K: "parse", Name: nm, Query: "P " + id, Prog: xProg(id, 3+rng.Intn(2))}
		p := [][]byte{[]byte("x"), []byte("1")}
		h = append(h, pm, xMsg{K: "bind", Portal: "a", Name: nm, Params: p, BindID: 910}, xMsg{K: "exec", Portal: "a"})
		if rng.Bool() {
			h = append(h, xMsg{K: "sync"})
		}
		if rng.Intn(3) > 0 {
			h = append(h, xMsg{K: "closeS", Name: nm})
		}
		h = append(h, pm, xMsg{K: "bind", Portal: "b", Name: nm, Params: p, BindID: 911}, xMsg{K: "descP", Portal: "b"}, xMsg{K: "exec", Portal: "b"}, xMsg{K: "sync"})
	}
	for i := 0; i < n; i++ {
		id := fmt.Sprintf("%s.%d", pfx, i)
		name := core.Pick(rng, xNames)
		portal := core.Pick(rng, xNames)
		if rng.Intn(12) == 0 {
			name = "zz"
		}
		if rng.Intn(12) == 0 {
			portal = "zz"
		}
		k := rng.Intn(100)
		switch {
		case k < 20:
			kind := rng.Intn(xProgKinds)
			if rng.Intn(3) != 0 {
				kind = 3 + rng.Intn(xProgKinds-3)
			}
			var oids []uint32
			for j := rng.Intn(3); j > 0; j-- {
				oids = append(oids, uint32(rng.Intn(3000)))
			}
			q := "P " + id
			if !emptyUsed && rng.Intn(6) == 0 {
				// an empty or blank query text is a text like any other for the extended protocol: it goes
				// to the parser and the statement it yields is bound, described and executed as usual
				q, emptyUsed = core.Pick(rng, []string{"", " ", "\n\t "}), true
			}
			if q != "" && strings.TrimSpace(q) != "" && rng.Intn(6) == 0 {
				q += " /* " + strings.Repeat("large statement text ", 200+rng.Intn(250)) + "*/" // a Parse of 4-9 KiB
			}
			h = append(h, xMsg{K: "parse", Name: name, Query: q, Prog: xProg(id, kind), OIDs: oids})
		case k < 38:
			bind++
			m := xMsg{K: "bind", Portal: portal, Name: name, BindID: bind,
				Params: [][]byte{[]byte(fmt.Sprintf("%s-b%d", pfx, bind)), []byte(fmt.Sprint(rng.Intn(1000)))}}
			if rng.Intn(6) == 0 {
				m.Params[0] = append(m.Params[0], bytes.Repeat([]byte(" large parameter"), 250+rng.Intn(300))...) // a Bind of 4-9 KiB
			}
			switch rng.Intn(4) {
			case 1:
				m.RFmts = []int16{0}
			case 2:
				m.RFmts = []int16{1}
			case 3:
				if rng.Intn(3) == 0 { // more codes than any statement here has columns
					m.RFmts = []int16{0, 1, 0, 1}[:3+rng.Intn(2)]
				}
			}
			if rng.Intn(15) == 0 { // unsupported format code: the Bind must fail like any other failing message
				if rng.Bool() {
					m.RFmts = []int16{core.Pick(rng, []int16{2, 7, -1, 256})}
				} else {
					m.PFmts = []int16{core.Pick(rng, []int16{2, 7, -1, 256})}
				}
			}
			switch rng.Intn(3) {
			case 1:
				m.PFmts = []int16{0}
			case 2:
				m.PFmts = []int16{0, 0}
			}
			h = append(h, m)
		case k < 46:
			h = append(h, xMsg{K: "descS", Name: name})
		case k < 54:
			h = append(h, xMsg{K: "descP", Portal: portal})
		case k < 72:
			h = append(h, xMsg{K: "exec", Portal: portal})
		case k < 77:
			h = append(h, xMsg{K: "closeS", Name: name})
		case k < 82:
			h = append(h, xMsg{K: "closeP", Portal: portal})
		case k < 85:
			h = append(h, xMsg{K: "flush"})
		case k < 93:
			h = append(h, xMsg{K: "sync"})
		case k < 97:
			kind := rng.Intn(xProgKinds)
			for kind == 9 || kind == 10 {
				kind = rng.Intn(xProgKinds)
			}
			q := "Q " + id
			if rng.Intn(8) == 0 {
				q = "  "
			}
			h = append(h, xMsg{K: "query", Query: q, Prog: xProg(id, kind)})
		default:
			if !withOpen {
				h = append(h, xMsg{K: "sync"})
			} else if rng.Bool() {
				h = append(h, xMsg{K: "unknown", Raw: pg.Raw(core.Pick(rng, []byte{'F', 'Y', 'z', '!', 'R'}), rng.Bytes(rng.Intn(6)))})
			} else {
				t := core.Pick(rng, []byte{'P', 'B', 'E', 'D', 'C', 'H'})
				h = append(h, xMsg{K: "oversize", Raw: pg.Raw(t, bytes.Repeat([]byte{'x'}, (1<<16)+1+rng.Intn(100)))})
			}
		}
	}
	return xLongNames(rng, h)
}

func xNontrivial(h []xMsg) bool {
	for _, m := range h {
		if m.Name == "zz" || m.Portal == "zz" || m.K == "unknown" || m.K == "oversize" || badFormats(m.RFmts) || badFormats(m.PFmts) {
			return true
		}
		if (m.K == "parse" || m.K == "query") && m.Prog != nil && (m.Prog.Err != nil || len(m.Prog.Stmts) != 1) {
			return true
		}
		if m.K == "parse" && m.Prog != nil && len(m.Prog.Stmts) == 1 {
			for _, o := range m.Prog.Stmts[0].Ops {
				if o.K == "err" || o.K == "panic" {
					return true
				}
			}
		}
	}
	return false
}

func xShape(h []xMsg) string {
	var sb strings.Builder
	for _, m := range h {
		sb.WriteString(m.K)
		sb.WriteString(m.Name + "/" + m.Portal)
		if m.Prog != nil {
			sb.WriteString(progKind(m.Prog))
		}
		sb.WriteByte(' ')
	}
	return sb.String()
}

func (ch c06) Run(c *core.Ctx) {
	nb := ch.Batches(c.Tier)
	env := hs.Start(hs.Parse)
	defer env.Stop()
	tail := func(pfx string) []xMsg {
		return []xMsg{{K: "sync"}, {K: "query", Query: "probe " + pfx, Prog: xProg("probe"+pfx, 3)}}
	}
	idx := 0
	nrun := 0
	runOne := func(h []xMsg, pfx string) {
		nrun++
		if nrun%5 == 4 {
			h = append(h, xMsg{K: "terminate"}) // Terminate straight after the history, whatever state it left
		} else {
			h = append(h, tail(pfx)...)
		}
		ok, run := judgeHistory(c, env, h, map[string]any{"history": histString(h)}, "C06")
		c.Eval(xShape(h), xNontrivial(h))
		if idx < 2*nb {
			c.Sample(map[string]any{"history": histString(h), "replies": replyKinds(run.Raw)})
		}
		if !ok {
			return
		}
		// pipelined: identical bytes and callback trace
		sess := &hs.Sess{Progs: map[string]*hs.Prog{}}
		var all []byte
		for _, m := range xPrepare(c, h) {
			if (m.K == "parse" || m.K == "query") && m.Prog != nil {
				sess.Progs[m.Query] = m.Prog
			}
			all = append(all, m.bytes()...)
		}
		cl := hs.NewClient(env.Dial(sess))
		if err := cl.StartupOK("u"); err != nil {
			return
		}
		evStart := len(cl.C.Events())
		out, _ := cl.Step(all)
		if h[len(h)-1].K == "terminate" {
			cl.C.WaitClosed()
		}
		if hangCheck(c, cl, nil) {
			return
		}
		parses, execs := xCollectTrace(cl.C.Events()[evStart:])
		var trace []string
		// trace order: rebuild in event order
		trace = traceOf(cl.C.Events()[evStart:])
		_ = parses
		_ = execs
		c.Count("pipelined_runs", 1)
		if !bytes.Equal(out, run.Raw) {
			c.Violate("pipelined", "pipelined transcript differs from lock-step transcript", fmt.Sprintf("history [%s]: lock-step %q, pipelined %q", histString(h), replyKinds(run.Raw), replyKinds(out)), map[string]any{"history": histString(h)})
		} else if strings.Join(trace, ",") != strings.Join(run.Trace, ",") {
			c.Violate("pipelined", "pipelined callback trace differs", fmt.Sprintf("history [%s]: lock-step %v, pipelined %v", histString(h), run.Trace, trace), nil)
		}
		cl.Finish()
	}
	// exhaustive part
	alpha := ch.alphabet("x")
	maxLen := 4
	total := 0
	var rec func(cur []int)
	rec = func(cur []int) {
		if len(cur) > 0 {
			if total%nb == c.Batch && c.Begin(idx) && c.NViol() < 10 {
				pfx := fmt.Sprintf("e%d", total)
				a := ch.alphabet(pfx)
				h := make([]xMsg, len(cur))
				for i, s := range cur {
					h[i] = a[s](i)
				}
				runOne(h, pfx)
			}
			total++
			idx++
		}
		if len(cur) == maxLen {
			return
		}
		for s := range alpha {
			rec(append(cur, s))
		}
	}
	rec(nil)
	if c.Batch == 0 {
		c.Count("exhaustive_parts", 1)
	}
	// a failed batch with more than 65535 messages behind the failing one (pipelined Execute messages of a portal
	// that exists: 650 KB of input): every one of them is discarded, the Sync gets the one ReadyForQuery
	if c.Batch == 2%nb && c.Begin(2900000) && c.NViol() < 10 {
		for _, n := range []int{65534, 65535, 65536, 65540, 70001} {
			id := fmt.Sprintf("skip%d", n)
			sess := &hs.Sess{Progs: map[string]*hs.Prog{"P " + id: xProg(id, 3)}}
			cl := hs.NewClient(env.Dial(sess))
			if err := cl.StartupOK("u"); err != nil {
				break
			}
			cl.C.NoLog = true
			p := [][]byte{[]byte("x"), []byte("1")}
			out, _ := cl.Step(append(append(pg.Parse("a", "P "+id, nil), pg.Bind("p", "a", nil, p, nil)...), pg.Sync()...))
			if pg.Types(mustMsgs(out)) != "12Z" {
				cl.Finish()
				break
			}
			in := pg.Bind("q", "no-such-statement", nil, p, nil)
			one := pg.Execute("p", 0)
			for k := 0; k < n; k++ {
				in = append(in, one...)
			}
			evStart := cl.C.NEvents()
			out, closed := cl.Step(append(in, pg.Sync()...))
			if hangCheck(c, cl, nil) {
				break
			}
			_, execs := xCollectTrace(cl.C.EventsFrom(evStart))
			c.Count("messages_discarded_while_skipping", int64(n))
			c.Eval(fmt.Sprintf("%d messages behind a failing one", n), true)
			if r := pg.Types(mustMsgs(out)); r != "EZ" || closed || len(execs) != 0 {
				c.Violate("skip", "messages behind a failing one are not all discarded until Sync (a batch of more than 65535 messages)", fmt.Sprintf("a failing Bind, %d Execute messages, Sync: reply %q (want EZ), %d statement function(s) ran, closed=%v", n, trim(r, 60), len(execs), closed), nil)
				break
			}
			cl.Finish()
		}
	}
	// histories during which the embedding program ends the context it gave the session
	envC := hs.Start(hs.Parse, wire.SessionMiddleware(func(ctx context.Context) (context.Context, error) {
		if conn := hs.ConnOf(ctx); conn != nil {
			if s, _ := conn.User.(*hs.Sess); s != nil {
				var cancel context.CancelFunc
				ctx, cancel = context.WithCancel(ctx)
				s.EndSession = cancel
			}
		}
		return ctx, nil
	}))
	defer envC.Stop()
	nend := 1600
	if c.Tier == "thorough" {
		nend = 200000
	}
	for i := c.Batch; i < nend; i += nb {
		if !c.Begin(2000000+i) || c.NViol() >= 10 {
			continue
		}
		rng := core.NewRng(c.Seed, "C06ended", 0, i)
		pfx := fmt.Sprintf("s%d", i)
		h := append(randHistory(rng, pfx, 10, false), tail(pfx)...)
		ch.endedSession(c, envC, h, rng.Intn(len(h)))
	}
	// random part
	nrand, rlen := 20000, 12
	if c.Tier == "thorough" {
		nrand, rlen = 3000000, 30
	}
	for i := c.Batch; i < nrand; i += nb {
		idx = 1000000 + i
		if !c.Begin(idx) || c.NViol() >= 10 {
			continue
		}
		rng := core.NewRng(c.Seed, "C06", 0, i)
		pfx := fmt.Sprintf("r%d", i)
		runOne(randHistory(rng, pfx, rlen, true), pfx)
	}
}

// endedSession: the embedding program gives every connection a context of its own (session middleware) and
// ends it at some point of the history - a per-session deadline, a log-out - while the connection goes on.
// Whatever the server makes of commands after that (serves them, refuses them), the rules of the cycle stay:
// no ReadyForQuery for anything but Sync (and the one that ends a simple Query), exactly one per Sync, at most
// one ErrorResponse per message and silence without callbacks from there to the next Sync.
func (ch c06) endedSession(c *core.Ctx, env *hs.Env, h []xMsg, cancelAt int) {
	cs := map[string]any{"history": histString(h), "session_context_ended_before_step": cancelAt}
	sess := &hs.Sess{Progs: map[string]*hs.Prog{}}
	for _, m := range h {
		if (m.K == "parse" || m.K == "query") && m.Prog != nil {
			sess.Progs[m.Query] = m.Prog
		}
	}
	cl := hs.NewClient(env.Dial(sess))
	if err := cl.StartupOK("u"); err != nil {
		c.Violate("startup", "plain startup failed", err.Error(), cs)
		return
	}
	if sess.EndSession == nil {
		c.Inconclusive("ended-session histories: the session middleware did not run")
		return
	}
	skip := false
	for i, m := range h {
		if i == cancelAt {
			sess.EndSession()
			c.Count("session_contexts_ended_inside_a_history", 1)
		}
		evStart := len(cl.C.Events())
		out, closed := cl.Step(m.bytes())
		if hangCheck(c, cl, cs) {
			return
		}
		if closed {
			if i < cancelAt {
				c.Violate("dropped", "connection dropped on "+m.K, fmt.Sprintf("history [%s], step %d", histString(h), i), cs)
			}
			return // a server that ends the connection of an ended session is not judged here
		}
		msgs, err := parseAll(out)
		if err != nil {
			c.Violate("grammar", "reply not well-formed after "+m.K, err.Error(), cs)
			return
		}
		r := pg.Types(msgs)
		parses, execs := xCollectTrace(cl.C.Events()[evStart:])
		ncb := len(parses) + len(execs)
		after := ""
		if i >= cancelAt {
			after = " (the session's context has ended)"
		}
		viol := func(rule, sig string) {
			c.Violate(rule, sig+after, fmt.Sprintf("history [%s], step %d %s: reply %q, %d callback(s)", histString(h), i, m.short(), r, ncb), cs)
		}
		switch m.K {
		case "sync":
			if r != "Z" {
				viol("sync", "Sync not answered by exactly one ReadyForQuery")
				return
			}
			skip = false
		case "query":
			if skip {
				return // what a simple Query does to a failed batch is judged by the model part
			}
			if strings.Count(r, "Z") != 1 || !strings.HasSuffix(r, "Z") {
				viol("query-cycle", "simple Query inside an extended history not ended by exactly one ReadyForQuery")
				return
			}
		case "flush":
			if r != "" {
				viol("flush", "Flush answered")
				return
			}
		default:
			switch {
			case strings.Contains(r, "Z"):
				viol("rfq", "ReadyForQuery sent for "+m.K)
				return
			case skip && (r != "" || ncb != 0):
				viol("skip", "message after a failed one not discarded until Sync ("+m.K+")")
				return
			case strings.Count(r, "E") > 1 || strings.Contains(r, "E") && !strings.HasSuffix(r, "E"):
				viol("error-once", "failing "+m.K+" not answered by exactly one ErrorResponse as its last reply")
				return
			}
			if strings.Contains(r, "E") {
				skip = true
				if i >= cancelAt {
					c.Count("errors_after_the_session_context_ended", 1)
				}
			}
		}
		if i >= cancelAt {
			c.Count("messages_stepped_after_the_session_context_ended", 1)
		}
	}
	cl.Finish()
	c.Eval(fmt.Sprintf("ended session at %d of %s", cancelAt, xShape(h)), true)
}

func traceOf(evs []trEvent) []string {
	var t []string
	for _, e := range evs {
		if e.Kind != "cb" {
			continue
		}
		switch e.Name {
		case "parse":
			t = append(t, "parse:"+e.Data.(hs.ParseRec).Query)
		case "exec":
			t = append(t, "exec:"+e.Data.(hs.ExecRec).Stmt)
		}
	}
	return t
}
