package checks

import (
	"bytes"
	"context"
	"crypto/tls"
	"errors"
	"fmt"
	"runtime"
	"strings"
	"sync"
	"sync/atomic"
	"time"
	"verifharness/tr"

	wire "github.com/jeroenrinzema/psql-wire"
	"github.com/jeroenrinzema/psql-wire/pkg/buffer"
	"github.com/jeroenrinzema/psql-wire/pkg/types"

	"verifharness/core"
	"verifharness/hs"
	"verifharness/pg"
)

// C01 - Rejected credentials never yield a session.

type c01 struct{ base }

func init() {
	core.Register(c01{base{id: "C01", level: "exploration", quickB: 8, thoroughB: 32,
		rule:        "connections to servers with ClearTextPassword(validator) or a custom failing AuthStrategy; validator outcome (accept / false / (false,error) / (true,error) / (nil ctx,false,error) / (nil ctx,false,nil)) is a function of the password; start-up packets optionally carry an accepting password as surplus behind their parameter list; in place of the password message: every frontend type byte, unterminated / empty / sub-minimum / oversized / truncated bodies, immediate EOF; continuations (pipelined in the same segment, or late after the rejection was observed) of Q/P/B/D/E/S/X messages and random bytes; the client never half-closes in non-accepting cases so the server's own Close is observed. Groups of 2-11 connections authenticate at the same time with accepting and rejecting passwords of equal length while the validator yields before deciding. Non-trivial = non-accepting case with a continuation; distinct = (strategy, outcome kind, continuation placement, continuation message kinds).",
		need:        []string{"concurrent_authentication_groups", "rejected_with_pipelined_continuation", "rejected_with_late_continuation", "accepted_sessions_probed", "malformed_password_messages", "validator_errors", "server_close_observed"},
		assumptions: append([]string{"an ErrorResponse after a validator error or a malformed message is allowed but not required; after validator=false an ErrorResponse with SQLSTATE class 28 is required"}, commonAssumptions...)}})
}

type c01case struct {
	Strategy string // cleartext | custom-silent | custom-error
	Kind     string // accept reject fail wrongtype unterminated empty submin oversized truncated eof
	User, DB string
	Password string
	TypeByte byte
	Cont     string // none | pipelined | late
	ContMsgs []string
}

func (k c01case) sig() string {
	return fmt.Sprintf("%s|%s|%s|%s", k.Strategy, k.Kind, k.Cont, strings.Join(k.ContMsgs, ","))
}

type c01val struct{ DB, User, PW string }

// c01slow: the validator takes its time (yields) before it looks at the password it was handed, as a
// validator does that asks a backend; set while several connections authenticate at once.
var c01slow atomic.Bool

func c01validator(ctx context.Context, database, username, password string) (context.Context, bool, error) {
	c := hs.ConnOf(ctx)
	c.CB("validate", c01val{DB: strings.Clone(database), User: strings.Clone(username), PW: strings.Clone(password)})
	if c01slow.Load() {
		for i := 0; i < 20; i++ {
			runtime.Gosched()
		}
	}
	switch {
	case strings.HasPrefix(password, "ok:"):
		return ctx, true, nil
	case strings.HasPrefix(password, "err:"):
		return ctx, false, errors.New("validator backend unavailable")
	case strings.HasPrefix(password, "errt:"):
		// the password matched but a later step of the validator failed
		return ctx, true, errors.New("validator: profile lookup failed after the password matched")
	case strings.HasPrefix(password, "slowok:"):
		time.Sleep(80 * time.Millisecond) // a slow back end; the password is right
		return ctx, true, nil
	case strings.HasPrefix(password, "panic:"):
		var profiles map[string][]string
		return ctx, len(profiles[username][0]) > 0, nil // index out of range: a validator bug for this user
	case strings.HasPrefix(password, "nil:"):
		// a rejection that hands back no context and no error
		return nil, false, nil
	case strings.HasPrefix(password, "errc:"):
		// the validator's own look-up failed with (or wrapped) a standard-library error - its context was
		// cancelled, its deadline passed, its back end hung up; a failure like any other. Some report the
		// failure next to a true verdict
		cause := hs.Causes[1+int(core.H64("c01cause"+password)%uint64(len(hs.Causes)-1))]
		if core.H64("c01wrap"+password)%2 == 0 {
			cause = fmt.Errorf("credential look-up for %q: %w", username, cause)
		}
		return ctx, core.H64("c01verdict"+password)%3 == 0, cause
	case strings.HasPrefix(password, "errn:"):
		return nil, false, errors.New("validator backend unavailable (no context)")
	}
	return ctx, false, nil
}

func c01session(ctx context.Context) (context.Context, error) {
	hs.ConnOf(ctx).CB("session", nil)
	return ctx, nil
}

func (c01) gen(rng *core.Rng) c01case {
	k := c01case{Strategy: "cleartext"}
	switch rng.Intn(10) {
	case 0:
		k.Strategy = "custom-silent"
	case 1:
		k.Strategy = "custom-error"
	}
	k.Kind = core.Pick(rng, []string{"accept", "reject", "reject", "reject", "fail", "wrongtype", "wrongtype", "unterminated", "empty", "submin", "oversized", "truncated", "eof"})
	k.User = core.Pick(rng, []string{"u", "", "postgres", rng.Text(1+rng.Intn(30), true), strings.Repeat("x", 2000)})
	k.DB = core.Pick(rng, []string{"db", "", rng.Text(1+rng.Intn(20), true)})
	body := core.Pick(rng, []string{"", "secret", rng.Text(1+rng.Intn(40), true), strings.Repeat("p", 5000), "ok", "OK:", " ok:", "no:ok:"})
	switch k.Kind {
	case "accept":
		k.Password = "ok:" + body
	case "fail":
		k.Password = core.Pick(rng, []string{"err:", "errc:", "errc:", "errt:", "errt:", "errn:"}) + body
	default:
		k.Password = body
		if strings.HasPrefix(body, "ok:") || strings.HasPrefix(body, "err") {
			k.Password = "no:" + body
		}
		if k.Kind == "reject" && rng.Intn(3) == 0 {
			k.Password = "nil:" + body
		}
	}
	k.TypeByte = core.Pick(rng, []byte("QPBDECHSXdcfF\x00R"))
	if rng.Intn(4) == 0 {
		k.TypeByte = byte(rng.Intn(256))
		if k.TypeByte == 'p' {
			k.TypeByte = 'q'
		}
	}
	k.Cont = core.Pick(rng, []string{"none", "pipelined", "pipelined", "late", "late"})
	if k.Cont != "none" {
		for n := 1 + rng.Intn(5); n > 0; n-- {
			k.ContMsgs = append(k.ContMsgs, core.Pick(rng, []string{"Q", "Q", "P", "B", "D", "E", "S", "X", "rand", "p"}))
		}
	}
	return k
}

func (k c01case) passwordMsg() []byte {
	switch k.Kind {
	case "accept", "reject", "fail":
		return pg.Password(k.Password)
	case "wrongtype":
		return pg.Raw(k.TypeByte, append([]byte("ok:"+k.Password), 0))
	case "unterminated":
		return pg.Raw('p', []byte("ok:"+k.Password))
	case "empty":
		return pg.Raw('p', nil)
	case "submin":
		return pg.RawLen('p', uint32(len(k.Password)%4), []byte("ok:x\x00"))
	case "oversized":
		return pg.RawLen('p', uint32(1<<16+5+len(k.Password)), []byte("ok:x\x00"))
	case "truncated":
		return pg.RawLen('p', uint32(4+len(k.Password)+50), []byte("no:"+k.Password))
	}
	return nil
}

func (k c01case) contBytes(rng *core.Rng) []byte {
	var b []byte
	for _, m := range k.ContMsgs {
		switch m {
		case "Q":
			b = append(b, pg.Query("select 'canary-after-reject'")...)
		case "P":
			b = append(b, pg.Parse("s", "select 'canary-parse'", nil)...)
		case "B":
			b = append(b, pg.Bind("", "s", nil, nil, nil)...)
		case "D":
			b = append(b, pg.Describe('S', "s")...)
		case "E":
			b = append(b, pg.Execute("", 0)...)
		case "S":
			b = append(b, pg.Sync()...)
		case "X":
			b = append(b, pg.Terminate()...)
		case "p":
			b = append(b, pg.Password("ok:second-try")...)
		default:
			b = append(b, rng.Bytes(1+rng.Intn(40))...)
		}
	}
	return b
}

func (ch c01) Run(c *core.Ctx) {
	probe := &hs.Prog{Stmts: []*hs.Stmt{{ID: "probe", Cols: textCols(1), Ops: []hs.Op{{K: "row", Vals: []any{"p"}}, {K: "complete", Tag: "SELECT 1"}}}}}
	mk := func(strategy wire.AuthStrategy, more ...wire.OptionFn) *hs.Env {
		opts := append([]wire.OptionFn{wire.SessionAuthStrategy(strategy), wire.SessionMiddleware(c01session)}, more...)
		if c.Batch%2 == 1 {
			// hooks of the embedding program for the end of a connection, one that reports an error and one
			// that does not: whatever a hook does or returns, a rejected connection is closed
			opts = append(opts, wire.CloseConn(func(ctx context.Context) error { return errors.New("close hook: audit log unavailable") }),
				wire.TerminateConn(func(ctx context.Context) error { return nil }))
		}
		return hs.Start(hs.Parse, opts...)
	}
	envs := map[string]*hs.Env{
		"cleartext": mk(wire.ClearTextPassword(c01validator)),
		"custom-silent": mk(func(ctx context.Context, w *buffer.Writer, r *buffer.Reader) (context.Context, error) {
			hs.ConnOf(ctx).CB("strategy", nil)
			return ctx, errors.New("custom strategy: denied")
		}),
		"custom-error": mk(func(ctx context.Context, w *buffer.Writer, r *buffer.Reader) (context.Context, error) {
			hs.ConnOf(ctx).CB("strategy", nil)
			err := errors.New("custom strategy: denied")
			w.Start(types.ServerErrorResponse)
			for _, f := range []string{"SFATAL", "C28000", "Mcustom strategy: denied"} {
				w.AddString(f)
				w.AddNullTerminate()
			}
			w.AddNullTerminate()
			w.End()
			return ctx, err
		}),
	}
	defer func() {
		for _, e := range envs {
			e.Stop()
		}
	}()
	n := 2500
	if c.Tier == "thorough" {
		n = 60000
	}
	for i := 0; i < n; i++ {
		if !c.Begin(i) {
			continue
		}
		rng := core.NewRng(c.Seed, "C01", c.Batch, i)
		k := ch.gen(rng)
		ch.runCase(c, envs[k.Strategy], k, rng, probe)
		if c.NViol() >= 10 {
			return
		}
	}
	// the start-up packet arrives on a connection accepted before Server.Close was called: a closing
	// server may refuse the connection, but it may not wave it through without the strategy's consent
	for k := 0; k < 3 && c.Begin(4000000+k); k++ {
		e2 := hs.Start(hs.Parse, wire.SessionAuthStrategy(wire.ClearTextPassword(c01validator)), wire.SessionMiddleware(c01session))
		conn := e2.Dial(&hs.Sess{Default: func(string) *hs.Prog { return probe }})
		conn.Quiesce()
		e2.Srv.Close()
		in := pg.Startup([][2]string{{"user", "late"}})
		switch k {
		case 1:
			in = append(in, pg.Password("no:wrong")...)
		case 2:
			in = append(append(in, pg.Password("no:wrong")...), pg.Query("select 'after close'")...)
		}
		conn.Send(in)
		conn.Quiesce()
		out := conn.Out()
		kinds := replyKinds(out)
		served := ""
		for _, e := range conn.Events() {
			if e.Kind == "cb" && e.Name != "validate" {
				served += e.Name + " "
			}
		}
		if strings.Contains(kinds, "R(0)") || strings.Contains(kinds, "Z") || served != "" {
			c.Violate("session-without-acceptance", "a connection whose credentials were never accepted reached the authenticated phase (start-up after Server.Close)", fmt.Sprintf("variant %d: reply %s, callbacks: %s", k, kinds, served), nil)
		}
		c.Count("startup_after_close", 1)
		c.Eval(fmt.Sprintf("startup after close %d", k), true)
		conn.CloseWrite()
		conn.WaitClosed()
		<-e2.ServeErr
	}
	// a TLS client that presents a self-signed certificate naming the user it claims to be, to a server
	// that merely requests client certificates: nothing verifiable has been shown, the password strategy
	// decides as ever
	for k := 0; k < 2 && c.Begin(4100000+k); k++ {
		scfg := hs.ServerTLS()
		scfg.ClientAuth = []tls.ClientAuthType{tls.RequestClientCert, tls.RequireAnyClientCert}[k]
		e3 := hs.Start(hs.Parse, wire.TLSConfig(scfg), wire.SessionAuthStrategy(wire.ClearTextPassword(c01validator)), wire.SessionMiddleware(c01session))
		conn := e3.Dial(&hs.Sess{Default: func(string) *hs.Prog { return probe }})
		conn.Send(pg.SSLRequest())
		conn.Quiesce()
		if string(conn.Out()) == "S" {
			cc := &tr.ClientConn{C: conn, Pos: 1}
			ccfg := hs.ClientTLS()
			ccfg.Certificates = []tls.Certificate{hs.ClientCert("certuser")}
			tc := tls.Client(cc, ccfg)
			if err := tc.Handshake(); err == nil {
				tc.Write(append(pg.Startup([][2]string{{"user", "certuser"}}), pg.Query("select 'pipelined behind the start-up'")...))
				conn.Quiesce()
				cc.NonBlock = true
				var dec []byte
				buf := make([]byte, 1<<14)
				for {
					n, err := tc.Read(buf)
					dec = append(dec, buf[:n]...)
					if err != nil {
						break
					}
				}
				kinds := replyKinds(dec)
				served := ""
				for _, e := range conn.Events() {
					if e.Kind == "cb" {
						served += e.Name + " "
					}
				}
				if strings.Contains(kinds, "R(0)") || strings.Contains(kinds, "Z") || served != "" {
					c.Violate("session-without-acceptance", "a connection whose credentials were never accepted reached the authenticated phase (unverifiable client certificate naming the user)", fmt.Sprintf("client-auth mode %d: reply %s, callbacks: %s", scfg.ClientAuth, kinds, served), nil)
				}
				c.Count("unverifiable_client_certificates", 1)
				c.Eval(fmt.Sprintf("unverifiable client certificate %d", k), true)
				tc.Close()
			}
		}
		conn.CloseWrite()
		conn.WaitClosed()
		e3.Stop()
	}
	// several connections authenticate at the same time (accepting and rejecting credentials mixed,
	// the validator yields before it decides): every connection is judged exactly as when alone
	groups := 40
	if c.Tier == "thorough" {
		groups = 3000
	}
	c01slow.Store(true)
	defer c01slow.Store(false)
	// every other group runs on a server that also has certificates, right after a few clients that asked for
	// TLS, got their S and then failed the handshake (hung up, or sent something else): what such a client
	// leaves behind is nobody's credentials
	envTLS := mk(wire.ClearTextPassword(c01validator), wire.TLSConfig(hs.ServerTLS()))
	defer envTLS.Stop()
	for g := 0; g < groups; g++ {
		if !c.Begin(5000000+g) || c.NViol() >= 10 {
			continue
		}
		rng := core.NewRng(c.Seed, "C01g", c.Batch, g)
		genv := envs["cleartext"]
		if g%2 == 1 {
			genv = envTLS
			for f := 1 + g%3; f > 0; f-- {
				fc := envTLS.Dial(nil)
				fc.Send(pg.SSLRequest())
				fc.Quiesce()
				if f%2 == 0 {
					fc.Send([]byte("\x16\x03\x01\x00\x05hello, this is no handshake"))
					fc.Quiesce()
				}
				fc.CloseWrite()
				if !fc.WaitClosed() {
					// (given up and not closed: the goroutine that served it is gone, or stuck)
					hc := hs.NewClient(fc)
					hc.Hung = true
					if hangCheck(c, hc, map[string]any{"what": "a client that got S and failed the TLS handshake"}) {
						return
					}
				}
				c.Count("failed_tls_handshakes_before_an_authentication_group", 1)
			}
		}
		var wg sync.WaitGroup
		pwlen := 3 + rng.Intn(12)
		for m := 2 + rng.Intn(10); m > 0; m-- {
			k := ch.gen(rng)
			k.Strategy = "cleartext"
			k.Kind = core.Pick(rng, []string{"accept", "reject", "reject", "fail"})
			// passwords of equal length (a shared buffer of that size would be overwritten in full)
			body := rng.Ident(pwlen)
			switch k.Kind {
			case "accept":
				k.Password = "ok:" + body
			case "fail":
				k.Password = "err:" + body[1:]
			default:
				k.Password = "no:" + body
			}
			k.Cont = core.Pick(rng, []string{"none", "pipelined", "late"})
			kr := core.NewRng(c.Seed, "C01gc", g, m)
			wg.Add(1)
			go func() {
				defer wg.Done()
				ch.runCase(c, genv, k, kr, probe)
			}()
		}
		wg.Wait()
		c.Count("concurrent_authentication_groups", 1)
	}
	// the same rejected credentials a second and a third time, more than a second later and with nothing else
	// happening on that server in between: rejected the first time, rejected every time
	if c.Batch == 2 && c.Begin(97000000) {
		envR := mk(wire.ClearTextPassword(c01validator))
		rng := core.NewRng(c.Seed, "C01again", c.Batch, 0)
		k := ch.gen(rng)
		k.Strategy, k.Kind, k.Password, k.Cont = "cleartext", "reject", "no:"+rng.Ident(9), "pipelined"
		for n := 0; n < 3 && c.NViol() < 10; n++ {
			if n > 0 {
				time.Sleep(1150 * time.Millisecond) // detection power only
			}
			ch.runCase(c, envR, k, core.NewRng(c.Seed, "C01again", c.Batch, 1+n), probe)
			c.Count("rejected_credentials_offered_again_later", 1)
		}
		envR.Stop()
	}
	// logins whose (accepting) validator is slow, and right behind them logins with a wrong password, on a
	// server with every timeout this tree offers set short: whatever becomes of the slow ones, a wrong
	// password is never accepted
	if c.Batch == 1 && c.Begin(98000000) {
		hs.ShortTimeouts = true
		envT := hs.Start(hs.Parse, wire.SessionAuthStrategy(wire.ClearTextPassword(c01validator)), wire.SessionMiddleware(c01session))
		hs.ShortTimeouts = false
		for round := 0; round < 3; round++ {
			var slow []*tr.Conn
			for i := 0; i < 12; i++ {
				conn := envT.Dial(&hs.Sess{Default: func(string) *hs.Prog { return probe }})
				conn.Send(append(pg.Startup([][2]string{{"user", fmt.Sprintf("slow%d", i)}}), pg.Password("slowok:pw")...))
				slow = append(slow, conn)
			}
			time.Sleep(40 * time.Millisecond)
			for i := 0; i < 12; i++ {
				conn := envT.Dial(&hs.Sess{Default: func(string) *hs.Prog { return probe }})
				conn.Send(append(append(pg.Startup([][2]string{{"user", fmt.Sprintf("wrong%d", i)}}), pg.Password("no:wrong")...), pg.Query("select 'with a wrong password'")...))
				closed, _ := conn.Quiesce()
				time.Sleep(5 * time.Millisecond)
				kinds, served := replyKinds(conn.Out()), ""
				for _, e := range conn.Events() {
					if e.Kind == "cb" && e.Name != "validate" {
						served += e.Name + " "
					}
				}
				c.Count("wrong_passwords_next_to_slow_validators", 1)
				if strings.Contains(kinds, "R(0)") || strings.Contains(kinds, "Z") || served != "" || !closed {
					c.Violate("session-without-acceptance", "a connection with a wrong password reached the authenticated phase while other logins were waiting for a slow validator", fmt.Sprintf("round %d login %d: closed=%v reply %s, callbacks: %s", round, i, closed, kinds, served), nil)
					break
				}
			}
			for _, conn := range slow {
				conn.Quiesce()
				conn.CloseWrite()
				conn.WaitClosed()
			}
		}
		c.Count("server_timeout_fields_set_short", int64(hs.TimeoutsSet))
		c.Eval("slow validators", true)
		envT.Stop()
	}
	// last case of the batch: a validator that fails by panicking for this user. A tree that does not
	// recover panics of the embedding program's callbacks loses the process here (announced: not a finding);
	// a tree that does recover them must not take the recovered panic for an accepted password
	if c.Batch == 0 && c.Begin(99000000) {
		c01slow.Store(false)
		c.MayDie("the validator panics: without a recover around user callbacks the process ends")
		conn := envs["cleartext"].Dial(&hs.Sess{Default: func(string) *hs.Prog { return probe }})
		conn.Send(append(pg.Startup([][2]string{{"user", "nobody"}}), pg.Password("panic:x")...))
		conn.Quiesce()
		conn.Send(pg.Query("select 'after the panic'"))
		conn.Quiesce()
		// (the announcement stays in force to the end of the batch, which is here: a connection goroutine that
		// panics first runs its deferred Close - the client sees the connection end a moment before the process does)
		time.Sleep(200 * time.Millisecond)
		kinds, served := replyKinds(conn.Out()), ""
		for _, e := range conn.Events() {
			if e.Kind == "cb" && e.Name != "validate" {
				served += e.Name + " "
			}
		}
		c.Count("panicking_validator_survived", 1)
		c.Eval("panicking validator", true)
		if strings.Contains(kinds, "R(0)") || strings.Contains(kinds, "Z") || served != "" {
			c.Violate("session-without-acceptance", "a connection whose password validator panicked reached the authenticated phase", fmt.Sprintf("reply %s, callbacks: %s", kinds, served), nil)
		}
		conn.CloseWrite()
		conn.WaitClosed()
	}
}

func (ch c01) runCase(c *core.Ctx, env *hs.Env, k c01case, rng *core.Rng, probe *hs.Prog) {
	sess := &hs.Sess{Default: func(string) *hs.Prog { return probe }}
	cl := hs.NewClient(env.Dial(sess))
	viol := func(rule, sig, detail string) {
		c.Violate(rule, sig, fmt.Sprintf("case %+v: %s; server output: %s", k.sig(), detail, replyKinds(cl.C.Out())), k)
	}
	start := pg.Startup([][2]string{{"user", k.User}, {"database", k.DB}})
	if rng.Intn(3) == 0 {
		// surplus bytes behind the parameter list inside the startup packet that would be an accepting
		// password if a later (empty, malformed) message were answered from stale buffer content
		body := []byte("user\x00" + k.User + "\x00database\x00" + k.DB + "\x00\x00ok:left-over-in-startup-packet\x00")
		start = pg.StartupRaw(pg.Version30, body)
		c.Count("startup_packets_with_accepting_surplus", 1)
	}
	custom := k.Strategy != "cleartext"
	accepting := k.Kind == "accept" && !custom
	cont := k.contBytes(rng)
	pw := k.passwordMsg()
	first := append([]byte{}, start...)
	switch {
	case k.Kind == "eof":
		cl.C.Send(first)
		cl.C.CloseWrite()
	case k.Cont == "pipelined" && !accepting:
		first = append(first, pw...)
		first = append(first, cont...)
		cl.C.Send(first)
	default:
		cl.C.Send(first)
		cl.C.Quiesce()
		if !custom {
			cl.C.Send(pw)
		}
	}
	if k.Kind == "truncated" && !custom {
		cl.C.CloseWrite() // the rest of the declared body never arrives
	}
	closed, ok := cl.C.Quiesce()
	if !ok {
		cl.Hung = true
		hangCheck(c, cl, k)
		return
	}
	if accepting {
		c.Eval(k.sig(), false)
		msgs, err := parseAll(cl.C.Out())
		if err != nil {
			viol("grammar", "accepted startup not well-formed", err.Error())
			return
		}
		t := collapse(pg.Types(msgs))
		if closed || t != "RRSZ" || msgs[0].Auth != 3 || msgs[1].Auth != 0 {
			viol("accept", "accepted credentials did not reach the session", fmt.Sprintf("transcript %s closed=%v", t, closed))
			return
		}
		cl.Wait()
		out, _ := cl.Step(pg.Query("probe"))
		if replyKinds(out) != `T1 D1 C("SELECT 1") ZI` {
			viol("accept", "accepted session does not serve queries", replyKinds(out))
			return
		}
		var val *c01val
		for _, e := range cl.C.Events() {
			if e.Kind == "cb" && e.Name == "validate" {
				v := e.Data.(c01val)
				val = &v
			}
		}
		if val == nil || val.PW != k.Password || val.User != k.User || val.DB != k.DB {
			viol("validator-args", "validator saw other credentials than sent", fmt.Sprintf("validator saw %+v", val))
		}
		c.Count("accepted_sessions_probed", 1)
		cl.Finish()
		return
	}
	// ---- non-accepting: must be R(3) [E] + server close, nothing else ----
	c.Eval(k.sig(), k.Cont != "none")
	if !closed {
		// the server is waiting for input although the strategy did not accept
		viol("not-closed", "connection stays open after non-accepting "+k.Kind, "server blocked for more input instead of closing")
		// fallthrough to also look at callbacks after the continuation
	}
	if k.Cont == "late" {
		cl.C.Send(cont)
		if !closed {
			cl.C.Quiesce()
		}
		c.Count("rejected_with_late_continuation", 1)
	} else if k.Cont == "pipelined" {
		c.Count("rejected_with_pipelined_continuation", 1)
	}
	if closed {
		if ok := cl.C.WaitClosed(); ok {
			c.Count("server_close_observed", 1)
		} else {
			viol("not-closed", "server close not observed", "")
		}
	}
	switch k.Kind {
	case "fail":
		c.Count("validator_errors", 1)
	case "wrongtype", "unterminated", "empty", "submin", "oversized", "truncated", "eof":
		c.Count("malformed_password_messages", 1)
	}
	out := cl.C.Out()
	msgs, rest, err := pg.ParseStream(out)
	if err != nil || rest != 0 {
		viol("grammar", "rejection output not well-formed", fmt.Sprint(err, " rest=", rest))
		return
	}
	for _, e := range cl.C.Events() {
		if e.Kind != "cb" {
			continue
		}
		switch e.Name {
		case "validate", "strategy":
		default:
			viol("callback", fmt.Sprintf("%s callback ran on a non-accepted connection (%s)", e.Name, k.Kind), fmt.Sprintf("callback %s %+v", e.Name, e.Data))
			return
		}
	}
	t := pg.Types(msgs)
	for _, m := range msgs {
		if m.T == 'R' && m.Auth == 0 {
			viol("auth-ok", "AuthenticationOk sent on a non-accepted connection ("+k.Kind+")", t)
			return
		}
		if m.T == 'Z' || m.T == 'S' {
			viol("session-msg", fmt.Sprintf("%c sent on a non-accepted connection (%s)", m.T, k.Kind), t)
			return
		}
	}
	want := []string{"R", "RE"}
	if custom {
		want = []string{"", "E"}
		if k.Strategy == "custom-silent" {
			want = []string{""}
		}
	}
	if k.Kind == "eof" && custom {
		want = append(want, "")
	}
	if k.Kind == "reject" && !custom {
		want = []string{"RE"}
	}
	found := false
	for _, w := range want {
		if t == w {
			found = true
		}
	}
	if !found {
		viol("transcript", fmt.Sprintf("non-accepting %s/%s transcript %q", k.Strategy, k.Kind, t), fmt.Sprintf("want one of %q", want))
		return
	}
	if k.Kind == "reject" && !custom {
		e := msgs[1]
		if !strings.HasPrefix(e.Err['C'], "28") {
			viol("sqlstate", "wrong password not reported with SQLSTATE class 28", fmt.Sprintf("C=%q", e.Err['C']))
		}
	}
	if len(msgs) > 0 && msgs[0].T == 'R' && msgs[0].Auth != 3 {
		viol("transcript", "first message is not AuthenticationCleartextPassword", t)
	}
	if bytes.Contains(out, []byte("canary")) {
		viol("canary", "continuation text echoed", "")
	}
	if c.Batch == 0 {
		c.Sample(map[string]any{"case": k.sig(), "transcript": replyKinds(out)})
	}
}
