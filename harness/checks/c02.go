package checks

import (
	"bytes"
	"context"
	"encoding/binary"
	"errors"
	"fmt"
	"github.com/jackc/pgx/v5/pgtype"
	"runtime"
	"strings"
	"time"

	wire "github.com/jeroenrinzema/psql-wire"
	"github.com/jeroenrinzema/psql-wire/pkg/buffer"
	"github.com/jeroenrinzema/psql-wire/pkg/types"
	"github.com/lib/pq/oid"

	"verifharness/core"
	"verifharness/hs"
	"verifharness/pg"
	"verifharness/tr"
)

// C02 - Every byte the server sends is a well-formed backend message.

type c02 struct{ base }

func init() {
	core.Register(c02{base{id: "C02", level: "exploration", quickB: 16, thoroughB: 32,
		rule:        "three workloads, one oracle: the strict independent backend parser (harness/pg) must consume the whole server-to-client byte stream of every connection (known type byte, length = 4 + body, per-type grammar consumed exactly, counts match items, C-strings terminated, ErrorResponse = known field codes + text then one zero byte and nothing after, SQLSTATE 5x[0-9A-Z], line decimal, severity from the defined set, format codes 0/1, no partial message at the end). (a) handler programs from a grammar: 0-40 columns with arbitrary NUL-free unicode names over all supported OIDs, rows of right and wrong arity, encodable / unencodable / partially encodable values (frame abandoned half-way), NULL forms, arbitrary NUL-free command tags, errors decorated with every subset of code/severity/hint/detail/source/constraint, rows after completion, COPY-in responses, via simple and extended protocol with result formats; (b) hostile client input: structure-aware mutations of canonical sessions (as in C04) incl. SSLRequest/password phases; (c) direct model-based test of the public buffer.Writer API: random Start/Add*/End/Reset sequences over a sink that fails transiently - every successful End must deliver exactly one frame and a failed or abandoned frame must contribute nothing to later frames. Non-trivial = program with an abandoned row, a decorated error, unicode names, or a mutated input; distinct = program shape / mutation shape / writer-op sequence.",
		need:        []string{"close_during_traffic_rounds", "session_contexts_ended_during_a_transport_write", "connections_parsed", "backend_messages_parsed", "abandoned_rows", "decorated_errors", "hostile_inputs", "writer_sequences", "writer_failed_ends"},
		assumptions: append([]string{"strings handed to the library by the handler are NUL-free (a C-string cannot carry NUL); column counts stay below 32768; buffer.Writer sequences always Start a frame before adding to or ending it (End without Start is API misuse)"}, commonAssumptions...)}})
}

func c02genProg(rng *core.Rng, id string) (*hs.Prog, string, bool) {
	shape := ""
	nt := false
	if rng.Intn(12) == 0 {
		spec := c02err(rng)
		return &hs.Prog{Err: spec}, "parseerr" + c17sig(spec), true
	}
	p := &hs.Prog{}
	ns := 1 + rng.Intn(3)
	for si := 0; si < ns; si++ {
		st := &hs.Stmt{ID: fmt.Sprintf("%s.%d", id, si), Params: []oid.Oid{}}
		nc := core.Pick(rng, []int{0, 1, 2, 3, 5, 8, 20, 40})
		var oids []uint32
		if nc > 0 {
			st.Cols = wire.Columns{}
		}
		for j := 0; j < nc; j++ {
			o := core.Pick(rng, scalarOIDs)
			oids = append(oids, o)
			name := rng.Text(rng.Intn(20), true)
			if rng.Intn(6) == 0 {
				name = rng.Ident(rng.BoundaryLen()) // names exactly at / next to buffer-size boundaries
				nt = true
			} else if rng.Intn(4) == 0 {
				name = core.Pick(rng, []string{"", " ", "?column?", "ü", "col\twith\ttabs", strings.Repeat("n", 300), "日本語"})
				nt = true
			}
			st.Cols = append(st.Cols, wire.Column{Name: name, Oid: oid.Oid(o), Width: int16(rng.Intn(70000)), Table: int32(rng.U64()), AttrNo: int16(rng.U64())})
		}
		shape += fmt.Sprintf("[%d:", nc)
		nops := rng.Intn(7)
		for k := 0; k < nops; k++ {
			switch r := rng.Intn(100); {
			case r < 45:
				row := make([]any, nc)
				for j, o := range oids {
					if rng.Intn(6) == 0 {
						row[j], _ = nullForm(rng, o)
					} else {
						row[j] = genValue(rng, o)
					}
				}
				st.Ops = append(st.Ops, hs.Op{K: "row", Vals: row})
				shape += "r"
			case r < 55:
				row := make([]any, nc+1+rng.Intn(3))
				for j := range row {
					row[j] = "x"
				}
				if rng.Bool() && nc > 0 {
					row = row[:nc-1]
				}
				st.Ops = append(st.Ops, hs.Op{K: "arity", Vals: row})
				shape += "a"
				nt = true
			case r < 70 && nc > 0:
				// partially encodable: values up to column j are fine, column j is not
				row := make([]any, nc)
				for j, o := range oids {
					row[j] = genValue(rng, o)
				}
				row[rng.Intn(nc)] = core.Pick(rng, []any{unencodable{X: 1}, make(chan int), func() {}, struct{ A, B string }{"a", "b"}})
				st.Ops = append(st.Ops, hs.Op{K: "badrow", Vals: row})
				shape += "b"
				nt = true
			case r < 82:
				tag := core.Pick(rng, []string{"SELECT 1", "", " ", "INSERT 0 1", rng.Text(rng.Intn(40), true), strings.Repeat("T", 5000), rng.Ident(rng.BoundaryLen()), rng.Ident(rng.BoundaryLen())})
				st.Ops = append(st.Ops, hs.Op{K: "complete", Tag: tag})
				shape += "c"
			case r < 86:
				st.Ops = append(st.Ops, hs.Op{K: "empty"})
				shape += "e"
			case r < 92:
				spec := c02err(rng)
				st.Ops = append(st.Ops, hs.Op{K: "err", Err: spec})
				shape += "E" + c17sig(spec)
				nt = true
				k = nops
			case r < 95 && nc > 0:
				st.Ops = append(st.Ops, hs.Op{K: "copy", Copy: &hs.CopyPlan{Format: wire.FormatCode(rng.Intn(2)), MaxReads: -1, OnErr: core.Pick(rng, []string{"propagate", "own", "complete"})}})
				shape += "C"
				k = nops
			default:
				st.Ops = append(st.Ops, hs.Op{K: "written"})
			}
		}
		shape += "]"
		p.Stmts = append(p.Stmts, st)
	}
	return p, shape, nt
}

func c02err(rng *core.Rng) *hs.ErrSpec {
	spec := &hs.ErrSpec{Base: core.Pick(rng, []string{"boom", "", " ", rng.Text(1+rng.Intn(60), true), strings.Repeat("long message ", 400), "multi\nline\terror 100%", rng.Ident(rng.BoundaryLen())})}
	// (an empty error text is legitimate: the message field is then empty)
	for _, k := range c17kinds {
		if rng.Bool() {
			spec.Wraps = append(spec.Wraps, c17wrap(k, rng, rng.Intn(4)))
		}
	}
	rngShuffle(rng, spec.Wraps)
	return spec
}

func rngShuffle[T any](rng *core.Rng, xs []T) {
	for i := len(xs) - 1; i > 0; i-- {
		j := rng.Intn(i + 1)
		xs[i], xs[j] = xs[j], xs[i]
	}
}

func (ch c02) Run(c *core.Ctx) {
	env := hs.Start(hs.Parse, wire.MessageBufferSize(c04L))
	envAuth := hs.Start(hs.Parse, wire.MessageBufferSize(c04L), wire.SessionAuthStrategy(wire.ClearTextPassword(c04validator)))
	defer env.Stop()
	defer envAuth.Stop()
	nprog, nhost, nwr := 330, 600, 4000
	if c.Tier == "thorough" {
		nprog, nhost, nwr = 40000, 60000, 400000
	}
	strict := func(conn *tr.Conn, what string, cs any) bool {
		out := conn.Out()
		if len(out) > 0 && (out[0] == 'N' || out[0] == 'S') && strings.Contains(what, "ssl") {
			out = out[1:]
		}
		msgs, rest, err := pg.ParseStream(out)
		c.Count("connections_parsed", 1)
		c.Count("backend_messages_parsed", int64(len(msgs)))
		if err != nil {
			c.Violate("grammar", grammarSig(err), fmt.Sprintf("%s: %v; messages before it: %s; raw tail: %s", what, err, trim(pg.Kinds(msgs), 300), hexs(out[len(out)-min(len(out), rest):])), cs)
			return false
		}
		if rest != 0 {
			c.Violate("partial", "server output ends inside a message", fmt.Sprintf("%s: %d trailing bytes after %s", what, rest, trim(pg.Kinds(msgs), 300)), cs)
			return false
		}
		return true
	}
	// (a) generated handler programs
	for i := 0; i < nprog; i++ {
		if !c.Begin(i) || c.NViol() >= 10 {
			continue
		}
		rng := core.NewRng(c.Seed, "C02p", c.Batch, i)
		sess := &hs.Sess{Progs: map[string]*hs.Prog{}}
		var in []byte
		user := rng.Text(1+rng.Intn(10), true)
		if rng.Intn(3) == 0 {
			user = rng.Ident(rng.BoundaryLen())
		}
		in = append(in, pg.Startup([][2]string{{"user", user}})...)
		shapes := ""
		nt := false
		for q := 1 + rng.Intn(4); q > 0; q-- {
			id := fmt.Sprintf("p%d.%d.%d", c.Batch, i, q)
			prog, shape, n := c02genProg(rng, id)
			nt = nt || n
			shapes += shape + " "
			sess.Progs[id] = prog
			hasCopy := strings.Contains(shape, "C")
			if rng.Intn(3) == 0 {
				in = append(in, pg.Query(id)...)
			} else {
				var rf []int16
				switch rng.Intn(4) {
				case 1:
					rf = []int16{int16(rng.Intn(2))}
				case 2:
					// 2-6 codes, whatever the number of columns (fewer, as many, more): whatever the server makes
					// of it, what it announces is what follows
					for k := 2 + rng.Intn(5); k > 0; k-- {
						rf = append(rf, int16(rng.Intn(2)))
					}
				}
				// client-supplied text that may come back inside a server message (error texts echoing a value
				// or a name): parameter values with invalid UTF-8, NUL bytes, control bytes; prespecified types
				var params [][]byte
				var pf []int16
				var oids []uint32
				if rng.Intn(3) == 0 {
					for k := 1 + rng.Intn(3); k > 0; k-- {
						params = append(params, core.Pick(rng, [][]byte{[]byte("abc\xff\x00"), []byte("\xfe\x00\x00x"), []byte("\x00"), []byte("caf\xe9"), []byte("plain"), nil, {}, rng.Bytes(1 + rng.Intn(40)), []byte(strings.Repeat("\xff", 40) + "\x00tail")}))
					}
					pf = [][]int16{nil, {0}, {1}}[rng.Intn(3)]
					for k := rng.Intn(6); k > 0; k-- {
						oids = append(oids, core.Pick(rng, []uint32{0, 23, 25, 1043, 705, 99999}))
					}
					c.Count("binds_with_hostile_text_parameters", 1)
				}
				in = append(in, pg.Parse("s", id, oids)...)
				in = append(in, pg.Describe('S', "s")...)
				in = append(in, pg.Bind("", "s", pf, params, rf)...)
				in = append(in, pg.Describe('P', "")...)
				in = append(in, pg.Execute("", 0)...)
				if !hasCopy {
					in = append(in, pg.Sync()...)
				}
			}
			if hasCopy {
				in = append(in, pg.CopyData([]byte("a\tb\n"))...)
				in = append(in, core.Pick(rng, [][]byte{pg.CopyDone(), pg.CopyFail("abort"), pg.Query("x")})...)
				in = append(in, pg.Sync()...)
			}
		}
		in = append(in, pg.Terminate()...)
		conn := env.Dial(sess)
		conn.NoLog = true
		if rng.Intn(4) == 0 {
			conn.SendEach(in)
		} else {
			conn.Send(in)
		}
		conn.CloseWrite()
		cs := map[string]any{"programs": shapes}
		if !conn.WaitClosed() {
			c.Inconclusive("connection did not close (C02 program workload)")
			return
		}
		for _, e := range conn.Events() {
			if e.Kind == "cb" && e.Name == "op" {
				r := e.Data.(hs.OpRes)
				if r.K == "badrow" && !r.ErrNil {
					c.Count("abandoned_rows", 1)
				}
				if r.K == "err" {
					c.Count("decorated_errors", 1)
				}
			}
		}
		c.Eval(shapes, nt)
		if i < 2 {
			c.Sample(map[string]any{"workload": "handler programs", "programs": shapes, "server_output": trim(replyKinds(conn.Out()), 300)})
		}
		strict(conn, "handler programs "+trim(shapes, 200), cs)
	}
	// (b) hostile client input
	canon := c04canonical(core.NewRng(c.Seed, "C04canon", 0, 0), 19)
	for i := 0; i < nhost; i++ {
		if !c.Begin(1000000+i) || c.NViol() >= 10 {
			continue
		}
		rng := core.NewRng(c.Seed, "C02h", c.Batch, i)
		s := canon[rng.Intn(len(canon))]
		msgs := append([][]byte{}, s.Msgs...)
		shape := s.Name + ":"
		for m := 1 + rng.Intn(3); m > 0; m-- {
			var k string
			msgs, k = c04mutate(rng, msgs)
			shape += k + ","
		}
		sess := c04sess()
		if p, ok := c04genProgs[s.Name]; ok {
			sess.Progs = p
		}
		conn := tr.NewConn(sess)
		conn.NoLog = true
		if s.Auth {
			envAuth.L.DialConn(conn)
		} else {
			env.L.DialConn(conn)
		}
		stream := bytes.Join(msgs, nil)
		conn.Send(stream)
		conn.Quiesce()
		conn.CloseWrite()
		if !conn.WaitClosed() {
			c.Inconclusive("connection did not close (C02 hostile workload)")
			return
		}
		c.Count("hostile_inputs", 1)
		c.Eval("hostile "+shape, true)
		what := "hostile input " + shape
		if len(stream) >= 8 {
			// a first packet carrying the SSLRequest / GSSENCRequest code (of whatever declared length) is
			// answered with the single byte N or S, which is not a backend message
			if code := binary.BigEndian.Uint32(stream[4:8]); code == pg.VerSSL || code == pg.VerGSSENC {
				what += " ssl"
			}
		}
		strict(conn, what, map[string]any{"mutation": shape, "stream": hexs(stream)})
	}
	// (d) statements with very many parameters (declared through the library's ParseParameters
	// from client-chosen query text): ParameterDescription must stay well-formed
	if c.Batch == 0 && c.Begin(3000000) {
		many := &hs.Prog{Stmts: []*hs.Stmt{{ID: "many", ParseParams: true, Ops: []hs.Op{{K: "complete", Tag: "OK"}}}}}
		sess := &hs.Sess{Default: func(string) *hs.Prog { return many }}
		conn := env.Dial(sess)
		conn.NoLog = true
		in := pg.Startup([][2]string{{"user", "u"}})
		for _, q := range []string{"select $32767", "select $32768", "select $40000", "select $65534", "select $65535", "select $65535 ?", "select ? $65535 ?", "select $65536", strings.Repeat("?,", 33000), "select $1 $65535 $2"} {
			in = append(in, pg.Parse("", q, nil)...)
			in = append(in, pg.Describe('S', "")...)
			in = append(in, pg.Sync()...)
			c.Count("huge_parameter_descriptions", 1)
		}
		conn.Send(append(in, pg.Terminate()...))
		conn.CloseWrite()
		conn.WaitClosed()
		c.Eval("huge parameter counts", true)
		strict(conn, "Describe of statements with 32767..65535+ parameters", map[string]any{"workload": "huge parameter counts"})
	}
	// (e) Server.Close while connections are being served: whatever the server sends around its
	// shutdown, every connection's output stays a concatenation of complete messages
	nclose := 6
	if c.Tier == "thorough" {
		nclose = 300
	}
	for i := 0; i < nclose; i++ {
		if !c.Begin(3000000+i) || c.NViol() >= 10 {
			continue
		}
		rng := core.NewRng(c.Seed, "C02close", c.Batch, i)
		e2 := hs.Start(hs.Parse, wire.MessageBufferSize(1<<12))
		probe := &hs.Prog{Stmts: []*hs.Stmt{{ID: "probe", Cols: textCols(2), Ops: []hs.Op{{K: "row", Vals: []any{"close-during-traffic", strings.Repeat("v", rng.Intn(300))}}, {K: "complete", Tag: "SELECT 1"}}}}}
		var conns []*tr.Conn
		for k := 2 + rng.Intn(6); k > 0; k-- {
			conn := tr.NewConn(&hs.Sess{Default: func(string) *hs.Prog { return probe }})
			conn.Yield = tr.YieldFn(rng.U64())
			e2.L.DialConn(conn)
			in := pg.Startup([][2]string{{"user", rng.Ident(1 + rng.Intn(40))}})
			for m := rng.Intn(6); m > 0; m-- {
				switch rng.Intn(5) {
				case 0: // an oversized message: answered before any command is admitted
					in = append(in, pg.Raw(core.Pick(rng, []byte("QPd~")), rng.Bytes(1<<12+1+rng.Intn(3000)))...)
				case 1:
					in = append(in, append(append(append(pg.Parse("", "q", nil), pg.Bind("", "", nil, nil, nil)...), pg.Execute("", 0)...), pg.Sync()...)...)
				default:
					in = append(in, pg.Query("q")...)
				}
			}
			if rng.Bool() {
				conn.Send(in)
			} else {
				conn.SendEach(in)
			}
			conns = append(conns, conn)
		}
		// every connection has been accepted (a connection still in the backlog when the listener closes
		// is never served at all); how far each one has got when Close arrives is left to the scheduler
		for spin := 0; e2.L.Accepted() < int64(len(conns)) && spin < 1000000; spin++ {
			runtime.Gosched()
		}
		for y := rng.Intn(4); y > 0; y-- {
			runtime.Gosched()
		}
		if rng.Intn(3) == 0 {
			conns[0].Quiesce()
		}
		e2.Srv.Close()
		for _, conn := range conns {
			conn.Quiesce()
			conn.CloseWrite()
			conn.WaitClosed()
			strict(conn, "Server.Close while the connection is being served", map[string]any{"workload": "close during traffic"})
		}
		<-e2.ServeErr
		c.Count("close_during_traffic_rounds", 1)
		c.Eval(fmt.Sprintf("close during traffic %d", len(conns)), true)
	}
	// (g) every format code a Bind can carry outside {0,1}, as parameter and as result code, one for all and
	// positional: whatever the server answers, a RowDescription never announces an undefined code
	if c.Batch == 0 && c.Begin(3600000) {
		tbl := &hs.Prog{Stmts: []*hs.Stmt{{ID: "fc", Cols: textCols(2), Params: []oid.Oid{oid.T_text}, Ops: []hs.Op{{K: "row", Vals: []any{"a", "b"}}, {K: "complete", Tag: "SELECT 1"}}}}}
		for _, code := range []int{2, 3, 127, 128, 255, 256, 257, 0x7ffe, 0x7fff, 0x8000, 0x8001, 0x80ff, 0xc000, 0xff00, 0xfffe, 0xffff} {
			fc := int16(uint16(code))
			for v, b := range [][]byte{
				pg.Bind("", "", nil, [][]byte{[]byte("x")}, []int16{fc}),
				pg.Bind("", "", nil, [][]byte{[]byte("x")}, []int16{0, fc}),
				pg.Bind("", "", nil, [][]byte{[]byte("x")}, []int16{fc, 1}),
				pg.Bind("", "", []int16{fc}, [][]byte{[]byte("x")}, nil),
				pg.Bind("", "", []int16{fc}, [][]byte{[]byte("x")}, []int16{fc}),
			} {
				conn := env.Dial(&hs.Sess{Default: func(string) *hs.Prog { return tbl }})
				conn.NoLog = true
				in := append(pg.Startup([][2]string{{"user", "u"}}), pg.Parse("", "fc", nil)...)
				in = append(append(append(append(in, b...), pg.Describe('P', "")...), pg.Execute("", 0)...), pg.Sync()...)
				in = append(in, pg.Query("fc")...)
				conn.Send(append(in, pg.Terminate()...))
				conn.CloseWrite()
				if !conn.WaitClosed() {
					c.Inconclusive("connection did not close (C02 format-code workload)")
					return
				}
				c.Count("undefined_format_codes_sent", 1)
				c.Eval(fmt.Sprintf("format code %#x variant %d", code, v), true)
				strict(conn, fmt.Sprintf("Bind with format code %#x (variant %d)", code, v), map[string]any{"format_code": code, "variant": v})
			}
		}
	}
	// (h) handlers that quote client-supplied text back: the statement's error carries the query text the
	// parser was handed (kept, not copied) and is raised at Execute, after a Bind of about the same size
	// full of zero bytes has come in
	if c.Batch == 1%ch.Batches(c.Tier) && c.Begin(3700000) {
		envBig := hs.Start(hs.Parse, wire.MessageBufferSize(1<<20))
		echo := &hs.Prog{Stmts: []*hs.Stmt{{ID: "echo", EchoQuery: true, Params: []oid.Oid{oid.T_bytea}}}}
		for _, n := range []int{100, 3000, 4096, 5000, 9000, 20000, 40000, 66000, 70000, 140000, 300000} {
			conn := envBig.Dial(&hs.Sess{Default: func(string) *hs.Prog { return echo }})
			conn.NoLog = true
			in := pg.Startup([][2]string{{"user", "u"}})
			in = append(in, pg.Parse("", "select "+strings.Repeat("q", n), nil)...)
			in = append(in, pg.Bind("", "", []int16{1}, [][]byte{make([]byte, n-20)}, nil)...)
			in = append(append(in, pg.Execute("", 0)...), pg.Sync()...)
			in = append(in, pg.Query("select "+strings.Repeat("s", n))...)
			conn.Send(append(in, pg.Terminate()...))
			conn.CloseWrite()
			if !conn.WaitClosed() {
				c.Inconclusive("connection did not close (C02 echo workload)")
				return
			}
			c.Count("echoed_query_texts", 1)
			c.Eval(fmt.Sprintf("echo %d", n), true)
			strict(conn, fmt.Sprintf("error quoting a query text of %d bytes after a Bind of the same size", n), map[string]any{"workload": "echoed query text", "bytes": n})
		}
		envBig.Stop()
	}
	// (i) errors whose code the handler chose freely (an upstream code passed on, a short class code, no
	// code at all, an over-long one): whatever is sent as the code, the message stays one list of fields
	// closed by one zero byte
	if c.Batch == 3%ch.Batches(c.Tier) && c.Begin(3800000) {
		pg.AnySQLState = true
		for i, code := range []string{"", "4", "42", "P1", "0A0", "0A00", "42P0", "X", "123456", "42601x", "ABCDEFGHIJ", "42\t01"} {
			for v := 0; v < 2; v++ {
				spec := &hs.ErrSpec{Base: "odd code", Wraps: []hs.Wrap{{K: 'c', S: code}, {K: 'h', S: "hint after the code"}, {K: 'd', S: "detail"}}}
				if v == 1 {
					spec.Wraps = []hs.Wrap{{K: 's', S: "WARNING"}, {K: 'c', S: code}, {K: 'o', S: "file.go", Line: 7, Fn: "fn"}}
				}
				prog := &hs.Prog{Stmts: []*hs.Stmt{{ID: "oc", Ops: []hs.Op{{K: "err", Err: spec}}}}}
				conn := env.Dial(&hs.Sess{Default: func(string) *hs.Prog { return prog }})
				conn.NoLog = true
				in := append(pg.Startup([][2]string{{"user", "u"}}), pg.Query("oc")...)
				in = append(in, append(append(append(pg.Parse("", "oc", nil), pg.Bind("", "", nil, nil, nil)...), pg.Execute("", 0)...), pg.Sync()...)...)
				conn.Send(append(in, pg.Terminate()...))
				conn.CloseWrite()
				if !conn.WaitClosed() {
					pg.AnySQLState = false
					c.Inconclusive("connection did not close (C02 odd-code workload)")
					return
				}
				c.Count("errors_with_freely_chosen_codes", 1)
				c.Eval(fmt.Sprintf("odd code %d.%d", i, v), true)
				strict(conn, fmt.Sprintf("error whose code is %q", code), map[string]any{"code": code, "variant": v})
			}
		}
		pg.AnySQLState = false
	}
	// (j) a statement that produces its rows slowly (a pause of a few milliseconds between rows of
	// different sizes) for a client that reads slowly (every transport Write takes a moment), after a
	// larger result on the same connection: whoever writes what when, the stream stays message after message
	if c.Batch == 4%ch.Batches(c.Tier) && c.Begin(3900000) {
		pause := hs.Op{K: "call", Fn: func() { time.Sleep(3 * time.Millisecond) }}
		big := &hs.Stmt{ID: "big", Cols: textCols(1)}
		for i := 0; i < 40; i++ {
			big.Ops = append(big.Ops, hs.Op{K: "row", Vals: []any{strings.Repeat("a", 200)}})
		}
		big.Ops = append(big.Ops, hs.Op{K: "complete", Tag: "SELECT 40"})
		slow := &hs.Stmt{ID: "slow", Cols: textCols(1)}
		for i := 0; i < 24; i++ {
			slow.Ops = append(slow.Ops, hs.Op{K: "row", Vals: []any{strings.Repeat(string(rune('b'+i%20)), 10+37*(i%7))}}, pause)
		}
		slow.Ops = append(slow.Ops, hs.Op{K: "complete", Tag: "SELECT 24"})
		for round := 0; round < 3; round++ {
			conn := env.Dial(&hs.Sess{Progs: map[string]*hs.Prog{"big": {Stmts: []*hs.Stmt{big}}, "slow": {Stmts: []*hs.Stmt{slow}}}})
			conn.NoLog = true
			conn.SlowWrite = time.Duration(1+round*2) * time.Millisecond
			in := append(pg.Startup([][2]string{{"user", "u"}}), pg.Query("big")...)
			in = append(append(in, pg.Query("slow")...), pg.Query("slow")...)
			conn.Send(append(in, pg.Terminate()...))
			conn.CloseWrite()
			if !conn.WaitClosed() {
				c.Inconclusive("connection did not close (C02 slow-rows workload)")
				return
			}
			c.Count("slow_row_streams_to_slow_readers", 1)
			c.Eval(fmt.Sprintf("slow rows %d", round), true)
			strict(conn, "rows produced slowly for a client that reads slowly", map[string]any{"workload": "slow rows, slow reader", "round": round})
		}
	}
	// (m) rows given up half-way (a value in the second or a later column cannot be encoded) by a handler that
	// carries on and writes nothing more, or something else; the client sends Flush messages right behind the
	// Execute, then executes again: whatever was begun and given up never reaches the wire
	if c.Batch == 7%ch.Batches(c.Tier) && c.Begin(3960000) {
		bad := func(n, at int) hs.Op {
			vals := make([]any, n)
			for i := range vals {
				vals[i] = fmt.Sprintf("v%d", i)
			}
			vals[at] = make(chan int)
			return hs.Op{K: "badrow", Vals: vals}
		}
		good := hs.Op{K: "row", Vals: []any{"a", "b", "c"}}
		done := hs.Op{K: "complete", Tag: "SELECT 1"}
		// (... also after a first value of 70 KB or 200 KB went into the frame)
		big := func(n, at int) hs.Op {
			op := bad(3, at)
			op.Vals[0] = strings.Repeat("L", n)
			return op
		}
		for v, ops := range [][]hs.Op{{bad(3, 1)}, {bad(3, 2)}, {good, bad(3, 2)}, {bad(3, 1), bad(3, 2)}, {bad(3, 2), good}, {bad(3, 1), done}, {good, bad(3, 1), hs.Op{K: "empty"}},
			{big(70000, 1)}, {big(200000, 2), good}, {big(66000, 1), hs.Op{K: "err", Err: &hs.ErrSpec{Base: "gives up"}}}, {good, big(70000, 2), done}} {
			sess := &hs.Sess{Progs: map[string]*hs.Prog{
				"g": {Stmts: []*hs.Stmt{{ID: "g", Cols: textCols(3), Ops: ops}}},
				"p": {Stmts: []*hs.Stmt{{ID: "p", Cols: textCols(1), Ops: []hs.Op{{K: "row", Vals: []any{"p"}}, done}}}}}}
			conn := env.Dial(sess)
			in := append(pg.Startup([][2]string{{"user", "u"}}), pg.Parse("s", "g", nil)...)
			in = append(append(in, pg.Bind("", "s", nil, nil, []int16{int16(v % 2)})...), pg.Execute("", 0)...)
			in = append(append(in, pg.Flush()...), pg.Flush()...)
			in = append(append(in, pg.Bind("", "s", nil, nil, nil)...), pg.Execute("", 0)...)
			in = append(append(append(in, pg.Flush()...), pg.Sync()...), pg.Query("p")...)
			in = append(append(in, pg.Query("g")...), pg.Terminate()...)
			conn.Send(in)
			conn.CloseWrite()
			if !conn.WaitClosed() {
				c.Inconclusive("connection did not close (C02 given-up rows workload)")
				return
			}
			c.Count("flushes_behind_rows_given_up_half_way", 3)
			c.Eval(fmt.Sprintf("given-up rows then flush %d", v), true)
			strict(conn, fmt.Sprintf("Flush messages behind an Execute whose handler gave a row up half-way (variant %d)", v), map[string]any{"workload": "given-up rows, flush", "variant": v})
		}
	}
	// (l) the embedding program gives every session a context of its own (session middleware) and ends it
	// while the k-th transport Write of the session is under way, for every k: rows of a few bytes, of 70 KB
	// and of 200 KB (larger than anything a writer may want to hand over in one piece), simple and extended.
	// No transport operation fails here: the whole output is complete messages
	if c.Batch == 6%ch.Batches(c.Tier) && c.Begin(3950000) {
		envC := hs.Start(hs.Parse, wire.SessionMiddleware(func(ctx context.Context) (context.Context, error) {
			if conn := hs.ConnOf(ctx); conn != nil {
				if s, _ := conn.User.(*hs.Sess); s != nil {
					var cancel context.CancelFunc
					ctx, cancel = context.WithCancel(ctx)
					s.EndSession = cancel
				}
			}
			return ctx, nil
		}))
		wide := &hs.Stmt{ID: "wide", Cols: textCols(2)}
		for _, n := range []int{7, 70000, 200000, 3, 66000} {
			wide.Ops = append(wide.Ops, hs.Op{K: "row", Vals: []any{strings.Repeat("w", n), "tail"}})
		}
		wide.Ops = append(wide.Ops, hs.Op{K: "complete", Tag: "SELECT 5"})
		in := append(pg.Startup([][2]string{{"user", "u"}}), pg.Query("wide")...)
		in = append(in, pg.Parse("", "wide", nil)...)
		in = append(in, pg.Bind("", "", nil, nil, []int16{1})...)
		in = append(append(in, pg.Execute("", 0)...), pg.Sync()...)
		in = append(append(in, pg.Query("wide")...), pg.Terminate()...)
		nwrites := 0
		for k := 0; k == 0 || k <= nwrites; k++ {
			sess := &hs.Sess{Progs: map[string]*hs.Prog{"wide": {Stmts: []*hs.Stmt{wide}}}}
			conn := tr.NewConn(sess)
			conn.NoLog = true
			k := k
			conn.OnWrite = func(i, n int) {
				if k == 0 {
					nwrites = i
				} else if i == k && sess.EndSession != nil {
					sess.EndSession()
				}
			}
			envC.L.DialConn(conn)
			conn.Send(in)
			conn.CloseWrite()
			if !conn.WaitClosed() {
				c.Inconclusive("connection did not close (C02 ended-context workload)")
				return
			}
			if k > 0 {
				c.Count("session_contexts_ended_during_a_transport_write", 1)
			}
			c.Eval(fmt.Sprintf("context ended during write %d", k), true)
			if !strict(conn, fmt.Sprintf("the session's context ends while transport Write %d of %d is under way (rows of up to 200 KB)", k, nwrites), map[string]any{"workload": "context ended during a write", "write": k}) {
				break
			}
		}
		envC.Stop()
	}
	// (k) encryption negotiated twice on one connection (GSSAPI encryption asked for and TLS asked for, in
	// either order, as libpq does with gssencmode=prefer sslmode=prefer): after the one single-byte answer
	// the property allows, the output is backend messages
	if c.Batch == 5%ch.Batches(c.Tier) && c.Begin(3950000) {
		start := append(pg.Startup([][2]string{{"user", "u"}}), pg.Query("select 1")...)
		for v, first := range [][][]byte{{pg.GSSENCRequest(), pg.SSLRequest()}, {pg.SSLRequest(), pg.GSSENCRequest()}, {pg.GSSENCRequest(), pg.GSSENCRequest()}, {pg.SSLRequest(), pg.SSLRequest()}, {pg.GSSENCRequest()}} {
			conn := env.Dial(c04sess())
			conn.NoLog = true
			for _, pkt := range first {
				conn.Send(pkt)
				conn.Quiesce()
			}
			conn.Send(append(append([]byte{}, start...), pg.Terminate()...))
			conn.Quiesce()
			conn.CloseWrite()
			if !conn.WaitClosed() {
				c.Inconclusive("connection did not close (C02 double negotiation workload)")
				return
			}
			c.Count("connections_negotiating_encryption_twice", 1)
			c.Eval(fmt.Sprintf("double negotiation %d", v), true)
			strict(conn, fmt.Sprintf("ssl / gss negotiation packets %d", v), map[string]any{"workload": "double negotiation", "variant": v})
		}
	}
	if c.Batch == 0 && c.Begin(3400000) {
		ch.panickingValues(c, env)
	}
	// (f) writes interrupted half-way: the k-th transport Write of a canonical session takes half of its
	// bytes and returns a temporary (timeout) error, for every k. Whether the server gives the connection
	// up or completes the message, what the client has received is whole messages and, only at the very
	// end of a given-up connection, the accepted half of the interrupted one
	if c.Begin(3500000) {
		for si, s := range canon {
			if si%ch.Batches(c.Tier) != c.Batch || c.NViol() >= 10 {
				continue
			}
			more := 0
			mk := func(k int) *tr.Conn {
				sess := c04sess()
				if p, ok := c04genProgs[s.Name]; ok {
					sess.Progs = p
				}
				conn := tr.NewConn(sess)
				conn.NoLog = true
				conn.TempWriteAt, conn.TempWriteMore = k, more
				if s.Auth {
					envAuth.L.DialConn(conn)
				} else {
					env.L.DialConn(conn)
				}
				for _, m := range s.Msgs {
					conn.Send(m)
				}
				conn.Quiesce()
				conn.CloseWrite()
				if !conn.WaitClosed() {
					return nil
				}
				return conn
			}
			base := mk(0)
			if base == nil {
				c.Inconclusive("connection did not close (C02 interrupted-write workload)")
				return
			}
			for kk := 2; kk <= 2*base.Stats().Writes+1; kk++ {
				// every k once as a single interruption, once with the following one or two Write calls
				// interrupted as well (a peer that stays slow: a server that resumes the message has to
				// resume it at the right byte each time)
				k := kk / 2
				more = (kk % 2) * (1 + k%2)
				conn := mk(k)
				if conn == nil {
					c.Inconclusive("connection did not close (C02 interrupted-write workload)")
					return
				}
				out := conn.Out()
				stream := s.stream()
				if len(out) > 0 && (out[0] == 'N' || out[0] == 'S') && len(stream) >= 8 && binary.BigEndian.Uint32(stream[4:8]) == pg.VerSSL {
					out = out[1:]
				}
				msgs, rest, err := pg.ParseStream(out)
				c.Count("interrupted_write_runs", 1)
				if conn.TempFired() > 0 {
					c.Count("interrupted_writes_delivered", 1)
				}
				c.Count("backend_messages_parsed", int64(len(msgs)))
				cs := map[string]any{"session": s.Name, "interrupted_write": k, "further_interrupted_writes": more}
				if err != nil {
					c.Violate("grammar", "after an interrupted write: "+grammarSig(err), fmt.Sprintf("%s, write %d interrupted half-way: %v; messages before it: %s; raw tail: %s", s.Name, k, err, trim(pg.Kinds(msgs), 300), hexs(out[len(out)-min(len(out), rest):])), cs)
					break
				}
				if rest != 0 {
					c.Count("given_up_after_interrupted_write", 1)
					// (the order of the ParameterStatus messages differs from run to run: the half must be the
					// head of one of the messages the uninterrupted run sends, whichever)
					tail, head := out[len(out)-rest:], false
					bo := base.Out()
					if len(bo) > 0 && len(bo) != len(conn.Out()) && (bo[0] == 'N' || bo[0] == 'S') && len(stream) >= 8 && binary.BigEndian.Uint32(stream[4:8]) == pg.VerSSL {
						bo = bo[1:]
					}
					for off := 0; off+5 <= len(bo); {
						l := int(binary.BigEndian.Uint32(bo[off+1:off+5])) + 1
						if l < 5 || off+l > len(bo) {
							break
						}
						head = head || bytes.HasPrefix(bo[off:off+l], tail)
						off += l
					}
					if !head {
						c.Violate("partial", "bytes of an interrupted message are followed by other output", fmt.Sprintf("%s, write %d: %d trailing bytes after %s are not the head of the message the uninterrupted run sends there", s.Name, k, rest, trim(pg.Kinds(msgs), 300)), cs)
						break
					}
				}
				c.Eval(fmt.Sprintf("interrupted write %s %d", s.Name, k), true)
			}
		}
	}
	// (c) buffer.Writer API model
	for i := 0; i < nwr; i++ {
		if !c.Begin(2000000+i) || c.NViol() >= 10 {
			continue
		}
		ch.writerModel(c, core.NewRng(c.Seed, "C02w", c.Batch, i), i)
	}
}

func grammarSig(err error) string {
	s := err.Error()
	if i := strings.Index(s, ": "); i >= 0 && strings.HasPrefix(s, "offset") {
		s = s[i+2:]
	}
	return core.NormDigits(trim(s, 90))
}

// flakySink fails chosen Write calls: 1 = nothing taken, plain error; 2 = nothing taken, temporary
// (timeout) error; 3 = half taken, temporary error; 4 = half taken, plain error.
type flakySink struct {
	buf    bytes.Buffer
	calls  int
	failAt map[int]int
}

func (f *flakySink) Write(p []byte) (int, error) {
	f.calls++
	switch f.failAt[f.calls] {
	case 1:
		return 0, errors.New("sink: failure")
	case 2:
		return 0, tr.ErrTemporary
	case 3:
		f.buf.Write(p[:len(p)/2])
		return len(p) / 2, tr.ErrTemporary
	case 4:
		f.buf.Write(p[:len(p)/2])
		return len(p) / 2, errors.New("sink: failure after a partial write")
	}
	return f.buf.Write(p)
}

func (ch c02) writerModel(c *core.Ctx, rng *core.Rng, idx int) {
	sink := &flakySink{failAt: map[int]int{}}
	for k := rng.Intn(3); k > 0; k-- {
		sink.failAt[1+rng.Intn(6)] = 1 + rng.Intn(4)
	}
	if rng.Intn(4) == 0 {
		// a sink that stays slow: two to four Write calls in a row take half and report a timeout
		at := 1 + rng.Intn(5)
		for j := 0; j < 2+rng.Intn(3); j++ {
			sink.failAt[at+j] = 3
		}
	}
	w := buffer.NewWriter(hs.Quiet, sink)
	var want []byte
	var body []byte
	var typ byte
	started := false
	shape := ""
	failedEnds, refused := 0, 0
	n := 2 + rng.Intn(25)
	for k := 0; k < n; k++ {
		op := rng.Intn(9)
		if !started && op != 8 {
			op = 0
		}
		switch op {
		case 0:
			typ = core.Pick(rng, []byte("TDCEZSR12n"))
			w.Start(types.ServerMessage(typ))
			body = body[:0]
			started = true
			shape += "S"
		case 1:
			b := byte(rng.U64())
			w.AddByte(b)
			body = append(body, b)
			shape += "b"
		case 2:
			v := int16(rng.U64())
			w.AddInt16(v)
			body = append(body, byte(uint16(v)>>8), byte(v))
			shape += "2"
		case 3:
			v := int32(rng.U64())
			w.AddInt32(v)
			body = append(body, byte(uint32(v)>>24), byte(uint32(v)>>16), byte(uint32(v)>>8), byte(v))
			shape += "4"
		case 4:
			b := rng.Bytes(rng.Intn(40))
			w.AddBytes(b)
			body = append(body, b...)
			shape += "B"
		case 5:
			s := rng.Text(rng.Intn(20), true)
			w.AddString(s)
			body = append(body, s...)
			shape += "s"
		case 6:
			w.AddNullTerminate()
			body = append(body, 0)
			shape += "0"
		case 7:
			fault := sink.failAt[sink.calls+1]
			callsBefore := sink.calls
			err := w.End()
			l := uint32(len(body) + 4)
			frame := append([]byte{typ, byte(l >> 24), byte(l >> 16), byte(l >> 8), byte(l)}, body...)
			started = false
			shape += "E"
			if fault == 0 && err != nil && failedEnds > 0 && sink.calls == callsBefore {
				// a writer may refuse further frames once its sink has failed (as bufio.Writer does):
				// the refused frame reaches the sink not at all
				refused++
				shape += "x"
				continue
			}
			switch {
			case fault == 0 && err != nil:
				c.Violate("writer", "End failed although the sink accepted the frame", err.Error()+" "+shape, nil)
				return
			case (fault == 1 || fault == 4) && err == nil:
				c.Violate("writer", "End reported success although the sink failed for good", shape, nil)
				return
			case err == nil:
				// no fault, or a temporary one the writer recovered from: exactly one frame
				want = append(want, frame...)
			default:
				failedEnds++
				shape += fmt.Sprintf("!%d", fault)
				// a failed End: the sink holds the frames of the successful Ends and, at most, the bytes
				// it accepted of this one. With such a half on the wire the stream is over.
				got := sink.buf.Bytes()
				if !bytes.HasPrefix(got, want) || !bytes.HasPrefix(frame, got[len(want):]) {
					c.Violate("writer", "a failed End left bytes at the sink that are not the head of its frame", fmt.Sprintf("ops %s: sink %s want %s + a prefix of %s", shape, hexs(got), hexs(want), hexs(frame)), map[string]any{"ops": shape})
					return
				}
				if len(got) > len(want) {
					c.Count("writer_sequences", 1)
					c.Count("writer_failed_ends", int64(failedEnds))
					c.Count("writer_partial_frames_on_the_wire", 1)
					c.Eval("writer "+shape, true)
					return
				}
			}
		default:
			w.Reset()
			started = false
			shape += "R"
		}
	}
	c.Count("writer_sequences", 1)
	c.Count("writer_failed_ends", int64(failedEnds))
	c.Count("writer_frames_refused_after_a_failure", int64(refused))
	c.Eval("writer "+shape, failedEnds > 0 || strings.Contains(shape, "R") || strings.Contains(shape, "SS"))
	if !bytes.Equal(sink.buf.Bytes(), want) {
		c.Violate("writer", "bytes reaching the sink differ from 'one frame per successful End'", fmt.Sprintf("ops %s: sink %s want %s", shape, hexs(sink.buf.Bytes()), hexs(want)), map[string]any{"ops": shape})
	}
	if idx < 1 {
		c.Sample(map[string]any{"workload": "buffer.Writer model", "ops": shape, "sink_bytes": sink.buf.Len()})
	}
}

// c02panics is a row value whose text encoding panics (a TextValuer with a bug).
type c02panics struct{ at string }

func (p c02panics) TextValue() (pgtype.Text, error) {
	var m map[string][]string
	return pgtype.Text{String: m[p.at][0], Valid: true}, nil
}

// panickingValues: through the extended protocol (where the pinned tree recovers a panicking statement into
// an ErrorResponse) a row whose j-th value panics while it is encoded, after j values went into the frame:
// what reaches the client is whole messages all the same.
func (ch c02) panickingValues(c *core.Ctx, env *hs.Env) {
	for nc := 2; nc <= 5; nc++ {
		for at := 0; at < nc; at++ {
			row := func(bad bool) []any {
				r := make([]any, nc)
				for j := range r {
					r[j] = fmt.Sprintf("value-%d-%d", nc, j)
				}
				if bad {
					r[at] = c02panics{at: "k"}
				}
				return r
			}
			st := &hs.Stmt{ID: "s", Cols: textCols(nc), Ops: []hs.Op{{K: "row", Vals: row(false)}, {K: "row", Vals: row(true)}, {K: "row", Vals: row(false)}, {K: "complete", Tag: "SELECT 2"}}}
			sess := &hs.Sess{Progs: map[string]*hs.Prog{"q": {Stmts: []*hs.Stmt{st}}}}
			conn := env.Dial(sess)
			conn.Send(pg.Startup([][2]string{{"user", "u"}}))
			conn.Quiesce()
			conn.Send(append(append(append(pg.Parse("", "q", nil), pg.Bind("", "", nil, nil, nil)...), pg.Execute("", 0)...), pg.Sync()...))
			conn.Quiesce()
			conn.Send(pg.Terminate())
			conn.CloseWrite()
			if !conn.WaitClosed() {
				c.Inconclusive("connection did not close (C02 panicking-value workload)")
				return
			}
			c.Count("rows_whose_encoding_panics_half_way", 1)
			c.Eval(fmt.Sprintf("panicking value %d/%d", at, nc), true)
			msgs, rest, err := pg.ParseStream(conn.Out())
			if err != nil || rest != 0 {
				c.Violate("grammar", "after a row value panicked while being encoded: "+grammarSig(fmt.Errorf("%v (%d trailing bytes)", err, rest)), fmt.Sprintf("%d columns, value %d panics: %v; messages: %s", nc, at, err, trim(pg.Kinds(msgs), 300)), map[string]any{"workload": "panicking values", "columns": nc, "at": at})
				return
			}
		}
	}
}
