package checks

import (
	"fmt"
	wire "github.com/jeroenrinzema/psql-wire"
	"strings"
	"sync"

	"verifharness/core"
	"verifharness/hs"
	"verifharness/tr"
)

// C07 - Statement and portal names resolve to the latest definition, per connection.

type c07 struct{ base }

func init() {
	core.Register(c07{base{id: "C07", race: true, level: "exploration", quickB: 16, thoroughB: 32,
		rule:        "unambiguous histories: every Parse carries a unique query id (visible in the column names a portal Describe returns and in the statement id the exec callback reports) and every Bind unique parameter bytes, so each Execute/Describe identifies the definition it used; the namespace model (harness/checks/ext.go) gives the expected resolution. quick: exhaustive histories of length <= 4 over {Parse n, Bind p<-n, Execute p, Describe-portal p, Close-statement n, Close-portal p, simple Query} with n,p in {\"\",a} + random length <= 14 over {\"\",a,b}; plus concurrent groups of 2-16 connections using the same names on one server under the race detector with yield injection, each judged against its own sequential model. Non-trivial = a name is defined twice, closed, or used after re-definition; distinct = message-kind/name sequence.",
		need:        []string{"messages_stepped", "executes_resolved", "redefinitions", "closes", "concurrent_groups", "race_detector_active_batches"},
		assumptions: append([]string{"each connection is served by one goroutine, so per-connection histories are sequential and are decided by replaying them through a map model (complete, linear time); whether portals survive Sync and whether closing a statement cascades to its portals is left open"}, commonAssumptions...)}})
}

func (c07) alphabet(pfx string, names []string) []func(i int) xMsg {
	var a []func(i int) xMsg
	for _, n := range names {
		n := n
		a = append(a, func(i int) xMsg {
			id := fmt.Sprintf("%s.%d", pfx, i)
			return xMsg{K: "parse", Name: n, Query: "P " + id, Prog: xProg(id, 4)}
		})
		a = append(a, func(i int) xMsg { return xMsg{K: "closeS", Name: n} })
		if n == "" {
			a = append(a, func(i int) xMsg {
				id := fmt.Sprintf("%s.q%d", pfx, i)
				return xMsg{K: "query", Query: "Q " + id, Prog: xProg(id, 4)}
			})
		}
		a = append(a, func(i int) xMsg { return xMsg{K: "exec", Portal: n} })
		a = append(a, func(i int) xMsg { return xMsg{K: "descP", Portal: n} })
		a = append(a, func(i int) xMsg { return xMsg{K: "closeP", Portal: n} })
		for _, p := range names {
			p := p
			a = append(a, func(i int) xMsg {
				return xMsg{K: "bind", Portal: p, Name: n, BindID: i, Params: [][]byte{[]byte(fmt.Sprintf("%s-bind%d", pfx, i)), []byte(fmt.Sprint(i))}}
			})
		}
	}
	return a
}

func c07nontrivial(h []xMsg) (nt bool, redefs, closes int) {
	seenS, seenP := map[string]bool{}, map[string]bool{}
	for _, m := range h {
		switch m.K {
		case "parse":
			if seenS[m.Name] {
				redefs++
			}
			seenS[m.Name] = true
		case "bind":
			if seenP[m.Portal] {
				redefs++
			}
			seenP[m.Portal] = true
		case "closeS", "closeP":
			closes++
		}
	}
	return redefs+closes > 0, redefs, closes
}

func c07random(rng *core.Rng, pfx string, maxLen int) []xMsg {
	n := 2 + rng.Intn(maxLen-1)
	var h []xMsg
	defS, defP := map[string]bool{}, map[string]bool{}
	pick := func(def map[string]bool) string {
		// mostly defined names, sometimes any name (including undefined ones)
		if rng.Intn(8) != 0 {
			var ds []string
			for _, x := range xNames {
				if def[x] {
					ds = append(ds, x)
				}
			}
			if len(ds) > 0 {
				return core.Pick(rng, ds)
			}
		}
		return core.Pick(rng, xNames)
	}
	if rng.Intn(10) == 0 {
		// Parse, Close, the very same Parse again: the name resolves again (a server that remembers what it
		// has parsed must forget it on Close)
		id := pfx + ".again"
		nm := core.Pick(rng, xNames)
		pm := xMsg{K: "parse", Name: nm, Query: "P " + id, Prog: xProg(id, 3+rng.Intn(2))}
		h = append(h, pm, xMsg{K: "closeS", Name: nm}, pm)
		defS[nm] = true
	}
	for i := 0; i < n; i++ {
		id := fmt.Sprintf("%s.%d", pfx, i)
		failed := false
		switch k := rng.Intn(100); {
		case k < 22 || len(defS) == 0:
			name := core.Pick(rng, xNames)
			if len(defS) > 0 && rng.Intn(5) == 0 {
				// a Parse that fails defines nothing: the name keeps resolving to what it did before
				h = append(h, xMsg{K: "parse", Name: name, Query: "P " + id, Prog: xProg(id, rng.Intn(3))}, xMsg{K: "sync"})
				break
			}
			q := "P " + id
			if rng.Intn(5) == 0 {
				q += " /* " + strings.Repeat("large query text ", 250+rng.Intn(300)) + "*/" // a Parse of 4-9 KiB
			}
			kind := 3 + rng.Intn(2) + 10*rng.Intn(2)
			if rng.Intn(5) == 0 {
				// a statement that fails (before or after its first row) whenever it is executed: its portals
				// stay what their Binds made them
				kind = 5 + rng.Intn(4)
			}
			pm := xMsg{K: "parse", Name: name, Query: q, Prog: xProg(id, kind)}
			if rng.Intn(4) == 0 {
				// the very text of an earlier (successful) Parse again, under the same or another name
				var prev []xMsg
				for _, m := range h {
					if m.K == "parse" && m.Prog != nil && m.Prog.Err == nil && len(m.Prog.Stmts) == 1 {
						prev = append(prev, m)
					}
				}
				if len(prev) > 0 {
					o := core.Pick(rng, prev)
					if rng.Bool() {
						pm.Name = o.Name
						name = o.Name
					}
					pm.Query, pm.Prog = o.Query, o.Prog
				}
			}
			for j := rng.Intn(6) - 2; j > 0; j-- {
				pm.OIDs = append(pm.OIDs, core.Pick(rng, []uint32{0, 23, 25, 1043, 705})) // client-prespecified types
			}
			h = append(h, pm)
			defS[name] = true
		case k < 47:
			name, portal := pick(defS), core.Pick(rng, xNames)
			m := xMsg{K: "bind", Portal: portal, Name: name, BindID: i, Params: [][]byte{[]byte(fmt.Sprintf("%s-bind%d", pfx, i)), []byte(fmt.Sprint(i))}}
			if rng.Bool() {
				m.RFmts = []int16{int16(rng.Intn(2))}
			}
			if rng.Intn(5) == 0 {
				m.Params[1] = []byte(strings.Repeat(fmt.Sprintf("big%d.", i), 700+rng.Intn(600))) // a Bind of 4-9 KiB
			} else if rng.Intn(3) == 0 {
				m.Params[1] = []byte(core.Pick(rng, []string{"2024-02-29 10:00:00", "2024-02-29", "1999-12-31 23:59:59.5", "2024-02-29 10:00"})) // what a handler may want to complete
			}
			if rng.Intn(7) == 0 {
				// more result format codes than the statement has columns: a server may refuse such a Bind
				// (PostgreSQL does), and the portal name then keeps resolving to what it did
				m.RFmts = []int16{1, 0, 1, 0}[:3+rng.Intn(2)]
				failed = true
			}
			h = append(h, m)
			if defS[name] {
				defP[portal] = true
			} else {
				failed = true
			}
		case k < 72:
			p := pick(defP)
			h = append(h, xMsg{K: "exec", Portal: p})
			failed = !defP[p]
		case k < 80:
			p := pick(defP)
			h = append(h, xMsg{K: "descP", Portal: p})
			failed = !defP[p]
		case k < 84:
			s := pick(defS)
			h = append(h, xMsg{K: "descS", Name: s})
			failed = !defS[s]
		case k < 90:
			s := pick(defS)
			h = append(h, xMsg{K: "closeS", Name: s})
			delete(defS, s)
		case k < 95:
			p := pick(defP)
			h = append(h, xMsg{K: "closeP", Portal: p})
			delete(defP, p)
		case k < 97:
			h = append(h, xMsg{K: "sync"})
		default: // a simple Query in between must not change what the names resolve to
			h = append(h, xMsg{K: "query", Query: "Q " + id, Prog: xProg(id, 3+rng.Intn(2))})
		}
		if failed {
			h = append(h, xMsg{K: "sync"})
		}
	}
	return xLongNames(rng, h)
}

func (ch c07) Run(c *core.Ctx) {
	nb := ch.Batches(c.Tier)
	var opts []wire.OptionFn
	if c.Batch%2 == 1 {
		// the caches configured through the Statements / Portals options (one instance per connection)
		opts = append(opts, wire.Statements(func() wire.StatementCache {
			c.Count("cache_factories_called", 1)
			return wire.DefaultStatementCacheFn()
		}),
			wire.Portals(func() wire.PortalCache { return wire.DefaultPortalCacheFn() }))
	}
	env := hs.Start(hs.Parse, opts...)
	defer env.Stop()
	idx := 0
	account := func(h []xMsg, run xRun) {
		nt, redefs, closes := c07nontrivial(h)
		c.Eval(xShape(h), nt)
		c.Count("redefinitions", int64(redefs))
		c.Count("closes", int64(closes))
		n := 0
		for _, t := range run.Trace {
			if len(t) > 5 && t[:5] == "exec:" {
				n++
			}
		}
		c.Count("executes_resolved", int64(n))
	}
	// exhaustive single-connection part
	names := []string{"", "a"}
	alpha := ch.alphabet("x", names)
	maxLen := 4
	total := 0
	var rec func(cur []int)
	rec = func(cur []int) {
		if len(cur) > 0 {
			if total%nb == c.Batch && c.Begin(idx) && c.NViol() < 10 {
				pfx := fmt.Sprintf("e%d", total)
				a := ch.alphabet(pfx, names)
				h := make([]xMsg, 0, 2*len(cur))
				for i, s := range cur {
					h = append(h, a[s](i), xMsg{K: "sync"})
				}
				_, run := judgeHistory(c, env, h, map[string]any{"history": histString(h)}, "C07")
				account(h, run)
				if total < 3*nb && len(cur) == maxLen {
					c.Sample(map[string]any{"history": histString(h), "trace": run.Trace})
				}
			}
			total++
			idx++
		}
		if len(cur) == maxLen {
			return
		}
		for s := range alpha {
			rec(append(cur, s))
		}
	}
	rec(nil)
	if c.Batch == 0 {
		c.Count("exhaustive_parts", 1)
	}
	nrand, rlen, ngroups := 16000, 14, 480
	if c.Tier == "thorough" {
		nrand, rlen, ngroups = 500000, 25, 20000
	}
	for i := c.Batch; i < nrand; i += nb {
		idx = 1000000 + i
		if !c.Begin(idx) || c.NViol() >= 10 {
			continue
		}
		rng := core.NewRng(c.Seed, "C07", 0, i)
		h := append(c07random(rng, fmt.Sprintf("r%d", i), rlen), xMsg{K: "sync"})
		if rng.Intn(3) == 0 {
			h = append(h, xMsg{K: "terminate"})
		}
		_, run := judgeHistory(c, env, h, map[string]any{"history": histString(h)}, "C07")
		account(h, run)
	}
	// long-lived connections: a statement and a portal that stay, and hundreds to thousands of
	// define / use / close cycles of other names around them (and of the unnamed ones)
	nlong := 2
	if c.Tier == "thorough" {
		nlong = 40
	}
	for i := 0; i < nlong; i++ {
		idx = 3000000 + i
		if !c.Begin(idx) || c.NViol() >= 10 {
			continue
		}
		rng := core.NewRng(c.Seed, "C07long", c.Batch, i)
		pfx := fmt.Sprintf("L%dx%d", c.Batch, i)
		keepID := pfx + ".keep"
		h := []xMsg{{K: "parse", Name: "a", Query: "P " + keepID, Prog: xProg(keepID, 3)},
			{K: "bind", Portal: "a", Name: "a", BindID: 1, Params: [][]byte{[]byte(pfx + "-bind-keep"), []byte("1")}}}
		// (no Sync until the end: whether portals outlive the end of a batch is left open by the properties,
		// so everything stays within one batch)
		cycles := core.Pick(rng, []int{110, 200, 300})
		if c.Tier == "thorough" && i%4 == 3 {
			cycles = core.Pick(rng, []int{1100, 2100}) // (lock-step cost grows with the square of the history)
		}
		for k := 0; k < cycles; k++ {
			id := fmt.Sprintf("%s.c%d", pfx, k)
			nm := core.Pick(rng, []string{"b", "b", ""})
			switch rng.Intn(3) {
			case 0: // statement cycle
				h = append(h, xMsg{K: "parse", Name: nm, Query: "P " + id, Prog: xProg(id, 3+rng.Intn(2))}, xMsg{K: "closeS", Name: nm})
			case 1: // portal cycle on the kept statement
				h = append(h, xMsg{K: "bind", Portal: nm, Name: "a", BindID: 100 + k, Params: [][]byte{[]byte(fmt.Sprintf("%s-bind%d", pfx, k)), []byte("2")}}, xMsg{K: "closeP", Portal: nm})
			default: // both, used before they go
				h = append(h, xMsg{K: "parse", Name: nm, Query: "P " + id, Prog: xProg(id, 3)},
					xMsg{K: "bind", Portal: nm, Name: nm, BindID: 100 + k, Params: [][]byte{[]byte(fmt.Sprintf("%s-bind%d", pfx, k)), []byte("3")}},
					xMsg{K: "exec", Portal: nm}, xMsg{K: "closeP", Portal: nm}, xMsg{K: "closeS", Name: nm})
			}
			if k%16 == 15 {
				h = append(h, xMsg{K: "flush"})
			}
		}
		// what was defined at the start is still there
		h = append(h, xMsg{K: "descS", Name: "a"}, xMsg{K: "exec", Portal: "a"}, xMsg{K: "bind", Portal: "b", Name: "a", BindID: 9, Params: [][]byte{[]byte(pfx + "-bind-late"), []byte("4")}}, xMsg{K: "exec", Portal: "b"}, xMsg{K: "sync"})
		_, run := judgeHistory(c, env, h, map[string]any{"history": fmt.Sprintf("long history, %d cycles", cycles)}, "C07")
		account(h, run)
		c.Count("long_histories", 1)
	}
	// more than a thousand Close messages on one connection, each followed by a use of the name it closed: the
	// 1024th Close (the 2048th ...) makes a name as unresolvable as the first one did
	if c.Batch == 1%nb && c.Begin(3500000) && c.NViol() < 10 {
		pfx := fmt.Sprintf("K%d", c.Batch)
		keepID := pfx + ".keep"
		h := []xMsg{{K: "parse", Name: "a", Query: "P " + keepID, Prog: xProg(keepID, 3)}, {K: "sync"}}
		ncl := 1060
		if c.Tier == "thorough" {
			ncl = 2100
		}
		for k := 0; k < ncl; k++ {
			id := fmt.Sprintf("%s.c%d", pfx, k)
			p := [][]byte{[]byte(fmt.Sprintf("%s-bind%d", pfx, k)), []byte("5")}
			h = append(h, xMsg{K: "parse", Name: "b", Query: "P " + id, Prog: xProg(id, 3)}, xMsg{K: "closeS", Name: "b"},
				xMsg{K: "bind", Portal: "b", Name: "b", BindID: 5000 + k, Params: p}, xMsg{K: "sync"},
				xMsg{K: "bind", Portal: "b", Name: "a", BindID: 7000 + k, Params: p}, xMsg{K: "closeP", Portal: "b"},
				xMsg{K: "exec", Portal: "b"}, xMsg{K: "sync"})
		}
		_, run := judgeHistory(c, env, h, map[string]any{"history": fmt.Sprintf("%d statement and %d portal Close messages on one connection, each name used right after it was closed", ncl, ncl)}, "C07")
		account(h, run)
		c.Count("closes_on_one_connection_each_followed_by_a_use", int64(2*ncl))
	}
	// concurrent groups: same names on several connections of one server
	for g := c.Batch; g < ngroups; g += nb {
		idx = 2000000 + g
		if !c.Begin(idx) || c.NViol() >= 10 {
			continue
		}
		rng := core.NewRng(c.Seed, "C07g", 0, g)
		n := 2 + rng.Intn(15)
		var wg sync.WaitGroup
		for k := 0; k < n; k++ {
			h := append(c07random(rng, fmt.Sprintf("g%dc%d", g, k), rlen), xMsg{K: "sync"})
			if rng.Bool() {
				h = append(h, xMsg{K: "terminate"}) // connections end by Terminate as often as by EOF
			}
			seed := rng.U64()
			wg.Add(1)
			go func(k int, h []xMsg) {
				defer wg.Done()
				_, run := judgeHistoryY(c, env, h, map[string]any{"group": g, "conn": k, "history": histString(h)}, tr.YieldFn(seed))
				account(h, run)
			}(k, h)
		}
		wg.Wait()
		c.Count("concurrent_groups", 1)
		c.Count("concurrent_connections", int64(n))
	}
}
