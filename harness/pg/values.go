package pg

import (
	"encoding/binary"
	"encoding/hex"
	"fmt"
	"math"
	"strconv"
	"strings"
	"time"
)

// Independent value codecs (text and binary wire formats) for the column types
// the harness uses. Written from the PostgreSQL documentation; no pgtype code.

const (
	OIDBool        = 16
	OIDBytea       = 17
	OIDName        = 19
	OIDInt8        = 20
	OIDInt2        = 21
	OIDInt4        = 23
	OIDText        = 25
	OIDOid         = 26
	OIDJSON        = 114
	OIDFloat4      = 700
	OIDFloat8      = 701
	OIDBPChar      = 1042
	OIDVarchar     = 1043
	OIDDate        = 1082
	OIDTimestamp   = 1114
	OIDTimestamptz = 1184
	OIDUUID        = 2950
	OIDBit         = 1560
	OIDVarbit      = 1562
	OIDJSONB       = 3802
	OIDNumeric     = 1700
	OIDInt4Array   = 1007
	OIDTextArray   = 1009
)

var pgEpoch = time.Date(2000, 1, 1, 0, 0, 0, 0, time.UTC)

// microsSince2000 / daysSince2000 avoid time.Duration (saturates at +-292 years).
func microsSince2000(t time.Time) int64 {
	return (t.Unix()-pgEpoch.Unix())*1000000 + int64(t.Nanosecond()/1000)
}

func daysSince2000(t time.Time) int64 {
	sec := t.Unix() - pgEpoch.Unix()
	d := sec / 86400
	if sec%86400 < 0 {
		d--
	}
	return d
}

// Canon renders a Go value of the type the harness uses for the OID as a
// canonical string (the comparison domain of the oracle).
// BitString is a bit / varbit value written as its digits ("0110").
type BitString string

func (b BitString) binary() []byte {
	out := be32(uint32(len(b)))
	oct := make([]byte, (len(b)+7)/8)
	for i := range b {
		if b[i] == '1' {
			oct[i/8] |= 0x80 >> (i % 8)
		}
	}
	return append(out, oct...)
}

// Numeric is a numeric value written as plain decimal digits ("-12.3400"), "NaN", "Infinity" or "-Infinity".
type Numeric string

// NumericCanon is the comparison form of a numeric: its value, whatever the display scale.
func NumericCanon(nan bool, inf int, neg bool, digits string, exp int) string {
	switch {
	case nan:
		return "n:NaN"
	case inf > 0:
		return "n:Infinity"
	case inf < 0:
		return "n:-Infinity"
	}
	digits = strings.TrimLeft(digits, "0")
	for strings.HasSuffix(digits, "0") {
		digits, exp = digits[:len(digits)-1], exp+1
	}
	if digits == "" {
		return "n:0"
	}
	sign := ""
	if neg {
		sign = "-"
	}
	return fmt.Sprintf("n:%s%se%d", sign, digits, exp)
}

func (n Numeric) parts() (neg bool, ip, fp string) {
	s := string(n)
	if strings.HasPrefix(s, "-") {
		neg, s = true, s[1:]
	}
	ip, fp, _ = strings.Cut(s, ".")
	return
}

func (n Numeric) canon() string {
	switch n {
	case "NaN":
		return NumericCanon(true, 0, false, "", 0)
	case "Infinity":
		return NumericCanon(false, 1, false, "", 0)
	case "-Infinity":
		return NumericCanon(false, -1, false, "", 0)
	}
	neg, ip, fp := n.parts()
	return NumericCanon(false, 0, neg, ip+fp, -len(fp))
}

// binary: ndigits, weight, sign, dscale, then base-10000 digits (what PostgreSQL's numeric_send produces)
func (n Numeric) binary() []byte {
	hdr := func(nd int, weight int, sign uint16, dscale int) []byte {
		return append(append(append(be16(uint16(nd)), be16(uint16(int16(weight)))...), be16(sign)...), be16(uint16(dscale))...)
	}
	switch n {
	case "NaN":
		return hdr(0, 0, 0xc000, 0)
	case "Infinity":
		return hdr(0, 0, 0xd000, 0)
	case "-Infinity":
		return hdr(0, 0, 0xf000, 0)
	}
	neg, ip, fp := n.parts()
	dscale := len(fp)
	for len(ip)%4 != 0 {
		ip = "0" + ip
	}
	for len(fp)%4 != 0 {
		fp += "0"
	}
	var groups []uint16
	for _, part := range []string{ip, fp} {
		for i := 0; i < len(part); i += 4 {
			g, _ := strconv.Atoi(part[i : i+4])
			groups = append(groups, uint16(g))
		}
	}
	weight := len(ip)/4 - 1
	for len(groups) > 0 && groups[0] == 0 {
		groups, weight = groups[1:], weight-1
	}
	for len(groups) > 0 && groups[len(groups)-1] == 0 {
		groups = groups[:len(groups)-1]
	}
	sign := uint16(0)
	if len(groups) == 0 {
		weight = 0
	} else if neg {
		sign = 0x4000
	}
	b := hdr(len(groups), weight, sign, dscale)
	for _, g := range groups {
		b = append(b, be16(g)...)
	}
	return b
}

func Canon(oid uint32, v any) string {
	switch x := v.(type) {
	case Numeric:
		return x.canon()
	case BitString:
		return "bits:" + string(x)
	case bool:
		return fmt.Sprintf("b:%v", x)
	case int16:
		return fmt.Sprintf("i:%d", x)
	case int32:
		return fmt.Sprintf("i:%d", x)
	case int64:
		return fmt.Sprintf("i:%d", x)
	case uint32:
		return fmt.Sprintf("i:%d", x)
	case float32:
		if x != x {
			return "f4:nan"
		}
		return fmt.Sprintf("f4:%08x", math.Float32bits(x))
	case float64:
		if x != x {
			return "f8:nan"
		}
		return fmt.Sprintf("f8:%016x", math.Float64bits(x))
	case string:
		return "s:" + x
	case []byte:
		return "x:" + hex.EncodeToString(x)
	case [16]byte:
		return "u:" + hex.EncodeToString(x[:])
	case time.Time:
		switch oid {
		case OIDDate:
			return fmt.Sprintf("d:%d", daysSince2000(x))
		default:
			return fmt.Sprintf("t:%d", microsSince2000(x))
		}
	case []int32:
		parts := make([]string, len(x))
		for i, e := range x {
			parts[i] = fmt.Sprint(e)
		}
		return "ai:" + strings.Join(parts, ",")
	case []string:
		parts := make([]string, len(x))
		for i, e := range x {
			parts[i] = strconv.Quote(e)
		}
		return "as:" + strings.Join(parts, ",")
	case []any: // what a type map yields when an array is scanned into an untyped destination
		parts := make([]string, len(x))
		for i, e := range x {
			switch ev := e.(type) {
			case nil:
				parts[i] = "NULL"
			case string:
				parts[i] = strconv.Quote(ev)
			default:
				parts[i] = fmt.Sprint(ev)
			}
		}
		if oid == OIDInt4Array {
			return "ai:" + strings.Join(parts, ",")
		}
		return "as:" + strings.Join(parts, ",")
	}
	return fmt.Sprintf("?%T:%v", v, v)
}

// Decode decodes wire bytes of the given type and format into the canonical string.
func Decode(oid uint32, format int16, b []byte) (string, error) {
	if b == nil {
		return "NULL", nil
	}
	if format == 1 {
		return decodeBinary(oid, b)
	}
	return decodeText(oid, string(b))
}

func decodeBinary(oid uint32, b []byte) (string, error) {
	need := func(n int) error {
		if len(b) != n {
			return fmt.Errorf("binary oid %d: %d bytes, want %d", oid, len(b), n)
		}
		return nil
	}
	switch oid {
	case OIDBool:
		if err := need(1); err != nil {
			return "", err
		}
		if b[0] > 1 {
			return "", fmt.Errorf("binary bool byte %d", b[0])
		}
		return fmt.Sprintf("b:%v", b[0] == 1), nil
	case OIDInt2:
		if err := need(2); err != nil {
			return "", err
		}
		return fmt.Sprintf("i:%d", int16(binary.BigEndian.Uint16(b))), nil
	case OIDInt4:
		if err := need(4); err != nil {
			return "", err
		}
		return fmt.Sprintf("i:%d", int32(binary.BigEndian.Uint32(b))), nil
	case OIDOid:
		if err := need(4); err != nil {
			return "", err
		}
		return fmt.Sprintf("i:%d", binary.BigEndian.Uint32(b)), nil
	case OIDInt8:
		if err := need(8); err != nil {
			return "", err
		}
		return fmt.Sprintf("i:%d", int64(binary.BigEndian.Uint64(b))), nil
	case OIDFloat4:
		if err := need(4); err != nil {
			return "", err
		}
		return Canon(oid, math.Float32frombits(binary.BigEndian.Uint32(b))), nil
	case OIDFloat8:
		if err := need(8); err != nil {
			return "", err
		}
		return Canon(oid, math.Float64frombits(binary.BigEndian.Uint64(b))), nil
	case OIDText, OIDVarchar, OIDBPChar, OIDName, OIDJSON:
		return "s:" + string(b), nil
	case OIDJSONB:
		if len(b) < 1 || b[0] != 1 {
			return "", fmt.Errorf("binary jsonb: missing version byte 1")
		}
		return "s:" + string(b[1:]), nil
	case OIDBytea:
		return "x:" + hex.EncodeToString(b), nil
	case OIDUUID:
		if err := need(16); err != nil {
			return "", err
		}
		return "u:" + hex.EncodeToString(b), nil
	case OIDDate:
		if err := need(4); err != nil {
			return "", err
		}
		return fmt.Sprintf("d:%d", int32(binary.BigEndian.Uint32(b))), nil
	case OIDTimestamp, OIDTimestamptz:
		if err := need(8); err != nil {
			return "", err
		}
		return fmt.Sprintf("t:%d", int64(binary.BigEndian.Uint64(b))), nil
	case OIDInt4Array, OIDTextArray:
		return decodeBinaryArray(oid, b)
	case OIDBit, OIDVarbit:
		if err := need4(b); err != nil {
			return "", err
		}
		n := int(binary.BigEndian.Uint32(b))
		if n < 0 || len(b)-4 != (n+7)/8 {
			return "", fmt.Errorf("binary bit string: %d bits announced, %d octets", n, len(b)-4)
		}
		d := make([]byte, n)
		for i := range d {
			d[i] = '0' + b[4+i/8]>>(7-i%8)&1
		}
		return "bits:" + string(d), nil
	}
	return "", fmt.Errorf("no binary decoder for oid %d", oid)
}

func decodeBinaryArray(oid uint32, b []byte) (string, error) {
	c := &cur{b: b}
	ndim := int32(c.u32())
	c.u32() // has-null flag
	elem := c.u32()
	wantElem := uint32(OIDInt4)
	if oid == OIDTextArray {
		wantElem = OIDText
	}
	if c.err == nil && elem != wantElem {
		return "", fmt.Errorf("array element oid %d want %d", elem, wantElem)
	}
	n := 0
	if ndim == 1 {
		n = int(int32(c.u32()))
		c.u32() // lower bound
	} else if ndim != 0 {
		return "", fmt.Errorf("array ndim %d", ndim)
	}
	var parts []string
	for i := 0; i < n && c.err == nil; i++ {
		l := int32(c.u32())
		if l < 0 {
			parts = append(parts, "NULL")
			continue
		}
		v := c.bytes(int(l))
		if oid == OIDInt4Array {
			if len(v) != 4 {
				return "", fmt.Errorf("int4 array element of %d bytes", len(v))
			}
			parts = append(parts, fmt.Sprint(int32(binary.BigEndian.Uint32(v))))
		} else {
			parts = append(parts, strconv.Quote(string(v)))
		}
	}
	c.end("array")
	if c.err != nil {
		return "", c.err
	}
	if oid == OIDInt4Array {
		return "ai:" + strings.Join(parts, ","), nil
	}
	return "as:" + strings.Join(parts, ","), nil
}

func decodeText(oid uint32, s string) (string, error) {
	switch oid {
	case OIDBool:
		switch s {
		case "t", "true":
			return "b:true", nil
		case "f", "false":
			return "b:false", nil
		}
		return "", fmt.Errorf("text bool %q", s)
	case OIDInt2, OIDInt4, OIDInt8:
		bits := map[uint32]int{OIDInt2: 16, OIDInt4: 32, OIDInt8: 64}[oid]
		v, err := strconv.ParseInt(s, 10, bits)
		if err != nil {
			return "", err
		}
		return fmt.Sprintf("i:%d", v), nil
	case OIDOid:
		v, err := strconv.ParseUint(s, 10, 32)
		if err != nil {
			return "", err
		}
		return fmt.Sprintf("i:%d", v), nil
	case OIDFloat4:
		v, err := parseFloatText(s, 32)
		if err != nil {
			return "", err
		}
		return Canon(oid, float32(v)), nil
	case OIDFloat8:
		v, err := parseFloatText(s, 64)
		if err != nil {
			return "", err
		}
		return Canon(oid, v), nil
	case OIDText, OIDVarchar, OIDBPChar, OIDName, OIDJSON, OIDJSONB:
		return "s:" + s, nil
	case OIDBytea:
		if !strings.HasPrefix(s, "\\x") {
			return "", fmt.Errorf("text bytea without \\x prefix: %q", s)
		}
		raw, err := hex.DecodeString(s[2:])
		if err != nil {
			return "", err
		}
		return "x:" + hex.EncodeToString(raw), nil
	case OIDUUID:
		if len(s) != 36 || s[8] != '-' || s[13] != '-' || s[18] != '-' || s[23] != '-' {
			return "", fmt.Errorf("text uuid %q", s)
		}
		raw, err := hex.DecodeString(strings.ReplaceAll(s, "-", ""))
		if err != nil {
			return "", err
		}
		return "u:" + hex.EncodeToString(raw), nil
	case OIDDate:
		y, m, d, rest, err := parseDate(s)
		if err != nil || rest != "" {
			return "", fmt.Errorf("text date %q", s)
		}
		t := time.Date(y, time.Month(m), d, 0, 0, 0, 0, time.UTC)
		return fmt.Sprintf("d:%d", daysSince2000(t)), nil
	case OIDTimestamp, OIDTimestamptz:
		us, err := parseTimestamp(s, oid == OIDTimestamptz)
		if err != nil {
			return "", err
		}
		return fmt.Sprintf("t:%d", us), nil
	case OIDInt4Array, OIDTextArray:
		return decodeTextArray(oid, s)
	case OIDBit, OIDVarbit:
		if strings.Trim(s, "01") != "" {
			return "", fmt.Errorf("text bit string %q", s)
		}
		return "bits:" + s, nil
	}
	return "", fmt.Errorf("no text decoder for oid %d", oid)
}

func parseFloatText(s string, bits int) (float64, error) {
	// PostgreSQL's float input accepts nan / [+-]inf / [+-]infinity, case-insensitively
	switch strings.ToLower(s) {
	case "nan":
		return math.NaN(), nil
	case "infinity", "+infinity", "inf", "+inf":
		return math.Inf(1), nil
	case "-infinity", "-inf":
		return math.Inf(-1), nil
	}
	for _, ch := range s {
		if !(ch >= '0' && ch <= '9') && ch != '-' && ch != '+' && ch != '.' && ch != 'e' && ch != 'E' {
			return 0, fmt.Errorf("text float %q", s)
		}
	}
	return strconv.ParseFloat(s, bits)
}

func parseDate(s string) (y, m, d int, rest string, err error) {
	// YYYY-MM-DD (year may have more than 4 digits)
	i := strings.IndexByte(s, '-')
	if i < 4 || len(s) < i+6 {
		return 0, 0, 0, "", fmt.Errorf("date %q", s)
	}
	y, e1 := strconv.Atoi(s[:i])
	m, e2 := strconv.Atoi(s[i+1 : i+3])
	if s[i+3] != '-' {
		return 0, 0, 0, "", fmt.Errorf("date %q", s)
	}
	d, e3 := strconv.Atoi(s[i+4 : i+6])
	if e1 != nil || e2 != nil || e3 != nil {
		return 0, 0, 0, "", fmt.Errorf("date %q", s)
	}
	return y, m, d, s[i+6:], nil
}

// parseTimestamp parses "YYYY-MM-DD HH:MM:SS[.ffffff][zone]" into microseconds since 2000-01-01 UTC.
func parseTimestamp(s string, tz bool) (int64, error) {
	y, mo, d, rest, err := parseDate(s)
	if err != nil {
		return 0, err
	}
	if len(rest) < 9 || (rest[0] != ' ' && rest[0] != 'T') || rest[3] != ':' || rest[6] != ':' {
		return 0, fmt.Errorf("timestamp %q", s)
	}
	hh, e1 := strconv.Atoi(rest[1:3])
	mi, e2 := strconv.Atoi(rest[4:6])
	ss, e3 := strconv.Atoi(rest[7:9])
	if e1 != nil || e2 != nil || e3 != nil {
		return 0, fmt.Errorf("timestamp %q", s)
	}
	rest = rest[9:]
	us := 0
	if strings.HasPrefix(rest, ".") {
		j := 1
		for j < len(rest) && rest[j] >= '0' && rest[j] <= '9' {
			j++
		}
		frac := rest[1:j]
		if len(frac) == 0 || len(frac) > 6 {
			return 0, fmt.Errorf("timestamp fraction %q", s)
		}
		for len(frac) < 6 {
			frac += "0"
		}
		us, _ = strconv.Atoi(frac)
		rest = rest[j:]
	}
	off := 0
	if tz {
		switch {
		case rest == "Z":
		case len(rest) >= 3 && (rest[0] == '+' || rest[0] == '-'):
			parts := strings.Split(rest[1:], ":")
			mul := []int{3600, 60, 1}
			if len(parts) > 3 {
				return 0, fmt.Errorf("timestamptz zone %q", s)
			}
			for i, p := range parts {
				v, e := strconv.Atoi(p)
				if e != nil || len(p) != 2 {
					return 0, fmt.Errorf("timestamptz zone %q", s)
				}
				off += v * mul[i]
			}
			if rest[0] == '-' {
				off = -off
			}
		default:
			return 0, fmt.Errorf("timestamptz without zone %q", s)
		}
	} else if rest != "" {
		return 0, fmt.Errorf("timestamp trailing %q", s)
	}
	t := time.Date(y, time.Month(mo), d, hh, mi, ss, 0, time.UTC)
	return microsSince2000(t) + int64(us) - int64(off)*1000000, nil
}

func decodeTextArray(oid uint32, s string) (string, error) {
	if len(s) < 2 || s[0] != '{' || s[len(s)-1] != '}' {
		return "", fmt.Errorf("text array %q", s)
	}
	body := s[1 : len(s)-1]
	var parts []string
	i := 0
	for i < len(body) {
		var el string
		quoted := false
		if body[i] == '"' {
			quoted = true
			i++
			var sb strings.Builder
			for i < len(body) && body[i] != '"' {
				if body[i] == '\\' && i+1 < len(body) {
					i++
				}
				sb.WriteByte(body[i])
				i++
			}
			if i >= len(body) {
				return "", fmt.Errorf("text array unterminated quote %q", s)
			}
			i++
			el = sb.String()
		} else {
			j := i
			for j < len(body) && body[j] != ',' {
				j++
			}
			el = body[i:j]
			i = j
		}
		if i < len(body) {
			if body[i] != ',' {
				return "", fmt.Errorf("text array separator %q", s)
			}
			i++
		}
		if oid == OIDInt4Array {
			v, err := strconv.ParseInt(el, 10, 32)
			if err != nil {
				return "", err
			}
			parts = append(parts, fmt.Sprint(v))
		} else if !quoted && el == "NULL" {
			parts = append(parts, "NULL")
		} else {
			parts = append(parts, strconv.Quote(el))
		}
	}
	if oid == OIDInt4Array {
		return "ai:" + strings.Join(parts, ","), nil
	}
	return "as:" + strings.Join(parts, ","), nil
}

// Encode encodes a Go value in the given wire format (independent encoder,
// used for Bind parameters and binary COPY streams).
func Encode(oid uint32, format int16, v any) []byte {
	if format == 1 {
		return encodeBinary(oid, v)
	}
	return encodeText(oid, v)
}

func encodeBinary(oid uint32, v any) []byte {
	switch x := v.(type) {
	case Numeric:
		return x.binary()
	case BitString:
		return x.binary()
	case bool:
		if x {
			return []byte{1}
		}
		return []byte{0}
	case int16:
		return be16(uint16(x))
	case int32:
		return be32(uint32(x))
	case uint32:
		return be32(x)
	case int64:
		b := make([]byte, 8)
		binary.BigEndian.PutUint64(b, uint64(x))
		return b
	case float32:
		return be32(math.Float32bits(x))
	case float64:
		b := make([]byte, 8)
		binary.BigEndian.PutUint64(b, math.Float64bits(x))
		return b
	case string:
		if oid == OIDJSONB {
			return append([]byte{1}, x...)
		}
		return []byte(x)
	case []byte:
		return append([]byte{}, x...)
	case [16]byte:
		return append([]byte{}, x[:]...)
	case time.Time:
		if oid == OIDDate {
			return be32(uint32(int32(daysSince2000(x))))
		}
		b := make([]byte, 8)
		binary.BigEndian.PutUint64(b, uint64(microsSince2000(x)))
		return b
	}
	// one-dimensional arrays: ndim, has-null flag, element oid, (length, lower bound), elements
	arr := func(elem uint32, n int, el func(i int) []byte) []byte {
		if n == 0 {
			return append(append(be32(0), be32(0)...), be32(elem)...)
		}
		b := append(append(be32(1), be32(0)...), be32(elem)...)
		b = append(append(b, be32(uint32(n))...), be32(1)...)
		for i := 0; i < n; i++ {
			e := el(i)
			b = append(append(b, be32(uint32(len(e)))...), e...)
		}
		return b
	}
	switch x := v.(type) {
	case []int32:
		return arr(OIDInt4, len(x), func(i int) []byte { return be32(uint32(x[i])) })
	case []string:
		return arr(OIDText, len(x), func(i int) []byte { return []byte(x[i]) })
	}
	panic(fmt.Sprintf("encodeBinary: unsupported %T", v))
}

func encodeText(oid uint32, v any) []byte {
	switch x := v.(type) {
	case Numeric:
		return []byte(x)
	case BitString:
		return []byte(x)
	case bool:
		if x {
			return []byte("t")
		}
		return []byte("f")
	case int16, int32, int64, uint32:
		return []byte(fmt.Sprint(x))
	case float32:
		return []byte(floatText(float64(x), 32))
	case float64:
		return []byte(floatText(x, 64))
	case string:
		return []byte(x)
	case []byte:
		return []byte("\\x" + hex.EncodeToString(x))
	case [16]byte:
		h := hex.EncodeToString(x[:])
		return []byte(h[:8] + "-" + h[8:12] + "-" + h[12:16] + "-" + h[16:20] + "-" + h[20:])
	case time.Time:
		switch oid {
		case OIDDate:
			return []byte(x.Format("2006-01-02"))
		case OIDTimestamp:
			return []byte(x.UTC().Format("2006-01-02 15:04:05.999999"))
		default:
			return []byte(x.UTC().Format("2006-01-02 15:04:05.999999") + "+00")
		}
	}
	switch x := v.(type) {
	case []int32:
		parts := make([]string, len(x))
		for i, e := range x {
			parts[i] = fmt.Sprint(e)
		}
		return []byte("{" + strings.Join(parts, ",") + "}")
	case []string:
		parts := make([]string, len(x))
		for i, e := range x {
			parts[i] = `"` + strings.NewReplacer(`\`, `\\`, `"`, `\"`).Replace(e) + `"`
		}
		return []byte("{" + strings.Join(parts, ",") + "}")
	}
	panic(fmt.Sprintf("encodeText: unsupported %T", v))
}

func floatText(f float64, bits int) string {
	switch {
	case f != f:
		return "NaN"
	case math.IsInf(f, 1):
		return "Infinity"
	case math.IsInf(f, -1):
		return "-Infinity"
	}
	return strconv.FormatFloat(f, 'g', -1, bits)
}

func need4(b []byte) error {
	if len(b) < 4 {
		return fmt.Errorf("binary bit string of %d bytes", len(b))
	}
	return nil
}
