// Package pg is an independent, strict PostgreSQL v3 wire codec written from
// the protocol documentation. It shares no code with psql-wire, pgproto3 or
// pgtype, so an encoding error in the library cannot cancel out in the oracle.
package pg

import (
	"encoding/binary"
	"fmt"
)

// ---- frontend message builders ---------------------------------------------

func be32(v uint32) []byte { b := make([]byte, 4); binary.BigEndian.PutUint32(b, v); return b }
func be16(v uint16) []byte { b := make([]byte, 2); binary.BigEndian.PutUint16(b, v); return b }

// Raw frames a typed message.
func Raw(t byte, body []byte) []byte {
	out := make([]byte, 0, 5+len(body))
	out = append(out, t)
	out = append(out, be32(uint32(len(body)+4))...)
	return append(out, body...)
}

// RawLen frames a typed message header with an arbitrary declared length.
func RawLen(t byte, declared uint32, body []byte) []byte {
	out := []byte{t}
	out = append(out, be32(declared)...)
	return append(out, body...)
}

func untyped(body []byte) []byte { return append(be32(uint32(len(body)+4)), body...) }

func cstr(s string) []byte { return append([]byte(s), 0) }

const (
	Version30  = 196608
	VerCancel  = 80877102
	VerSSL     = 80877103
	VerGSSENC  = 80877104
	DescStmt   = 'S'
	DescPortal = 'P'
)

func Startup(params [][2]string) []byte {
	body := be32(Version30)
	for _, kv := range params {
		body = append(body, cstr(kv[0])...)
		body = append(body, cstr(kv[1])...)
	}
	body = append(body, 0)
	return untyped(body)
}
func StartupRaw(version uint32, rest []byte) []byte { return untyped(append(be32(version), rest...)) }
func SSLRequest() []byte                            { return untyped(be32(VerSSL)) }
func GSSENCRequest() []byte                         { return untyped(be32(VerGSSENC)) }
func CancelRequest(pid, key uint32) []byte {
	return untyped(append(append(be32(VerCancel), be32(pid)...), be32(key)...))
}
func Password(s string) []byte { return Raw('p', cstr(s)) }
func Query(s string) []byte    { return Raw('Q', cstr(s)) }
func Parse(name, query string, oids []uint32) []byte {
	b := append(cstr(name), cstr(query)...)
	b = append(b, be16(uint16(len(oids)))...)
	for _, o := range oids {
		b = append(b, be32(o)...)
	}
	return Raw('P', b)
}

// Bind: params[i]==nil means SQL NULL.
func Bind(portal, stmt string, pfmts []int16, params [][]byte, rfmts []int16) []byte {
	b := append(cstr(portal), cstr(stmt)...)
	b = append(b, be16(uint16(len(pfmts)))...)
	for _, f := range pfmts {
		b = append(b, be16(uint16(f))...)
	}
	b = append(b, be16(uint16(len(params)))...)
	for _, p := range params {
		if p == nil {
			b = append(b, 0xff, 0xff, 0xff, 0xff)
			continue
		}
		b = append(b, be32(uint32(len(p)))...)
		b = append(b, p...)
	}
	b = append(b, be16(uint16(len(rfmts)))...)
	for _, f := range rfmts {
		b = append(b, be16(uint16(f))...)
	}
	return Raw('B', b)
}
func Describe(kind byte, name string) []byte { return Raw('D', append([]byte{kind}, cstr(name)...)) }
func Execute(portal string, limit uint32) []byte {
	return Raw('E', append(cstr(portal), be32(limit)...))
}
func Close(kind byte, name string) []byte { return Raw('C', append([]byte{kind}, cstr(name)...)) }
func Sync() []byte                        { return Raw('S', nil) }
func Flush() []byte                       { return Raw('H', nil) }
func Terminate() []byte                   { return Raw('X', nil) }
func CopyData(b []byte) []byte            { return Raw('d', b) }
func CopyDone() []byte                    { return Raw('c', nil) }
func CopyFail(s string) []byte            { return Raw('f', cstr(s)) }

// ---- strict backend parser ---------------------------------------------------

type ColDesc struct {
	Name   string
	Table  uint32
	Attr   uint16
	OID    uint32
	Len    int16
	Mod    int32
	Format int16
}

type BMsg struct {
	T    byte
	Off  int // offset of the type byte in the stream
	Body []byte

	Auth     int32
	Key, Val string
	Status   byte
	Cols     []ColDesc
	Fields   [][]byte // DataRow; nil entry = NULL
	Tag      string
	Err      map[byte]string
	ErrOrder []byte
	ErrDup   bool
	OIDs     []uint32
	CopyFmt  byte
	CopyCols []int16
}

func (m BMsg) String() string {
	switch m.T {
	case 'E':
		return fmt.Sprintf("E(%s,%s)", m.Err['S'], m.Err['C'])
	case 'Z':
		return "Z" + string(m.Status)
	case 'C':
		return fmt.Sprintf("C(%q)", m.Tag)
	case 'D':
		return fmt.Sprintf("D%d", len(m.Fields))
	case 'T':
		return fmt.Sprintf("T%d", len(m.Cols))
	case 'R':
		return fmt.Sprintf("R(%d)", m.Auth)
	case 't':
		return fmt.Sprintf("t%d", len(m.OIDs))
	}
	return string(m.T)
}

type cur struct {
	b   []byte
	err error
}

func (c *cur) fail(s string) {
	if c.err == nil {
		c.err = fmt.Errorf("%s", s)
	}
}
func (c *cur) u8() byte {
	if c.err != nil || len(c.b) < 1 {
		c.fail("short u8")
		return 0
	}
	v := c.b[0]
	c.b = c.b[1:]
	return v
}
func (c *cur) u16() uint16 {
	if c.err != nil || len(c.b) < 2 {
		c.fail("short u16")
		return 0
	}
	v := binary.BigEndian.Uint16(c.b)
	c.b = c.b[2:]
	return v
}
func (c *cur) u32() uint32 {
	if c.err != nil || len(c.b) < 4 {
		c.fail("short u32")
		return 0
	}
	v := binary.BigEndian.Uint32(c.b)
	c.b = c.b[4:]
	return v
}
func (c *cur) str() string {
	if c.err != nil {
		return ""
	}
	for i, x := range c.b {
		if x == 0 {
			s := string(c.b[:i])
			c.b = c.b[i+1:]
			return s
		}
	}
	c.fail("unterminated string")
	return ""
}
func (c *cur) bytes(n int) []byte {
	if c.err != nil || n < 0 || len(c.b) < n {
		c.fail("short bytes")
		return nil
	}
	v := c.b[:n:n]
	c.b = c.b[n:]
	return v
}
func (c *cur) end(what string) {
	if c.err == nil && len(c.b) != 0 {
		c.fail(fmt.Sprintf("%s: %d surplus byte(s) after body", what, len(c.b)))
	}
}

var severities = map[string]bool{"ERROR": true, "FATAL": true, "PANIC": true, "WARNING": true, "NOTICE": true, "DEBUG": true, "INFO": true, "LOG": true}
var errFieldCodes = "SVCMDHPpqWstcdnFLR"

func knownErrField(b byte) bool {
	for i := 0; i < len(errFieldCodes); i++ {
		if errFieldCodes[i] == b {
			return true
		}
	}
	return false
}

// ParseOne parses exactly one backend message at the start of s.
// n==0 with err==nil means "incomplete message" (need more bytes).
func ParseOne(s []byte) (m BMsg, n int, err error) {
	if len(s) < 5 {
		return m, 0, nil
	}
	m.T = s[0]
	l := binary.BigEndian.Uint32(s[1:5])
	if l < 4 {
		return m, 0, fmt.Errorf("type %q: declared length %d < 4", m.T, l)
	}
	if l > 1<<30 {
		return m, 0, fmt.Errorf("type %q: absurd declared length %d", m.T, l)
	}
	if len(s) < 1+int(l) {
		// unknown types are an error even if incomplete
		if !knownType(m.T) {
			return m, 0, fmt.Errorf("unknown backend message type %q (0x%02x)", m.T, m.T)
		}
		return m, 0, nil
	}
	n = 1 + int(l)
	m.Body = s[5:n]
	c := &cur{b: m.Body}
	switch m.T {
	case 'R':
		m.Auth = int32(c.u32())
		switch m.Auth {
		case 0, 3:
			c.end("Authentication")
		case 5:
			c.bytes(4)
			c.end("AuthenticationMD5")
		default:
			c.fail(fmt.Sprintf("unknown authentication code %d", m.Auth))
		}
	case 'S':
		m.Key = c.str()
		m.Val = c.str()
		c.end("ParameterStatus")
	case 'Z':
		m.Status = c.u8()
		if c.err == nil && m.Status != 'I' && m.Status != 'T' && m.Status != 'E' {
			c.fail(fmt.Sprintf("ReadyForQuery status %q", m.Status))
		}
		c.end("ReadyForQuery")
	case 'T':
		k := int(c.u16()) // unsigned, as libpq and pgproto3 read it
		for i := 0; i < k && c.err == nil; i++ {
			var d ColDesc
			d.Name = c.str()
			d.Table = c.u32()
			d.Attr = c.u16()
			d.OID = c.u32()
			d.Len = int16(c.u16())
			d.Mod = int32(c.u32())
			d.Format = int16(c.u16())
			if c.err == nil && d.Format != 0 && d.Format != 1 {
				c.fail(fmt.Sprintf("RowDescription format code %d", d.Format))
			}
			m.Cols = append(m.Cols, d)
		}
		c.end("RowDescription")
	case 'D':
		k := int(c.u16())
		for i := 0; i < k && c.err == nil; i++ {
			fl := int32(c.u32())
			if fl == -1 {
				m.Fields = append(m.Fields, nil)
				continue
			}
			if fl < -1 {
				c.fail(fmt.Sprintf("DataRow field length %d", fl))
				break
			}
			v := c.bytes(int(fl))
			if v == nil {
				v = []byte{}
			}
			m.Fields = append(m.Fields, v)
		}
		c.end("DataRow")
	case 'C':
		m.Tag = c.str()
		c.end("CommandComplete")
	case 'I', '1', '2', '3', 'n', 's', 'c':
		c.end(string(m.T))
	case 'E', 'N':
		m.Err = map[byte]string{}
		for c.err == nil {
			code := c.u8()
			if c.err != nil {
				c.err = fmt.Errorf("ErrorResponse: missing terminator")
				break
			}
			if code == 0 {
				break
			}
			if !knownErrField(code) {
				c.fail(fmt.Sprintf("ErrorResponse: unknown field code %q (0x%02x)", code, code))
				break
			}
			v := c.str()
			if _, dup := m.Err[code]; dup {
				m.ErrDup = true
			}
			m.Err[code] = v
			m.ErrOrder = append(m.ErrOrder, code)
		}
		c.end("ErrorResponse")
		if c.err == nil {
			sev, ok := m.Err['S']
			if !ok || !severities[sev] {
				c.fail(fmt.Sprintf("ErrorResponse: severity %q", sev))
			}
			code, ok := m.Err['C']
			if !ok || !validSQLState(code) {
				c.fail(fmt.Sprintf("ErrorResponse: SQLSTATE %q", code))
			}
			if _, ok := m.Err['M']; !ok {
				c.fail("ErrorResponse: no message field")
			}
			if l, ok := m.Err['L']; ok && !allDigits(l) {
				c.fail(fmt.Sprintf("ErrorResponse: line field %q is not decimal text", l))
			}
		}
	case 't':
		k := int(c.u16())
		for i := 0; i < k && c.err == nil; i++ {
			m.OIDs = append(m.OIDs, c.u32())
		}
		c.end("ParameterDescription")
	case 'G', 'H', 'W':
		m.CopyFmt = c.u8()
		if c.err == nil && m.CopyFmt > 1 {
			c.fail(fmt.Sprintf("Copy response format %d", m.CopyFmt))
		}
		k := int(c.u16())
		for i := 0; i < k && c.err == nil; i++ {
			f := int16(c.u16())
			if c.err == nil && f != 0 && f != 1 {
				c.fail(fmt.Sprintf("Copy response column format %d", f))
			}
			if c.err == nil && m.CopyFmt == 0 && f != 0 {
				c.fail("Copy response: text overall format with binary column")
			}
			m.CopyCols = append(m.CopyCols, f)
		}
		c.end("CopyResponse")
	case 'K':
		c.bytes(8)
		c.end("BackendKeyData")
	case 'd':
		// CopyData (never produced by this library's COPY-in path, but valid grammar)
	default:
		return m, 0, fmt.Errorf("unknown backend message type %q (0x%02x)", m.T, m.T)
	}
	if c.err != nil {
		return m, 0, fmt.Errorf("type %q at body: %v", m.T, c.err)
	}
	return m, n, nil
}

func knownType(t byte) bool {
	switch t {
	case 'R', 'S', 'Z', 'T', 'D', 'C', 'I', '1', '2', '3', 'n', 's', 'c', 'E', 'N', 't', 'G', 'H', 'W', 'K', 'd':
		return true
	}
	return false
}

// AnySQLState: the code field of an ErrorResponse may be any text (set while errors are reported whose
// codes the handler chose freely; the grammar of the message does not depend on the code being a
// well-formed SQLSTATE).
var AnySQLState bool

func validSQLState(s string) bool {
	if AnySQLState {
		return true
	}
	if len(s) != 5 {
		return false
	}
	for i := 0; i < 5; i++ {
		ch := s[i]
		if !(ch >= '0' && ch <= '9') && !(ch >= 'A' && ch <= 'Z') {
			return false
		}
	}
	return true
}

func allDigits(s string) bool {
	if len(s) > 1 && s[0] == '-' {
		s = s[1:]
	}
	if s == "" {
		return false
	}
	for i := 0; i < len(s); i++ {
		if s[i] < '0' || s[i] > '9' {
			return false
		}
	}
	return true
}

// ParseStream parses a complete server output stream. rest is the length of a
// trailing incomplete message (0 when the stream ends on a boundary).
func ParseStream(s []byte) (msgs []BMsg, rest int, err error) {
	off := 0
	for off < len(s) {
		m, n, e := ParseOne(s[off:])
		if e != nil {
			return msgs, len(s) - off, fmt.Errorf("offset %d: %w", off, e)
		}
		if n == 0 {
			return msgs, len(s) - off, nil
		}
		m.Off = off
		msgs = append(msgs, m)
		off += n
	}
	return msgs, 0, nil
}

// Kinds renders the message sequence compactly, e.g. "R(0) S S Z T D D C Z".
func Kinds(msgs []BMsg) string {
	s := ""
	for i, m := range msgs {
		if i > 0 {
			s += " "
		}
		s += m.String()
	}
	return s
}

// Types returns the type bytes as a string, e.g. "RSSSZTDDCZ".
func Types(msgs []BMsg) string {
	b := make([]byte, len(msgs))
	for i, m := range msgs {
		b[i] = m.T
	}
	return string(b)
}
