#!/bin/bash
# usage: PFX=wN verify_demo.sh Cxx : in the scratch worktree /tmp/${PFX}_Cxx confirms that the demo fails with _out/patch.diff and passes without it
export GOFLAGS=-mod=mod GOPROXY=off GOSUMDB=off GOTOOLCHAIN=local
id=$1; wt=/tmp/${PFX:-wt}_$id
cd $wt || exit 2
# normalise tree: revert everything tracked, then apply the recorded patch
git checkout -- . 2>/dev/null
git apply _out/patch.diff || { echo "$id patch does not apply"; exit 3; }
demo=$(ls zz_*_test.go pkg/buffer/zz_*_test.go errors/zz_*_test.go 2>/dev/null | head -3)
[ -z "$demo" ] && { cp _out/demo_test.go zz_demo_test.go; demo=zz_demo_test.go; }
names=$(grep -h "^func Test" $demo | sed 's/func \(Test[A-Za-z0-9_]*\).*/\1/' | paste -sd'|')
pkgs=$(for d in $demo; do echo ./$(dirname $d); done | sort -u | tr '\n' ' ')
extra=""; [ "$id" = C15 ] && extra="-race"
with=$(go test -tags verif $extra -vet=off -count=1 -run "^($names)\$" $pkgs 2>&1 | tail -3 | tr '\n' ' ')
git apply -R _out/patch.diff
without=$(go test -tags verif $extra -vet=off -count=1 -run "^($names)\$" $pkgs 2>&1 | tail -3 | tr '\n' ' ')
git apply _out/patch.diff
echo "$id tests=[$names] WITH: ${with:0:160} || WITHOUT: ${without:0:120}"
