#!/bin/bash
# usage: hsafe.sh <python-or-shell edit script>  - applies an edit to a scratch copy of the harness, compiles it
# there, and only then copies the changed files back (so that a concurrently running check never sees a broken tree)
set -e
export GOFLAGS=-mod=mod GOPROXY=off GOSUMDB=off GOTOOLCHAIN=local
rm -rf /tmp/hw && mkdir -p /tmp/hw && rsync -a /verif/harness/ /tmp/hw/harness/
( cd /tmp/hw/harness && H=/tmp/hw/harness bash -e "$1" && gofmt -l checks core hs pg tr >/dev/null && go build -tags verif -o /dev/null ./... )
rsync -a --checksum /tmp/hw/harness/ /verif/harness/
rm -rf /tmp/hw
echo applied
