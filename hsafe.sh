#!/bin/bash
# usage: hsafe.sh <edit script>  - applies an edit to a scratch copy of the harness, compiles it there against a clean
# checkout of /repo's HEAD, and only then copies the changed files back (so that a concurrently running check never
# sees a broken harness, and a /repo that seedtest.sh is patching does not matter). The edit script gets $H = harness dir.
set -e
export GOFLAGS=-mod=mod GOPROXY=off GOSUMDB=off GOTOOLCHAIN=local
W=/tmp/hw.$$
mkdir -p $W && rsync -a /verif/harness/ $W/harness/
git -C /repo worktree add --detach $W/repo HEAD >/dev/null 2>&1
trap 'git -C /repo worktree remove --force $W/repo >/dev/null 2>&1; git -C /repo worktree prune; rm -rf $W' EXIT
( cd $W/harness && H=$W/harness bash -e "$1" && sed "s#=> /repo#=> $W/repo#" go.mod > $W/alt.mod && cp $W/repo/go.sum $W/alt.sum && go build -modfile=$W/alt.mod -tags verif -o /dev/null ./... )
rsync -a --checksum --exclude go.sum $W/harness/ /verif/harness/
echo applied
