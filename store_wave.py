#!/usr/bin/env python3
"""store_wave.py <prefix> <first S number> <wave.json>: copies /tmp/<prefix>_Cxx/_out into /verif/seeded/S<n>-Cxx-<slug>/
and writes meta.json. wave.json: {"origin": "...", "C01": {"slug":..,"change":..,"needs":..,"caught":[..],"first_run": ".." (only when missed)}, ...}"""
import json, sys, os, shutil
pfx, n0, wf = sys.argv[1], int(sys.argv[2]), sys.argv[3]
w = json.load(open(wf))
for i in range(1, 21):
    prop = "C%02d" % i
    if prop not in w: continue
    e = w[prop]; sid = "S%d" % (n0 + i - 1)
    d = "/verif/seeded/%s-%s-%s" % (sid, prop, e["slug"])
    os.makedirs(d, exist_ok=True)
    for f in ("patch.diff", "demo_test.go", "notes.md"):
        shutil.copy("/tmp/%s_%s/_out/%s" % (pfx, prop, f), d)
    meta = {"id": sid, "property": prop, "change": e["change"], "needs_to_manifest": e["needs"], "origin": w["origin"],
            "confirmed": {"compiles": True, "repo_suite_with_change": "pass=69 fail=0 (/verif/baseline.sh via /verif/seedtest.sh)",
                          "demo_with_change": "FAIL", "demo_without_change": "ok",
                          "commands": ["go test -tags verif -vet=off -count=1 -run '^(demo tests)$' in the scratch worktree with and without patch.diff",
                                       "/verif/seedtest.sh %s/patch.diff %s" % (d, prop)]},
            "caught_by_quick_checks": e.get("caught", [prop])}
    if "first_run" in e: meta["first_run"] = e["first_run"]
    json.dump(meta, open(d + "/meta.json", "w"), indent=1)
    print(d)
