#!/bin/bash
# usage: seedtest.sh <patch.diff> <prop> [<prop>...]
# Applies a seeded change to /repo, checks that it compiles and that the repository's own
# suite (guard off) still passes, runs the given properties' quick checks, and reverts /repo.
# Prints one line per property: CAUGHT / MISSED / INCONCLUSIVE.
set -u
export GOFLAGS=-mod=mod GOPROXY=off GOSUMDB=off GOTOOLCHAIN=local
patch=$1; shift
cd /repo || exit 2
if [ -n "$(git status --porcelain)" ]; then echo "/repo not clean"; exit 2; fi
if ! git apply --check "$patch" 2>/dev/null; then echo "PATCH DOES NOT APPLY: $patch"; exit 3; fi
git apply "$patch"
# evidence written while a seeded change is applied must never replace the real evidence
rm -rf /verif/.work/evidence.keep; cp -r /verif/evidence /verif/.work/evidence.keep
trap 'git -C /repo checkout -- . ; git -C /repo clean -fdq; rm -rf /verif/evidence; mv /verif/.work/evidence.keep /verif/evidence' EXIT
if ! go build ./... 2>/tmp/seed_build.err; then echo "DOES NOT COMPILE"; head -5 /tmp/seed_build.err; exit 3; fi
b=$(/verif/baseline.sh); echo "suite with change: $b"
for p in "$@"; do
  out=$(cd /verif && ./run.sh "$p" quick 2>&1); rc=$?
  case $rc in
    0) echo "$p MISSED  ($(echo "$out" | grep -E "^$p tier" | head -1))";;
    1) echo "$p CAUGHT  $(echo "$out" | grep -E "^  rule:" | sort | uniq -c | sort -rn | head -3 | tr '\n' ';')";;
    *) echo "$p INCONCLUSIVE rc=$rc $(echo "$out" | grep -E "^INCONCLUSIVE" | head -2 | tr '\n' ';')";;
  esac
done
