#!/bin/bash
# usage: cleanrun.sh [-s seed] [-t tier] <Cxx...> : runs checks of the current /verif working tree against a clean checkout of
# /repo's HEAD, from a snapshot under /tmp (so that /repo, /verif/.work and /verif/evidence are not touched; usable while
# seedtest.sh / wave_eval.sh are patching /repo). Prints the summary line and any VIOLATION/rule lines.
SEED=1; TIER=quick
while getopts s:t: o; do case $o in s) SEED=$OPTARG;; t) TIER=$OPTARG;; esac; done; shift $((OPTIND-1))
S=/tmp/vsnap.$$; R=/tmp/cleanrepo.$$
rsync -a --exclude .work --exclude .git /verif/ $S/ && git -C /repo worktree add --detach $R HEAD >/dev/null 2>&1 || exit 2
trap '[ -n "$KEEP" ] && cp -r $S/replays /tmp/keep_replays; rm -rf $S; git -C /repo worktree remove --force $R; git -C /repo worktree prune' EXIT
for p in "$@"; do
  VERIF_REPO=$R VERIF_SEED=$SEED $S/run.sh $p $TIER 2>&1 | grep -E "tier=|^VIOLATION|rule:|INCONCLUSIVE|KNOWN" | cut -c1-400 | sort | uniq -c | sort -rn | head -8
done
